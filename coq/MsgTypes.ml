open Ascii
open Guards
open String

(** val msg_types : msg_type list **)

let msg_types =
  { mt_module = (String ((Ascii (true, false, false, false, false, true,
    true, false)), (String ((Ascii (true, true, false, false, true, true,
    true, false)), (String ((Ascii (true, true, false, false, true, true,
    true, false)), (String ((Ascii (true, false, true, false, false, true,
    true, false)), (String ((Ascii (false, false, true, false, true, true,
    true, false)), EmptyString)))))))))); mt_name = (String ((Ascii (true,
    false, true, true, false, false, true, false)), (String ((Ascii (true,
    true, false, false, true, true, true, false)), (String ((Ascii (true,
    true, true, false, false, true, true, false)), (String ((Ascii (true,
    false, false, false, false, false, true, false)), (String ((Ascii (false,
    false, true, false, false, true, true, false)), (String ((Ascii (false,
    false, true, false, false, true, true, false)), (String ((Ascii (true,
    false, false, false, false, false, true, false)), (String ((Ascii (true,
    true, false, false, true, true, true, false)), (String ((Ascii (true,
    true, false, false, true, true, true, false)), (String ((Ascii (true,
    false, true, false, false, true, true, false)), (String ((Ascii (false,
    false, true, false, true, true, true, false)),
    EmptyString)))))))))))))))))))))); mt_signer = (Some (String ((Ascii
    (true, true, false, false, false, false, true, false)), (String ((Ascii
    (false, true, false, false, true, true, true, false)), (String ((Ascii
    (true, false, true, false, false, true, true, false)), (String ((Ascii
    (true, false, false, false, false, true, true, false)), (String ((Ascii
    (false, false, true, false, true, true, true, false)), (String ((Ascii
    (true, true, true, true, false, true, true, false)), (String ((Ascii
    (false, true, false, false, true, true, true, false)),
    EmptyString))))))))))))))); mt_ids = []; mt_handler = (String ((Ascii
    (true, false, false, false, false, true, true, false)), (String ((Ascii
    (true, true, false, false, true, true, true, false)), (String ((Ascii
    (true, true, false, false, true, true, true, false)), (String ((Ascii
    (true, false, true, false, false, true, true, false)), (String ((Ascii
    (false, false, true, false, true, true, true, false)), (String ((Ascii
    (false, true, true, true, false, true, false, false)), (String ((Ascii
    (true, false, false, false, false, false, true, false)), (String ((Ascii
    (false, false, true, false, false, true, true, false)), (String ((Ascii
    (false, false, true, false, false, true, true, false)), (String ((Ascii
    (true, false, false, false, false, false, true, false)), (String ((Ascii
    (true, true, false, false, true, true, true, false)), (String ((Ascii
    (true, true, false, false, true, true, true, false)), (String ((Ascii
    (true, false, true, false, false, true, true, false)), (String ((Ascii
    (false, false, true, false, true, true, true, false)),
    EmptyString)))))))))))))))))))))))))))) } :: ({ mt_module = (String
    ((Ascii (true, false, false, false, false, true, true, false)), (String
    ((Ascii (true, false, true, false, true, true, true, false)), (String
    ((Ascii (true, true, false, false, false, true, true, false)), (String
    ((Ascii (false, false, true, false, true, true, true, false)), (String
    ((Ascii (true, false, false, true, false, true, true, false)), (String
    ((Ascii (true, true, true, true, false, true, true, false)), (String
    ((Ascii (false, true, true, true, false, true, true, false)),
    EmptyString)))))))))))))); mt_name = (String ((Ascii (true, false, true,
    true, false, false, true, false)), (String ((Ascii (true, true, false,
    false, true, true, true, false)), (String ((Ascii (true, true, true,
    false, false, true, true, false)), (String ((Ascii (false, false, false,
    false, true, false, true, false)), (String ((Ascii (false, false, true,
    true, false, true, true, false)), (String ((Ascii (true, false, false,
    false, false, true, true, false)), (String ((Ascii (true, true, false,
    false, false, true, true, false)), (String ((Ascii (true, false, true,
    false, false, true, true, false)), (String ((Ascii (false, false, true,
    false, false, false, true, false)), (String ((Ascii (true, false, true,
    false, false, true, true, false)), (String ((Ascii (false, true, false,
    false, false, true, true, false)), (String ((Ascii (false, false, true,
    false, true, true, true, false)), (String ((Ascii (false, true, false,
    false, false, false, true, false)), (String ((Ascii (true, false, false,
    true, false, true, true, false)), (String ((Ascii (false, false, true,
    false, false, true, true, false)), (String ((Ascii (false, true, false,
    false, true, false, true, false)), (String ((Ascii (true, false, true,
    false, false, true, true, false)), (String ((Ascii (true, false, false,
    false, true, true, true, false)), (String ((Ascii (true, false, true,
    false, true, true, true, false)), (String ((Ascii (true, false, true,
    false, false, true, true, false)), (String ((Ascii (true, true, false,
    false, true, true, true, false)), (String ((Ascii (false, false, true,
    false, true, true, true, false)),
    EmptyString)))))))))))))))))))))))))))))))))))))))))))); mt_signer =
    (Some (String ((Ascii (false, true, false, false, false, false, true,
    false)), (String ((Ascii (true, false, false, true, false, true, true,
    false)), (String ((Ascii (false, false, true, false, false, true, true,
    false)), (String ((Ascii (false, false, true, false, false, true, true,
    false)), (String ((Ascii (true, false, true, false, false, true, true,
    false)), (String ((Ascii (false, true, false, false, true, true, true,
    false)), EmptyString))))))))))))); mt_ids = ((String ((Ascii (true,
    false, false, false, false, false, true, false)), (String ((Ascii (true,
    false, true, false, true, true, true, false)), (String ((Ascii (true,
    true, false, false, false, true, true, false)), (String ((Ascii (false,
    false, true, false, true, true, true, false)), (String ((Ascii (true,
    false, false, true, false, true, true, false)), (String ((Ascii (true,
    true, true, true, false, true, true, false)), (String ((Ascii (false,
    true, true, true, false, true, true, false)), (String ((Ascii (true,
    false, false, true, false, false, true, false)), (String ((Ascii (false,
    false, true, false, false, true, true, false)),
    EmptyString)))))))))))))))))) :: ((String ((Ascii (true, false, false,
    false, false, false, true, false)), (String ((Ascii (false, false, false,
    false, true, true, true, false)), (String ((Ascii (false, false, false,
    false, true, true, true, false)), (String ((Ascii (true, false, false,
    true, false, false, true, false)), (String ((Ascii (false, false, true,
    false, false, true, true, false)), EmptyString)))))))))) :: ((String
    ((Ascii (true, false, false, false, false, false, true, false)), (String
    ((Ascii (true, false, true, false, true, true, true, false)), (String
    ((Ascii (true, true, false, false, false, true, true, false)), (String
    ((Ascii (false, false, true, false, true, true, true, false)), (String
    ((Ascii (true, false, false, true, false, true, true, false)), (String
    ((Ascii (true, true, true, true, false, true, true, false)), (String
    ((Ascii (false, true, true, true, false, true, true, false)), (String
    ((Ascii (true, false, true, true, false, false, true, false)), (String
    ((Ascii (true, false, false, false, false, true, true, false)), (String
    ((Ascii (false, false, false, false, true, true, true, false)), (String
    ((Ascii (false, false, false, false, true, true, true, false)), (String
    ((Ascii (true, false, false, true, false, true, true, false)), (String
    ((Ascii (false, true, true, true, false, true, true, false)), (String
    ((Ascii (true, true, true, false, false, true, true, false)), (String
    ((Ascii (true, false, false, true, false, false, true, false)), (String
    ((Ascii (false, false, true, false, false, true, true, false)),
    EmptyString)))))))))))))))))))))))))))))))) :: []))); mt_handler =
    (String ((Ascii (true, false, false, false, false, true, true, false)),
    (String ((Ascii (true, false, true, false, true, true, true, false)),
    (String ((Ascii (true, true, false, false, false, true, true, false)),
    (String ((Ascii (false, false, true, false, true, true, true, false)),
    (String ((Ascii (true, false, false, true, false, true, true, false)),
    (String ((Ascii (true, true, true, true, false, true, true, false)),
    (String ((Ascii (false, true, true, true, false, true, true, false)),
    (String ((Ascii (false, true, true, true, false, true, false, false)),
    (String ((Ascii (true, false, true, true, false, false, true, false)),
    (String ((Ascii (true, true, false, false, true, true, true, false)),
    (String ((Ascii (true, true, true, false, false, true, true, false)),
    (String ((Ascii (false, false, false, false, true, false, true, false)),
    (String ((Ascii (false, false, true, true, false, true, true, false)),
    (String ((Ascii (true, false, false, false, false, true, true, false)),
    (String ((Ascii (true, true, false, false, false, true, true, false)),
    (String ((Ascii (true, false, true, false, false, true, true, false)),
    (String ((Ascii (false, false, true, false, false, false, true, false)),
    (String ((Ascii (true, false, true, false, false, true, true, false)),
    (String ((Ascii (false, true, false, false, false, true, true, false)),
    (String ((Ascii (false, false, true, false, true, true, true, false)),
    (String ((Ascii (false, true, false, false, false, false, true, false)),
    (String ((Ascii (true, false, false, true, false, true, true, false)),
    (String ((Ascii (false, false, true, false, false, true, true, false)),
    EmptyString)))))))))))))))))))))))))))))))))))))))))))))) } :: ({ mt_module =
    (String ((Ascii (true, false, false, false, false, true, true, false)),
    (String ((Ascii (true, false, true, false, true, true, true, false)),
    (String ((Ascii (true, true, false, false, false, true, true, false)),
    (String ((Ascii (false, false, true, false, true, true, true, false)),
    (String ((Ascii (true, false, false, true, false, true, true, false)),
    (String ((Ascii (true, true, true, true, false, true, true, false)),
    (String ((Ascii (false, true, true, true, false, true, true, false)),
    EmptyString)))))))))))))); mt_name = (String ((Ascii (true, false, true,
    true, false, false, true, false)), (String ((Ascii (true, true, false,
    false, true, true, true, false)), (String ((Ascii (true, true, true,
    false, false, true, true, false)), (String ((Ascii (false, false, false,
    false, true, false, true, false)), (String ((Ascii (false, false, true,
    true, false, true, true, false)), (String ((Ascii (true, false, false,
    false, false, true, true, false)), (String ((Ascii (true, true, false,
    false, false, true, true, false)), (String ((Ascii (true, false, true,
    false, false, true, true, false)), (String ((Ascii (false, false, true,
    false, false, false, true, false)), (String ((Ascii (true, false, true,
    false, true, true, true, false)), (String ((Ascii (false, false, true,
    false, true, true, true, false)), (String ((Ascii (true, true, false,
    false, false, true, true, false)), (String ((Ascii (false, false, false,
    true, false, true, true, false)), (String ((Ascii (false, true, false,
    false, false, false, true, false)), (String ((Ascii (true, false, false,
    true, false, true, true, false)), (String ((Ascii (false, false, true,
    false, false, true, true, false)), (String ((Ascii (false, true, false,
    false, true, false, true, false)), (String ((Ascii (true, false, true,
    false, false, true, true, false)), (String ((Ascii (true, false, false,
    false, true, true, true, false)), (String ((Ascii (true, false, true,
    false, true, true, true, false)), (String ((Ascii (true, false, true,
    false, false, true, true, false)), (String ((Ascii (true, true, false,
    false, true, true, true, false)), (String ((Ascii (false, false, true,
    false, true, true, true, false)),
    EmptyString)))))))))))))))))))))))))))))))))))))))))))))); mt_signer =
    (Some (String ((Ascii (false, true, false, false, false, false, true,
    false)), (String ((Ascii (true, false, false, true, false, true, true,
    false)), (String ((Ascii (false, false, true, false, false, true, true,
    false)), (String ((Ascii (false, false, true, false, false, true, true,
    false)), (String ((Ascii (true, false, true, false, false, true, true,
    false)), (String ((Ascii (false, true, false, false, true, true, true,
    false)), EmptyString))))))))))))); mt_ids = ((String ((Ascii (true,
    false, false, false, false, false, true, false)), (String ((Ascii (true,
    false, true, false, true, true, true, false)), (String ((Ascii (true,
    true, false, false, false, true, true, false)), (String ((Ascii (false,
    false, true, false, true, true, true, false)), (String ((Ascii (true,
    false, false, true, false, true, true, false)), (String ((Ascii (true,
    true, true, true, false, true, true, false)), (String ((Ascii (false,
    true, true, true, false, true, true, false)), (String ((Ascii (true,
    false, false, true, false, false, true, false)), (String ((Ascii (false,
    false, true, false, false, true, true, false)),
    EmptyString)))))))))))))))))) :: ((String ((Ascii (true, false, false,
    false, false, false, true, false)), (String ((Ascii (false, false, false,
    false, true, true, true, false)), (String ((Ascii (false, false, false,
    false, true, true, true, false)), (String ((Ascii (true, false, false,
    true, false, false, true, false)), (String ((Ascii (false, false, true,
    false, false, true, true, false)), EmptyString)))))))))) :: ((String
    ((Ascii (true, false, false, false, false, false, true, false)), (String
    ((Ascii (true, false, true, false, true, true, true, false)), (String
    ((Ascii (true, true, false, false, false, true, true, false)), (String
    ((Ascii (false, false, true, false, true, true, true, false)), (String
    ((Ascii (true, false, false, true, false, true, true, false)), (String
    ((Ascii (true, true, true, true, false, true, true, false)), (String
    ((Ascii (false, true, true, true, false, true, true, false)), (String
    ((Ascii (true, false, true, true, false, false, true, false)), (String
    ((Ascii (true, false, false, false, false, true, true, false)), (String
    ((Ascii (false, false, false, false, true, true, true, false)), (String
    ((Ascii (false, false, false, false, true, true, true, false)), (String
    ((Ascii (true, false, false, true, false, true, true, false)), (String
    ((Ascii (false, true, true, true, false, true, true, false)), (String
    ((Ascii (true, true, true, false, false, true, true, false)), (String
    ((Ascii (true, false, false, true, false, false, true, false)), (String
    ((Ascii (false, false, true, false, false, true, true, false)),
    EmptyString)))))))))))))))))))))))))))))))) :: []))); mt_handler =
    (String ((Ascii (true, false, false, false, false, true, true, false)),
    (String ((Ascii (true, false, true, false, true, true, true, false)),
    (String ((Ascii (true, true, false, false, false, true, true, false)),
    (String ((Ascii (false, false, true, false, true, true, true, false)),
    (String ((Ascii (true, false, false, true, false, true, true, false)),
    (String ((Ascii (true, true, true, true, false, true, true, false)),
    (String ((Ascii (false, true, true, true, false, true, true, false)),
    (String ((Ascii (false, true, true, true, false, true, false, false)),
    (String ((Ascii (true, false, true, true, false, false, true, false)),
    (String ((Ascii (true, true, false, false, true, true, true, false)),
    (String ((Ascii (true, true, true, false, false, true, true, false)),
    (String ((Ascii (false, false, false, false, true, false, true, false)),
    (String ((Ascii (false, false, true, true, false, true, true, false)),
    (String ((Ascii (true, false, false, false, false, true, true, false)),
    (String ((Ascii (true, true, false, false, false, true, true, false)),
    (String ((Ascii (true, false, true, false, false, true, true, false)),
    (String ((Ascii (false, false, true, false, false, false, true, false)),
    (String ((Ascii (true, false, true, false, true, true, true, false)),
    (String ((Ascii (false, false, true, false, true, true, true, false)),
    (String ((Ascii (true, true, false, false, false, true, true, false)),
    (String ((Ascii (false, false, false, true, false, true, true, false)),
    (String ((Ascii (false, true, false, false, false, false, true, false)),
    (String ((Ascii (true, false, false, true, false, true, true, false)),
    (String ((Ascii (false, false, true, false, false, true, true, false)),
    EmptyString)))))))))))))))))))))))))))))))))))))))))))))))) } :: ({ mt_module =
    (String ((Ascii (true, false, false, false, false, true, true, false)),
    (String ((Ascii (true, false, true, false, true, true, true, false)),
    (String ((Ascii (true, true, false, false, false, true, true, false)),
    (String ((Ascii (false, false, true, false, true, true, true, false)),
    (String ((Ascii (true, false, false, true, false, true, true, false)),
    (String ((Ascii (true, true, true, true, false, true, true, false)),
    (String ((Ascii (false, true, true, true, false, true, true, false)),
    EmptyString)))))))))))))); mt_name = (String ((Ascii (true, false, true,
    true, false, false, true, false)), (String ((Ascii (true, true, false,
    false, true, true, true, false)), (String ((Ascii (true, true, true,
    false, false, true, true, false)), (String ((Ascii (false, false, false,
    false, true, false, true, false)), (String ((Ascii (false, false, true,
    true, false, true, true, false)), (String ((Ascii (true, false, false,
    false, false, true, true, false)), (String ((Ascii (true, true, false,
    false, false, true, true, false)), (String ((Ascii (true, false, true,
    false, false, true, true, false)), (String ((Ascii (false, false, true,
    false, false, false, true, false)), (String ((Ascii (true, false, true,
    false, true, true, true, false)), (String ((Ascii (false, false, true,
    false, true, true, true, false)), (String ((Ascii (true, true, false,
    false, false, true, true, false)), (String ((Ascii (false, false, false,
    true, false, true, true, false)), (String ((Ascii (false, false, true,
    true, false, false, true, false)), (String ((Ascii (true, false, true,
    false, false, true, true, false)), (String ((Ascii (false, true, true,
    true, false, true, true, false)), (String ((Ascii (false, false, true,
    false, false, true, true, false)), (String ((Ascii (false, true, false,
    false, false, false, true, false)), (String ((Ascii (true, false, false,
    true, false, true, true, false)), (String ((Ascii (false, false, true,
    false, false, true, true, false)), (String ((Ascii (false, true, false,
    false, true, false, true, false)), (String ((Ascii (true, false, true,
    false, false, true, true, false)), (String ((Ascii (true, false, false,
    false, true, true, true, false)), (String ((Ascii (true, false, true,
    false, true, true, true, false)), (String ((Ascii (true, false, true,
    false, false, true, true, false)), (String ((Ascii (true, true, false,
    false, true, true, true, false)), (String ((Ascii (false, false, true,
    false, true, true, true, false)),
    EmptyString))))))))))))))))))))))))))))))))))))))))))))))))))))));
    mt_signer = (Some (String ((Ascii (false, true, false, false, false,
    false, true, false)), (String ((Ascii (true, false, false, true, false,
    true, true, false)), (String ((Ascii (false, false, true, false, false,
    true, true, false)), (String ((Ascii (false, false, true, false, false,
    true, true, false)), (String ((Ascii (true, false, true, false, false,
    true, true, false)), (String ((Ascii (false, true, false, false, true,
    true, true, false)), EmptyString))))))))))))); mt_ids = ((String ((Ascii
    (true, false, false, false, false, false, true, false)), (String ((Ascii
    (true, false, true, false, true, true, true, false)), (String ((Ascii
    (true, true, false, false, false, true, true, false)), (String ((Ascii
    (false, false, true, false, true, true, true, false)), (String ((Ascii
    (true, false, false, true, false, true, true, false)), (String ((Ascii
    (true, true, true, true, false, true, true, false)), (String ((Ascii
    (false, true, true, true, false, true, true, false)), (String ((Ascii
    (true, false, false, true, false, false, true, false)), (String ((Ascii
    (false, false, true, false, false, true, true, false)),
    EmptyString)))))))))))))))))) :: ((String ((Ascii (true, false, false,
    false, false, false, true, false)), (String ((Ascii (false, false, false,
    false, true, true, true, false)), (String ((Ascii (false, false, false,
    false, true, true, true, false)), (String ((Ascii (true, false, false,
    true, false, false, true, false)), (String ((Ascii (false, false, true,
    false, false, true, true, false)), EmptyString)))))))))) :: ((String
    ((Ascii (true, false, false, false, false, false, true, false)), (String
    ((Ascii (true, false, true, false, true, true, true, false)), (String
    ((Ascii (true, true, false, false, false, true, true, false)), (String
    ((Ascii (false, false, true, false, true, true, true, false)), (String
    ((Ascii (true, false, false, true, false, true, true, false)), (String
    ((Ascii (true, true, true, true, false, true, true, false)), (String
    ((Ascii (false, true, true, true, false, true, true, false)), (String
    ((Ascii (true, false, true, true, false, false, true, false)), (String
    ((Ascii (true, false, false, false, false, true, true, false)), (String
    ((Ascii (false, false, false, false, true, true, true, false)), (String
    ((Ascii (false, false, false, false, true, true, true, false)), (String
    ((Ascii (true, false, false, true, false, true, true, false)), (String
    ((Ascii (false, true, true, true, false, true, true, false)), (String
    ((Ascii (true, true, true, false, false, true, true, false)), (String
    ((Ascii (true, false, false, true, false, false, true, false)), (String
    ((Ascii (false, false, true, false, false, true, true, false)),
    EmptyString)))))))))))))))))))))))))))))))) :: []))); mt_handler =
    (String ((Ascii (true, false, false, false, false, true, true, false)),
    (String ((Ascii (true, false, true, false, true, true, true, false)),
    (String ((Ascii (true, true, false, false, false, true, true, false)),
    (String ((Ascii (false, false, true, false, true, true, true, false)),
    (String ((Ascii (true, false, false, true, false, true, true, false)),
    (String ((Ascii (true, true, true, true, false, true, true, false)),
    (String ((Ascii (false, true, true, true, false, true, true, false)),
    (String ((Ascii (false, true, true, true, false, true, false, false)),
    (String ((Ascii (true, false, true, true, false, false, true, false)),
    (String ((Ascii (true, true, false, false, true, true, true, false)),
    (String ((Ascii (true, true, true, false, false, true, true, false)),
    (String ((Ascii (false, false, false, false, true, false, true, false)),
    (String ((Ascii (false, false, true, true, false, true, true, false)),
    (String ((Ascii (true, false, false, false, false, true, true, false)),
    (String ((Ascii (true, true, false, false, false, true, true, false)),
    (String ((Ascii (true, false, true, false, false, true, true, false)),
    (String ((Ascii (false, false, true, false, false, false, true, false)),
    (String ((Ascii (true, false, true, false, true, true, true, false)),
    (String ((Ascii (false, false, true, false, true, true, true, false)),
    (String ((Ascii (true, true, false, false, false, true, true, false)),
    (String ((Ascii (false, false, false, true, false, true, true, false)),
    (String ((Ascii (false, false, true, true, false, false, true, false)),
    (String ((Ascii (true, false, true, false, false, true, true, false)),
    (String ((Ascii (false, true, true, true, false, true, true, false)),
    (String ((Ascii (false, false, true, false, false, true, true, false)),
    (String ((Ascii (false, true, false, false, false, false, true, false)),
    (String ((Ascii (true, false, false, true, false, true, true, false)),
    (String ((Ascii (false, false, true, false, false, true, true, false)),
    EmptyString)))))))))))))))))))))))))))))))))))))))))))))))))))))))) } :: ({ mt_module =
    (String ((Ascii (true, false, false, false, false, true, true, false)),
    (String ((Ascii (true, false, true, false, true, true, true, false)),
    (String ((Ascii (true, true, false, false, false, true, true, false)),
    (String ((Ascii (false, false, true, false, true, true, true, false)),
    (String ((Ascii (true, false, false, true, false, true, true, false)),
    (String ((Ascii (true, true, true, true, false, true, true, false)),
    (String ((Ascii (false, true, true, true, false, true, true, false)),
    EmptyString)))))))))))))); mt_name = (String ((Ascii (true, false, true,
    true, false, false, true, false)), (String ((Ascii (true, true, false,
    false, true, true, true, false)), (String ((Ascii (true, true, true,
    false, false, true, true, false)), (String ((Ascii (false, false, false,
    false, true, false, true, false)), (String ((Ascii (false, false, true,
    true, false, true, true, false)), (String ((Ascii (true, false, false,
    false, false, true, true, false)), (String ((Ascii (true, true, false,
    false, false, true, true, false)), (String ((Ascii (true, false, true,
    false, false, true, true, false)), (String ((Ascii (true, true, false,
    false, true, false, true, false)), (String ((Ascii (true, false, true,
    false, true, true, true, false)), (String ((Ascii (false, true, false,
    false, true, true, true, false)), (String ((Ascii (false, false, false,
    false, true, true, true, false)), (String ((Ascii (false, false, true,
    true, false, true, true, false)), (String ((Ascii (true, false, true,
    false, true, true, true, false)), (String ((Ascii (true, true, false,
    false, true, true, true, false)), (String ((Ascii (false, true, false,
    false, false, false, true, false)), (String ((Ascii (true, false, false,
    true, false, true, true, false)), (String ((Ascii (false, false, true,
    false, false, true, true, false)), (String ((Ascii (false, true, false,
    false, true, false, true, false)), (String ((Ascii (true, false, true,
    false, false, true, true, false)), (String ((Ascii (true, false, false,
    false, true, true, true, false)), (String ((Ascii (true, false, true,
    false, true, true, true, false)), (String ((Ascii (true, false, true,
    false, false, true, true, false)), (String ((Ascii (true, true, false,
    false, true, true, true, false)), (String ((Ascii (false, false, true,
    false, true, true, true, false)),
    EmptyString))))))))))))))))))))))))))))))))))))))))))))))))));
    mt_signer = (Some (String ((Ascii (false, true, false, false, false,
    false, true, false)), (String ((Ascii (true, false, false, true, false,
    true, true, false)), (String ((Ascii (false, false, true, false, false,
    true, true, false)), (String ((Ascii (false, false, true, false, false,
    true, true, false)), (String ((Ascii (true, false, true, false, false,
    true, true, false)), (String ((Ascii (false, true, false, false, true,
    true, true, false)), EmptyString))))))))))))); mt_ids = ((String ((Ascii
    (true, false, false, false, false, false, true, false)), (String ((Ascii
    (true, false, true, false, true, true, true, false)), (String ((Ascii
    (true, true, false, false, false, true, true, false)), (String ((Ascii
    (false, false, true, false, true, true, true, false)), (String ((Ascii
    (true, false, false, true, false, true, true, false)), (String ((Ascii
    (true, true, true, true, false, true, true, false)), (String ((Ascii
    (false, true, true, true, false, true, true, false)), (String ((Ascii
    (true, false, false, true, false, false, true, false)), (String ((Ascii
    (false, false, true, false, false, true, true, false)),
    EmptyString)))))))))))))))))) :: ((String ((Ascii (true, false, false,
    false, false, false, true, false)), (String ((Ascii (false, false, false,
    false, true, true, true, false)), (String ((Ascii (false, false, false,
    false, true, true, true, false)), (String ((Ascii (true, false, false,
    true, false, false, true, false)), (String ((Ascii (false, false, true,
    false, false, true, true, false)), EmptyString)))))))))) :: ((String
    ((Ascii (true, false, false, false, false, false, true, false)), (String
    ((Ascii (true, false, true, false, true, true, true, false)), (String
    ((Ascii (true, true, false, false, false, true, true, false)), (String
    ((Ascii (false, false, true, false, true, true, true, false)), (String
    ((Ascii (true, false, false, true, false, true, true, false)), (String
    ((Ascii (true, true, true, true, false, true, true, false)), (String
    ((Ascii (false, true, true, true, false, true, true, false)), (String
    ((Ascii (true, false, true, true, false, false, true, false)), (String
    ((Ascii (true, false, false, false, false, true, true, false)), (String
    ((Ascii (false, false, false, false, true, true, true, false)), (String
    ((Ascii (false, false, false, false, true, true, true, false)), (String
    ((Ascii (true, false, false, true, false, true, true, false)), (String
    ((Ascii (false, true, true, true, false, true, true, false)), (String
    ((Ascii (true, true, true, false, false, true, true, false)), (String
    ((Ascii (true, false, false, true, false, false, true, false)), (String
    ((Ascii (false, false, true, false, false, true, true, false)),
    EmptyString)))))))))))))))))))))))))))))))) :: []))); mt_handler =
    (String ((Ascii (true, false, false, false, false, true, true, false)),
    (String ((Ascii (true, false, true, false, true, true, true, false)),
    (String ((Ascii (true, true, false, false, false, true, true, false)),
    (String ((Ascii (false, false, true, false, true, true, true, false)),
    (String ((Ascii (true, false, false, true, false, true, true, false)),
    (String ((Ascii (true, true, true, true, false, true, true, false)),
    (String ((Ascii (false, true, true, true, false, true, true, false)),
    (String ((Ascii (false, true, true, true, false, true, false, false)),
    (String ((Ascii (true, false, true, true, false, false, true, false)),
    (String ((Ascii (true, true, false, false, true, true, true, false)),
    (String ((Ascii (true, true, true, false, false, true, true, false)),
    (String ((Ascii (false, false, false, false, true, false, true, false)),
    (String ((Ascii (false, false, true, true, false, true, true, false)),
    (String ((Ascii (true, false, false, false, false, true, true, false)),
    (String ((Ascii (true, true, false, false, false, true, true, false)),
    (String ((Ascii (true, false, true, false, false, true, true, false)),
    (String ((Ascii (true, true, false, false, true, false, true, false)),
    (String ((Ascii (true, false, true, false, true, true, true, false)),
    (String ((Ascii (false, true, false, false, true, true, true, false)),
    (String ((Ascii (false, false, false, false, true, true, true, false)),
    (String ((Ascii (false, false, true, true, false, true, true, false)),
    (String ((Ascii (true, false, true, false, true, true, true, false)),
    (String ((Ascii (true, true, false, false, true, true, true, false)),
    (String ((Ascii (false, true, false, false, false, false, true, false)),
    (String ((Ascii (true, false, false, true, false, true, true, false)),
    (String ((Ascii (false, false, true, false, false, true, true, false)),
    EmptyString)))))))))))))))))))))))))))))))))))))))))))))))))))) } :: ({ mt_module =
    (String ((Ascii (true, false, false, false, false, true, true, false)),
    (String ((Ascii (true, false, true, false, true, true, true, false)),
    (String ((Ascii (true, true, false, false, false, true, true, false)),
    (String ((Ascii (false, false, true, false, true, true, true, false)),
    (String ((Ascii (true, false, false, true, false, true, true, false)),
    (String ((Ascii (true, true, true, true, false, true, true, false)),
    (String ((Ascii (false, true, true, true, false, true, true, false)),
    (String ((Ascii (true, true, false, false, true, true, true, false)),
    (String ((Ascii (false, true, true, false, true, false, true, false)),
    (String ((Ascii (false, true, false, false, true, true, false, false)),
    EmptyString)))))))))))))))))))); mt_name = (String ((Ascii (true, false,
    true, true, false, false, true, false)), (String ((Ascii (true, true,
    false, false, true, true, true, false)), (String ((Ascii (true, true,
    true, false, false, true, true, false)), (String ((Ascii (true, true,
    false, false, false, false, true, false)), (String ((Ascii (true, false,
    false, false, false, true, true, false)), (String ((Ascii (false, true,
    true, true, false, true, true, false)), (String ((Ascii (true, true,
    false, false, false, true, true, false)), (String ((Ascii (true, false,
    true, false, false, true, true, false)), (String ((Ascii (false, false,
    true, true, false, true, true, false)), (String ((Ascii (false, false,
    true, true, false, false, true, false)), (String ((Ascii (true, false,
    false, true, false, true, true, false)), (String ((Ascii (true, false,
    true, true, false, true, true, false)), (String ((Ascii (true, false,
    false, true, false, true, true, false)), (String ((Ascii (false, false,
    true, false, true, true, true, false)), (String ((Ascii (false, true,
    false, false, false, false, true, false)), (String ((Ascii (true, false,
    false, true, false, true, true, false)), (String ((Ascii (false, false,
    true, false, false, true, true, false)), (String ((Ascii (false, true,
    false, false, true, false, true, false)), (String ((Ascii (true, false,
    true, false, false, true, true, false)), (String ((Ascii (true, false,
    false, false, true, true, true, false)), (String ((Ascii (true, false,
    true, false, true, true, true, false)), (String ((Ascii (true, false,
    true, false, false, true, true, false)), (String ((Ascii (true, true,
    false, false, true, true, true, false)), (String ((Ascii (false, false,
    true, false, true, true, true, false)),
    EmptyString)))))))))))))))))))))))))))))))))))))))))))))))); mt_signer =
    (Some (String ((Ascii (false, true, false, false, false, false, true,
    false)), (String ((Ascii (true, false, false, true, false, true, true,
    false)), (String ((Ascii (false, false, true, false, false, true, true,
    false)), (String ((Ascii (false, false, true, false, false, true, true,
    false)), (String ((Ascii (true, false, true, false, false, true, true,
    false)), (String ((Ascii (false, true, false, false, true, true, true,
    false)), EmptyString))))))))))))); mt_ids = ((String ((Ascii (true, true,
    false, false, false, false, true, false)), (String ((Ascii (true, true,
    true, true, false, true, true, false)), (String ((Ascii (false, false,
    true, true, false, true, true, false)), (String ((Ascii (false, false,
    true, true, false, true, true, false)), (String ((Ascii (true, false,
    false, false, false, true, true, false)), (String ((Ascii (false, false,
    true, false, true, true, true, false)), (String ((Ascii (true, false,
    true, false, false, true, true, false)), (String ((Ascii (false, true,
    false, false, true, true, true, false)), (String ((Ascii (true, false,
    false, false, false, true, true, false)), (String ((Ascii (false, false,
    true, true, false, true, true, false)), (String ((Ascii (false, false,
    true, false, true, false, true, false)), (String ((Ascii (true, true,
    true, true, false, true, true, false)), (String ((Ascii (true, true,
    false, true, false, true, true, false)), (String ((Ascii (true, false,
    true, false, false, true, true, false)), (String ((Ascii (false, true,
    true, true, false, true, true, false)), (String ((Ascii (true, false,
    false, true, false, false, true, false)), (String ((Ascii (false, false,
    true, false, false, true, true, false)),
    EmptyString)))))))))))))))))))))))))))))))))) :: ((String ((Ascii (false,
    false, true, false, false, false, true, false)), (String ((Ascii (true,
    false, true, false, false, true, true, false)), (String ((Ascii (false,
    true, false, false, false, true, true, false)), (String ((Ascii (false,
    false, true, false, true, true, true, false)), (String ((Ascii (false,
    false, true, false, true, false, true, false)), (String ((Ascii (true,
    true, true, true, false, true, true, false)), (String ((Ascii (true,
    true, false, true, false, true, true, false)), (String ((Ascii (true,
    false, true, false, false, true, true, false)), (String ((Ascii (false,
    true, true, true, false, true, true, false)), (String ((Ascii (true,
    false, false, true, false, false, true, false)), (String ((Ascii (false,
    false, true, false, false, true, true, false)),
    EmptyString)))))))))))))))))))))) :: [])); mt_handler = (String ((Ascii
    (true, false, false, false, false, true, true, false)), (String ((Ascii
    (true, false, true, false, true, true, true, false)), (String ((Ascii
    (true, true, false, false, false, true, true, false)), (String ((Ascii
    (false, false, true, false, true, true, true, false)), (String ((Ascii
    (true, false, false, true, false, true, true, false)), (String ((Ascii
    (true, true, true, true, false, true, true, false)), (String ((Ascii
    (false, true, true, true, false, true, true, false)), (String ((Ascii
    (true, true, false, false, true, true, true, false)), (String ((Ascii
    (false, true, true, false, true, false, true, false)), (String ((Ascii
    (false, true, false, false, true, true, false, false)), (String ((Ascii
    (false, true, true, true, false, true, false, false)), (String ((Ascii
    (true, false, true, true, false, false, true, false)), (String ((Ascii
    (true, true, false, false, true, true, true, false)), (String ((Ascii
    (true, true, true, false, false, true, true, false)), (String ((Ascii
    (true, true, false, false, false, false, true, false)), (String ((Ascii
    (true, false, false, false, false, true, true, false)), (String ((Ascii
    (false, true, true, true, false, true, true, false)), (String ((Ascii
    (true, true, false, false, false, true, true, false)), (String ((Ascii
    (true, false, true, false, false, true, true, false)), (String ((Ascii
    (false, false, true, true, false, true, true, false)), (String ((Ascii
    (false, false, true, true, false, false, true, false)), (String ((Ascii
    (true, false, false, true, false, true, true, false)), (String ((Ascii
    (true, false, true, true, false, true, true, false)), (String ((Ascii
    (true, false, false, true, false, true, true, false)), (String ((Ascii
    (false, false, true, false, true, true, true, false)), (String ((Ascii
    (false, true, false, false, false, false, true, false)), (String ((Ascii
    (true, false, false, true, false, true, true, false)), (String ((Ascii
    (false, false, true, false, false, true, true, false)),
    EmptyString)))))))))))))))))))))))))))))))))))))))))))))))))))))))) } :: ({ mt_module =
    (String ((Ascii (true, false, false, false, false, true, true, false)),
    (String ((Ascii (true, false, true, false, true, true, true, false)),
    (String ((Ascii (true, true, false, false, false, true, true, false)),
    (String ((Ascii (false, false, true, false, true, true, true, false)),
    (String ((Ascii (true, false, false, true, false, true, true, false)),
    (String ((Ascii (true, true, true, true, false, true, true, false)),
    (String ((Ascii (false, true, true, true, false, true, true, false)),
    (String ((Ascii (true, true, false, false, true, true, true, false)),
    (String ((Ascii (false, true, true, false, true, false, true, false)),
    (String ((Ascii (false, true, false, false, true, true, false, false)),
    EmptyString)))))))))))))))))))); mt_name = (String ((Ascii (true, false,
    true, true, false, false, true, false)), (String ((Ascii (true, true,
    false, false, true, true, true, false)), (String ((Ascii (true, true,
    true, false, false, true, true, false)), (String ((Ascii (false, false,
    true, false, false, false, true, false)), (String ((Ascii (true, false,
    true, false, false, true, true, false)), (String ((Ascii (false, false,
    false, false, true, true, true, false)), (String ((Ascii (true, true,
    true, true, false, true, true, false)), (String ((Ascii (true, true,
    false, false, true, true, true, false)), (String ((Ascii (true, false,
    false, true, false, true, true, false)), (String ((Ascii (false, false,
    true, false, true, true, true, false)), (String ((Ascii (false, false,
    true, true, false, false, true, false)), (String ((Ascii (true, false,
    false, true, false, true, true, false)), (String ((Ascii (true, false,
    true, true, false, true, true, false)), (String ((Ascii (true, false,
    false, true, false, true, true, false)), (String ((Ascii (false, false,
    true, false, true, true, true, false)), (String ((Ascii (false, true,
    false, false, false, false, true, false)), (String ((Ascii (true, false,
    false, true, false, true, true, false)), (String ((Ascii (false, false,
    true, false, false, true, true, false)), (String ((Ascii (false, true,
    false, false, true, false, true, false)), (String ((Ascii (true, false,
    true, false, false, true, true, false)), (String ((Ascii (true, false,
    false, false, true, true, true, false)), (String ((Ascii (true, false,
    true, false, true, true, true, false)), (String ((Ascii (true, false,
    true, false, false, true, true, false)), (String ((Ascii (true, true,
    false, false, true, true, true, false)), (String ((Ascii (false, false,
    true, false, true, true, true, false)),
    EmptyString))))))))))))))))))))))))))))))))))))))))))))))))));
    mt_signer = (Some (String ((Ascii (false, true, false, false, false,
    false, true, false)), (String ((Ascii (true, false, false, true, false,
    true, true, false)), (String ((Ascii (false, false, true, false, false,
    true, true, false)), (String ((Ascii (false, false, true, false, false,
    true, true, false)), (String ((Ascii (true, false, true, false, false,
    true, true, false)), (String ((Ascii (false, true, false, false, true,
    true, true, false)), EmptyString))))))))))))); mt_ids = ((String ((Ascii
    (true, true, false, false, false, false, true, false)), (String ((Ascii
    (true, true, true, true, false, true, true, false)), (String ((Ascii
    (false, false, true, true, false, true, true, false)), (String ((Ascii
    (false, false, true, true, false, true, true, false)), (String ((Ascii
    (true, false, false, false, false, true, true, false)), (String ((Ascii
    (false, false, true, false, true, true, true, false)), (String ((Ascii
    (true, false, true, false, false, true, true, false)), (String ((Ascii
    (false, true, false, false, true, true, true, false)), (String ((Ascii
    (true, false, false, false, false, true, true, false)), (String ((Ascii
    (false, false, true, true, false, true, true, false)), (String ((Ascii
    (false, false, true, false, true, false, true, false)), (String ((Ascii
    (true, true, true, true, false, true, true, false)), (String ((Ascii
    (true, true, false, true, false, true, true, false)), (String ((Ascii
    (true, false, true, false, false, true, true, false)), (String ((Ascii
    (false, true, true, true, false, true, true, false)), (String ((Ascii
    (true, false, false, true, false, false, true, false)), (String ((Ascii
    (false, false, true, false, false, true, true, false)),
    EmptyString)))))))))))))))))))))))))))))))))) :: ((String ((Ascii (false,
    false, true, false, false, false, true, false)), (String ((Ascii (true,
    false, true, false, false, true, true, false)), (String ((Ascii (false,
    true, false, false, false, true, true, false)), (String ((Ascii (false,
    false, true, false, true, true, true, false)), (String ((Ascii (false,
    false, true, false, true, false, true, false)), (String ((Ascii (true,
    true, true, true, false, true, true, false)), (String ((Ascii (true,
    true, false, true, false, true, true, false)), (String ((Ascii (true,
    false, true, false, false, true, true, false)), (String ((Ascii (false,
    true, true, true, false, true, true, false)), (String ((Ascii (true,
    false, false, true, false, false, true, false)), (String ((Ascii (false,
    false, true, false, false, true, true, false)),
    EmptyString)))))))))))))))))))))) :: [])); mt_handler = (String ((Ascii
    (true, false, false, false, false, true, true, false)), (String ((Ascii
    (true, false, true, false, true, true, true, false)), (String ((Ascii
    (true, true, false, false, false, true, true, false)), (String ((Ascii
    (false, false, true, false, true, true, true, false)), (String ((Ascii
    (true, false, false, true, false, true, true, false)), (String ((Ascii
    (true, true, true, true, false, true, true, false)), (String ((Ascii
    (false, true, true, true, false, true, true, false)), (String ((Ascii
    (true, true, false, false, true, true, true, false)), (String ((Ascii
    (false, true, true, false, true, false, true, false)), (String ((Ascii
    (false, true, false, false, true, true, false, false)), (String ((Ascii
    (false, true, true, true, false, true, false, false)), (String ((Ascii
    (true, false, true, true, false, false, true, false)), (String ((Ascii
    (true, true, false, false, true, true, true, false)), (String ((Ascii
    (true, true, true, false, false, true, true, false)), (String ((Ascii
    (false, false, true, false, false, false, true, false)), (String ((Ascii
    (true, false, true, false, false, true, true, false)), (String ((Ascii
    (false, false, false, false, true, true, true, false)), (String ((Ascii
    (true, true, true, true, false, true, true, false)), (String ((Ascii
    (true, true, false, false, true, true, true, false)), (String ((Ascii
    (true, false, false, true, false, true, true, false)), (String ((Ascii
    (false, false, true, false, true, true, true, false)), (String ((Ascii
    (false, false, true, true, false, false, true, false)), (String ((Ascii
    (true, false, false, true, false, true, true, false)), (String ((Ascii
    (true, false, true, true, false, true, true, false)), (String ((Ascii
    (true, false, false, true, false, true, true, false)), (String ((Ascii
    (false, false, true, false, true, true, true, false)), (String ((Ascii
    (false, true, false, false, false, false, true, false)), (String ((Ascii
    (true, false, false, true, false, true, true, false)), (String ((Ascii
    (false, false, true, false, false, true, true, false)),
    EmptyString)))))))))))))))))))))))))))))))))))))))))))))))))))))))))) } :: ({ mt_module =
    (String ((Ascii (true, false, false, false, false, true, true, false)),
    (String ((Ascii (true, false, true, false, true, true, true, false)),
    (String ((Ascii (true, true, false, false, false, true, true, false)),
    (String ((Ascii (false, false, true, false, true, true, true, false)),
    (String ((Ascii (true, false, false, true, false, true, true, false)),
    (String ((Ascii (true, true, true, true, false, true, true, false)),
    (String ((Ascii (false, true, true, true, false, true, true, false)),
    (String ((Ascii (true, true, false, false, true, true, true, false)),
    (String ((Ascii (false, true, true, false, true, false, true, false)),
    (String ((Ascii (false, true, false, false, true, true, false, false)),
    EmptyString)))))))))))))))))))); mt_name = (String ((Ascii (true, false,
    true, true, false, false, true, false)), (String ((Ascii (true, true,
    false, false, true, true, true, false)), (String ((Ascii (true, true,
    true, false, false, true, true, false)), (String ((Ascii (false, false,
    false, false, true, false, true, false)), (String ((Ascii (false, false,
    true, true, false, true, true, false)), (String ((Ascii (true, false,
    false, false, false, true, true, false)), (String ((Ascii (true, true,
    false, false, false, true, true, false)), (String ((Ascii (true, false,
    true, false, false, true, true, false)), (String ((Ascii (true, false,
    true, true, false, false, true, false)), (String ((Ascii (true, false,
    false, false, false, true, true, false)), (String ((Ascii (false, true,
    false, false, true, true, true, false)), (String ((Ascii (true, true,
    false, true, false, true, true, false)), (String ((Ascii (true, false,
    true, false, false, true, true, false)), (String ((Ascii (false, false,
    true, false, true, true, true, false)), (String ((Ascii (false, true,
    false, false, false, false, true, false)), (String ((Ascii (true, false,
    false, true, false, true, true, false)), (String ((Ascii (false, false,
    true, false, false, true, true, false)), (String ((Ascii (false, true,
    false, false, true, false, true, false)), (String ((Ascii (true, false,
    true, false, false, true, true, false)), (String ((Ascii (true, false,
    false, false, true, true, true, false)), (String ((Ascii (true, false,
    true, false, true, true, true, false)), (String ((Ascii (true, false,
    true, false, false, true, true, false)), (String ((Ascii (true, true,
    false, false, true, true, true, false)), (String ((Ascii (false, false,
    true, false, true, true, true, false)),
    EmptyString)))))))))))))))))))))))))))))))))))))))))))))))); mt_signer =
    (Some (String ((Ascii (false, true, false, false, false, false, true,
    false)), (String ((Ascii (true, false, false, true, false, true, true,
    false)), (String ((Ascii (false, false, true, false, false, true, true,
    false)), (String ((Ascii (false, false, true, false, false, true, true,
    false)), (String ((Ascii (true, false, true, false, false, true, true,
    false)), (String ((Ascii (false, true, false, false, true, true, true,
    false)), EmptyString))))))))))))); mt_ids = ((String ((Ascii (true,
    false, false, false, false, false, true, false)), (String ((Ascii (true,
    false, true, false, true, true, true, false)), (String ((Ascii (true,
    true, false, false, false, true, true, false)), (String ((Ascii (false,
    false, true, false, true, true, true, false)), (String ((Ascii (true,
    false, false, true, false, true, true, false)), (String ((Ascii (true,
    true, true, true, false, true, true, false)), (String ((Ascii (false,
    true, true, true, false, true, true, false)), (String ((Ascii (true,
    false, false, true, false, false, true, false)), (String ((Ascii (false,
    false, true, false, false, true, true, false)),
    EmptyString)))))))))))))))))) :: []); mt_handler = (String ((Ascii (true,
    false, false, false, false, true, true, false)), (String ((Ascii (true,
    false, true, false, true, true, true, false)), (String ((Ascii (true,
    true, false, false, false, true, true, false)), (String ((Ascii (false,
    false, true, false, true, true, true, false)), (String ((Ascii (true,
    false, false, true, false, true, true, false)), (String ((Ascii (true,
    true, true, true, false, true, true, false)), (String ((Ascii (false,
    true, true, true, false, true, true, false)), (String ((Ascii (true,
    true, false, false, true, true, true, false)), (String ((Ascii (false,
    true, true, false, true, false, true, false)), (String ((Ascii (false,
    true, false, false, true, true, false, false)), (String ((Ascii (false,
    true, true, true, false, true, false, false)), (String ((Ascii (true,
    false, true, true, false, false, true, false)), (String ((Ascii (true,
    true, false, false, true, true, true, false)), (String ((Ascii (true,
    true, true, false, false, true, true, false)), (String ((Ascii (false,
    false, false, false, true, false, true, false)), (String ((Ascii (false,
    false, true, true, false, true, true, false)), (String ((Ascii (true,
    false, false, false, false, true, true, false)), (String ((Ascii (true,
    true, false, false, false, true, true, false)), (String ((Ascii (true,
    false, true, false, false, true, true, false)), (String ((Ascii (true,
    false, true, true, false, false, true, false)), (String ((Ascii (true,
    false, false, false, false, true, true, false)), (String ((Ascii (false,
    true, false, false, true, true, true, false)), (String ((Ascii (true,
    true, false, true, false, true, true, false)), (String ((Ascii (true,
    false, true, false, false, true, true, false)), (String ((Ascii (false,
    false, true, false, true, true, true, false)), (String ((Ascii (false,
    true, false, false, false, false, true, false)), (String ((Ascii (true,
    false, false, true, false, true, true, false)), (String ((Ascii (false,
    false, true, false, false, true, true, false)),
    EmptyString)))))))))))))))))))))))))))))))))))))))))))))))))))))))) } :: ({ mt_module =
    (String ((Ascii (true, false, false, false, false, true, true, false)),
    (String ((Ascii (true, false, true, false, true, true, true, false)),
    (String ((Ascii (true, true, false, false, false, true, true, false)),
    (String ((Ascii (false, false, true, false, true, true, true, false)),
    (String ((Ascii (true, false, false, true, false, true, true, false)),
    (String ((Ascii (true, true, true, true, false, true, true, false)),
    (String ((Ascii (false, true, true, true, false, true, true, false)),
    (String ((Ascii (true, true, false, false, true, true, true, false)),
    (String ((Ascii (false, true, true, false, true, false, true, false)),
    (String ((Ascii (false, true, false, false, true, true, false, false)),
    EmptyString)))))))))))))))))))); mt_name = (String ((Ascii (true, false,
    true, true, false, false, true, false)), (String ((Ascii (true, true,
    false, false, true, true, true, false)), (String ((Ascii (true, true,
    true, false, false, true, true, false)), (String ((Ascii (true, true,
    true, false, true, false, true, false)), (String ((Ascii (true, false,
    false, true, false, true, true, false)), (String ((Ascii (false, false,
    true, false, true, true, true, false)), (String ((Ascii (false, false,
    false, true, false, true, true, false)), (String ((Ascii (false, false,
    true, false, false, true, true, false)), (String ((Ascii (false, true,
    false, false, true, true, true, false)), (String ((Ascii (true, false,
    false, false, false, true, true, false)), (String ((Ascii (true, true,
    true, false, true, true, true, false)), (String ((Ascii (false, false,
    true, true, false, false, true, false)), (String ((Ascii (true, false,
    false, true, false, true, true, false)), (String ((Ascii (true, false,
    true, true, false, true, true, false)), (String ((Ascii (true, false,
    false, true, false, true, true, false)), (String ((Ascii (false, false,
    true, false, true, true, true, false)), (String ((Ascii (false, true,
    false, false, false, false, true, false)), (String ((Ascii (true, false,
    false, true, false, true, true, false)), (String ((Ascii (false, false,
    true, false, false, true, true, false)), (String ((Ascii (false, true,
    false, false, true, false, true, false)), (String ((Ascii (true, false,
    true, false, false, true, true, false)), (String ((Ascii (true, false,
    false, false, true, true, true, false)), (String ((Ascii (true, false,
    true, false, true, true, true, false)), (String ((Ascii (true, false,
    true, false, false, true, true, false)), (String ((Ascii (true, true,
    false, false, true, true, true, false)), (String ((Ascii (false, false,
    true, false, true, true, true, false)),
    EmptyString))))))))))))))))))))))))))))))))))))))))))))))))))));
    mt_signer = (Some (String ((Ascii (false, true, false, false, false,
    false, true, false)), (String ((Ascii (true, false, false, true, false,
    true, true, false)), (String ((Ascii (false, false, true, false, false,
    true, true, false)), (String ((Ascii (false, false, true, false, false,
    true, true, false)), (String ((Ascii (true, false, true, false, false,
    true, true, false)), (String ((Ascii (false, true, false, false, true,
    true, true, false)), EmptyString))))))))))))); mt_ids = ((String ((Ascii
    (true, true, false, false, false, false, true, false)), (String ((Ascii
    (true, true, true, true, false, true, true, false)), (String ((Ascii
    (false, false, true, true, false, true, true, false)), (String ((Ascii
    (false, false, true, true, false, true, true, false)), (String ((Ascii
    (true, false, false, false, false, true, true, false)), (String ((Ascii
    (false, false, true, false, true, true, true, false)), (String ((Ascii
    (true, false, true, false, false, true, true, false)), (String ((Ascii
    (false, true, false, false, true, true, true, false)), (String ((Ascii
    (true, false, false, false, false, true, true, false)), (String ((Ascii
    (false, false, true, true, false, true, true, false)), (String ((Ascii
    (false, false, true, false, true, false, true, false)), (String ((Ascii
    (true, true, true, true, false, true, true, false)), (String ((Ascii
    (true, true, false, true, false, true, true, false)), (String ((Ascii
    (true, false, true, false, false, true, true, false)), (String ((Ascii
    (false, true, true, true, false, true, true, false)), (String ((Ascii
    (true, false, false, true, false, false, true, false)), (String ((Ascii
    (false, false, true, false, false, true, true, false)),
    EmptyString)))))))))))))))))))))))))))))))))) :: ((String ((Ascii (false,
    false, true, false, false, false, true, false)), (String ((Ascii (true,
    false, true, false, false, true, true, false)), (String ((Ascii (false,
    true, false, false, false, true, true, false)), (String ((Ascii (false,
    false, true, false, true, true, true, false)), (String ((Ascii (false,
    false, true, false, true, false, true, false)), (String ((Ascii (true,
    true, true, true, false, true, true, false)), (String ((Ascii (true,
    true, false, true, false, true, true, false)), (String ((Ascii (true,
    false, true, false, false, true, true, false)), (String ((Ascii (false,
    true, true, true, false, true, true, false)), (String ((Ascii (true,
    false, false, true, false, false, true, false)), (String ((Ascii (false,
    false, true, false, false, true, true, false)),
    EmptyString)))))))))))))))))))))) :: [])); mt_handler = (String ((Ascii
    (true, false, false, false, false, true, true, false)), (String ((Ascii
    (true, false, true, false, true, true, true, false)), (String ((Ascii
    (true, true, false, false, false, true, true, false)), (String ((Ascii
    (false, false, true, false, true, true, true, false)), (String ((Ascii
    (true, false, false, true, false, true, true, false)), (String ((Ascii
    (true, true, true, true, false, true, true, false)), (String ((Ascii
    (false, true, true, true, false, true, true, false)), (String ((Ascii
    (true, true, false, false, true, true, true, false)), (String ((Ascii
    (false, true, true, false, true, false, true, false)), (String ((Ascii
    (false, true, false, false, true, true, false, false)), (String ((Ascii
    (false, true, true, true, false, true, false, false)), (String ((Ascii
    (true, false, true, true, false, false, true, false)), (String ((Ascii
    (true, true, false, false, true, true, true, false)), (String ((Ascii
    (true, true, true, false, false, true, true, false)), (String ((Ascii
    (true, true, true, false, true, false, true, false)), (String ((Ascii
    (true, false, false, true, false, true, true, false)), (String ((Ascii
    (false, false, true, false, true, true, true, false)), (String ((Ascii
    (false, false, false, true, false, true, true, false)), (String ((Ascii
    (false, false, true, false, false, true, true, false)), (String ((Ascii
    (false, true, false, false, true, true, true, false)), (String ((Ascii
    (true, false, false, false, false, true, true, false)), (String ((Ascii
    (true, true, true, false, true, true, true, false)), (String ((Ascii
    (false, false, true, true, false, false, true, false)), (String ((Ascii
    (true, false, false, true, false, true, true, false)), (String ((Ascii
    (true, false, true, true, false, true, true, false)), (String ((Ascii
    (true, false, false, true, false, true, true, false)), (String ((Ascii
    (false, false, true, false, true, true, true, false)), (String ((Ascii
    (false, true, false, false, false, false, true, false)), (String ((Ascii
    (true, false, false, true, false, true, true, false)), (String ((Ascii
    (false, false, true, false, false, true, true, false)),
    EmptyString)))))))))))))))))))))))))))))))))))))))))))))))))))))))))))) } :: ({ mt_module =
    (String ((Ascii (true, true, false, false, false, true, true, false)),
    (String ((Ascii (true, true, true, true, false, true, true, false)),
    (String ((Ascii (false, false, true, true, false, true, true, false)),
    (String ((Ascii (false, false, true, true, false, true, true, false)),
    (String ((Ascii (true, false, true, false, false, true, true, false)),
    (String ((Ascii (true, true, false, false, false, true, true, false)),
    (String ((Ascii (false, false, true, false, true, true, true, false)),
    (String ((Ascii (true, true, true, true, false, true, true, false)),
    (String ((Ascii (false, true, false, false, true, true, true, false)),
    EmptyString)))))))))))))))))); mt_name = (String ((Ascii (true, false,
    true, true, false, false, true, false)), (String ((Ascii (true, true,
    false, false, true, true, true, false)), (String ((Ascii (true, true,
    true, false, false, true, true, false)), (String ((Ascii (false, false,
    true, false, false, false, true, false)), (String ((Ascii (true, false,
    true, false, false, true, true, false)), (String ((Ascii (false, false,
    false, false, true, true, true, false)), (String ((Ascii (true, true,
    true, true, false, true, true, false)), (String ((Ascii (true, true,
    false, false, true, true, true, false)), (String ((Ascii (true, false,
    false, true, false, true, true, false)), (String ((Ascii (false, false,
    true, false, true, true, true, false)), EmptyString))))))))))))))))))));
    mt_signer = (Some (String ((Ascii (true, false, false, false, false,
    false, true, false)), (String ((Ascii (false, false, true, false, false,
    true, true, false)), (String ((Ascii (false, false, true, false, false,
    true, true, false)), (String ((Ascii (false, true, false, false, true,
    true, true, false)), EmptyString))))))))); mt_ids = ((String ((Ascii
    (true, false, false, false, false, false, true, false)), (String ((Ascii
    (false, false, false, false, true, true, true, false)), (String ((Ascii
    (false, false, false, false, true, true, true, false)), (String ((Ascii
    (true, false, false, true, false, false, true, false)), (String ((Ascii
    (false, false, true, false, false, true, true, false)),
    EmptyString)))))))))) :: []); mt_handler = (String ((Ascii (true, true,
    false, false, false, true, true, false)), (String ((Ascii (true, true,
    true, true, false, true, true, false)), (String ((Ascii (false, false,
    true, true, false, true, true, false)), (String ((Ascii (false, false,
    true, true, false, true, true, false)), (String ((Ascii (true, false,
    true, false, false, true, true, false)), (String ((Ascii (true, true,
    false, false, false, true, true, false)), (String ((Ascii (false, false,
    true, false, true, true, true, false)), (String ((Ascii (true, true,
    true, true, false, true, true, false)), (String ((Ascii (false, true,
    false, false, true, true, true, false)), (String ((Ascii (false, true,
    true, true, false, true, false, false)), (String ((Ascii (false, false,
    true, false, false, false, true, false)), (String ((Ascii (true, false,
    true, false, false, true, true, false)), (String ((Ascii (false, false,
    false, false, true, true, true, false)), (String ((Ascii (true, true,
    true, true, false, true, true, false)), (String ((Ascii (true, true,
    false, false, true, true, true, false)), (String ((Ascii (true, false,
    false, true, false, true, true, false)), (String ((Ascii (false, false,
    true, false, true, true, true, false)),
    EmptyString)))))))))))))))))))))))))))))))))) } :: ({ mt_module = (String
    ((Ascii (true, false, true, false, false, true, true, false)), (String
    ((Ascii (true, true, false, false, true, true, true, false)), (String
    ((Ascii (true, false, true, true, false, true, true, false)),
    EmptyString)))))); mt_name = (String ((Ascii (true, false, true, true,
    false, false, true, false)), (String ((Ascii (true, true, false, false,
    true, true, true, false)), (String ((Ascii (true, true, true, false,
    false, true, true, false)), (String ((Ascii (true, true, false, false,
    false, false, true, false)), (String ((Ascii (true, true, true, true,
    false, true, true, false)), (String ((Ascii (false, false, true, true,
    false, true, true, false)), (String ((Ascii (false, false, true, true,
    false, true, true, false)), (String ((Ascii (true, false, false, false,
    false, true, true, false)), (String ((Ascii (false, false, true, false,
    true, true, true, false)), (String ((Ascii (true, false, true, false,
    false, true, true, false)), (String ((Ascii (false, true, false, false,
    true, true, true, false)), (String ((Ascii (true, false, false, false,
    false, true, true, false)), (String ((Ascii (false, false, true, true,
    false, true, true, false)), (String ((Ascii (false, true, false, false,
    true, false, true, false)), (String ((Ascii (true, false, true, false,
    false, true, true, false)), (String ((Ascii (false, false, true, false,
    false, true, true, false)), (String ((Ascii (true, false, true, false,
    false, true, true, false)), (String ((Ascii (true, false, true, true,
    false, true, true, false)), (String ((Ascii (false, false, false, false,
    true, true, true, false)), (String ((Ascii (false, false, true, false,
    true, true, true, false)), (String ((Ascii (true, false, false, true,
    false, true, true, false)), (String ((Ascii (true, true, true, true,
    false, true, true, false)), (String ((Ascii (false, true, true, true,
    false, true, true, false)), (String ((Ascii (false, true, false, false,
    true, false, true, false)), (String ((Ascii (true, false, true, false,
    false, true, true, false)), (String ((Ascii (true, false, false, false,
    true, true, true, false)), (String ((Ascii (true, false, true, false,
    true, true, true, false)), (String ((Ascii (true, false, true, false,
    false, true, true, false)), (String ((Ascii (true, true, false, false,
    true, true, true, false)), (String ((Ascii (false, false, true, false,
    true, true, true, false)),
    EmptyString))))))))))))))))))))))))))))))))))))))))))))))))))))))))))));
    mt_signer = (Some (String ((Ascii (false, true, true, false, false,
    false, true, false)), (String ((Ascii (false, true, false, false, true,
    true, true, false)), (String ((Ascii (true, true, true, true, false,
    true, true, false)), (String ((Ascii (true, false, true, true, false,
    true, true, false)), EmptyString))))))))); mt_ids = ((String ((Ascii
    (true, false, false, false, false, false, true, false)), (String ((Ascii
    (false, false, false, false, true, true, true, false)), (String ((Ascii
    (false, false, false, false, true, true, true, false)), (String ((Ascii
    (true, false, false, true, false, false, true, false)), (String ((Ascii
    (false, false, true, false, false, true, true, false)),
    EmptyString)))))))))) :: []); mt_handler = (String ((Ascii (true, false,
    true, false, false, true, true, false)), (String ((Ascii (true, true,
    false, false, true, true, true, false)), (String ((Ascii (true, false,
    true, true, false, true, true, false)), (String ((Ascii (false, true,
    true, true, false, true, false, false)), (String ((Ascii (true, false,
    true, true, false, false, true, false)), (String ((Ascii (true, true,
    false, false, true, true, true, false)), (String ((Ascii (true, true,
    true, false, false, true, true, false)), (String ((Ascii (true, true,
    false, false, false, false, true, false)), (String ((Ascii (true, true,
    true, true, false, true, true, false)), (String ((Ascii (false, false,
    true, true, false, true, true, false)), (String ((Ascii (false, false,
    true, true, false, true, true, false)), (String ((Ascii (true, false,
    false, false, false, true, true, false)), (String ((Ascii (false, false,
    true, false, true, true, true, false)), (String ((Ascii (true, false,
    true, false, false, true, true, false)), (String ((Ascii (false, true,
    false, false, true, true, true, false)), (String ((Ascii (true, false,
    false, false, false, true, true, false)), (String ((Ascii (false, false,
    true, true, false, true, true, false)), (String ((Ascii (false, true,
    false, false, true, false, true, false)), (String ((Ascii (true, false,
    true, false, false, true, true, false)), (String ((Ascii (false, false,
    true, false, false, true, true, false)), (String ((Ascii (true, false,
    true, false, false, true, true, false)), (String ((Ascii (true, false,
    true, true, false, true, true, false)), (String ((Ascii (false, false,
    false, false, true, true, true, false)), (String ((Ascii (false, false,
    true, false, true, true, true, false)), (String ((Ascii (true, false,
    false, true, false, true, true, false)), (String ((Ascii (true, true,
    true, true, false, true, true, false)), (String ((Ascii (false, true,
    true, true, false, true, true, false)),
    EmptyString)))))))))))))))))))))))))))))))))))))))))))))))))))))) } :: ({ mt_module =
    (String ((Ascii (true, false, true, false, false, true, true, false)),
    (String ((Ascii (true, true, false, false, true, true, true, false)),
    (String ((Ascii (true, false, true, true, false, true, true, false)),
    EmptyString)))))); mt_name = (String ((Ascii (true, false, true, true,
    false, false, true, false)), (String ((Ascii (true, true, false, false,
    true, true, true, false)), (String ((Ascii (true, true, true, false,
    false, true, true, false)), (String ((Ascii (false, false, true, false,
    false, false, true, false)), (String ((Ascii (true, false, true, false,
    false, true, true, false)), (String ((Ascii (false, false, false, false,
    true, true, true, false)), (String ((Ascii (true, true, true, true,
    false, true, true, false)), (String ((Ascii (true, true, false, false,
    true, true, true, false)), (String ((Ascii (true, false, false, true,
    false, true, true, false)), (String ((Ascii (false, false, true, false,
    true, true, true, false)), (String ((Ascii (true, false, true, false,
    false, false, true, false)), (String ((Ascii (true, true, false, false,
    true, false, true, false)), (String ((Ascii (true, false, true, true,
    false, false, true, false)), EmptyString))))))))))))))))))))))))));
    mt_signer = (Some (String ((Ascii (false, false, true, false, false,
    false, true, false)), (String ((Ascii (true, false, true, false, false,
    true, true, false)), (String ((Ascii (false, false, false, false, true,
    true, true, false)), (String ((Ascii (true, true, true, true, false,
    true, true, false)), (String ((Ascii (true, true, false, false, true,
    true, true, false)), (String ((Ascii (true, false, false, true, false,
    true, true, false)), (String ((Ascii (false, false, true, false, true,
    true, true, false)), (String ((Ascii (true, true, true, true, false,
    true, true, false)), (String ((Ascii (false, true, false, false, true,
    true, true, false)), EmptyString))))))))))))))))))); mt_ids = ((String
    ((Ascii (true, false, false, false, false, false, true, false)), (String
    ((Ascii (false, false, false, false, true, true, true, false)), (String
    ((Ascii (false, false, false, false, true, true, true, false)), (String
    ((Ascii (true, false, false, true, false, false, true, false)), (String
    ((Ascii (false, false, true, false, false, true, true, false)),
    EmptyString)))))))))) :: []); mt_handler = (String ((Ascii (true, false,
    true, false, false, true, true, false)), (String ((Ascii (true, true,
    false, false, true, true, true, false)), (String ((Ascii (true, false,
    true, true, false, true, true, false)), (String ((Ascii (false, true,
    true, true, false, true, false, false)), (String ((Ascii (false, false,
    true, false, false, false, true, false)), (String ((Ascii (true, false,
    true, false, false, true, true, false)), (String ((Ascii (false, false,
    false, false, true, true, true, false)), (String ((Ascii (true, true,
    true, true, false, true, true, false)), (String ((Ascii (true, true,
    false, false, true, true, true, false)), (String ((Ascii (true, false,
    false, true, false, true, true, false)), (String ((Ascii (false, false,
    true, false, true, true, true, false)), (String ((Ascii (true, false,
    true, false, false, false, true, false)), (String ((Ascii (true, true,
    false, false, true, false, true, false)), (String ((Ascii (true, false,
    true, true, false, false, true, false)),
    EmptyString)))))))))))))))))))))))))))) } :: ({ mt_module = (String
    ((Ascii (true, false, true, false, false, true, true, false)), (String
    ((Ascii (true, true, false, false, true, true, true, false)), (String
    ((Ascii (true, false, true, true, false, true, true, false)),
    EmptyString)))))); mt_name = (String ((Ascii (true, false, true, true,
    false, false, true, false)), (String ((Ascii (true, true, false, false,
    true, true, true, false)), (String ((Ascii (true, true, true, false,
    false, true, true, false)), (String ((Ascii (true, false, true, false,
    false, false, true, false)), (String ((Ascii (false, false, false, true,
    true, true, true, false)), (String ((Ascii (true, false, true, false,
    false, true, true, false)), (String ((Ascii (true, true, false, false,
    false, true, true, false)), (String ((Ascii (true, false, true, false,
    true, true, true, false)), (String ((Ascii (false, false, true, false,
    true, true, true, false)), (String ((Ascii (true, false, true, false,
    false, true, true, false)), (String ((Ascii (true, false, true, false,
    false, false, true, false)), (String ((Ascii (true, true, false, false,
    true, false, true, false)), (String ((Ascii (true, false, true, true,
    false, false, true, false)), EmptyString))))))))))))))))))))))))));
    mt_signer = (Some (String ((Ascii (false, false, true, false, false,
    false, true, false)), (String ((Ascii (true, false, true, false, false,
    true, true, false)), (String ((Ascii (false, false, false, false, true,
    true, true, false)), (String ((Ascii (true, true, true, true, false,
    true, true, false)), (String ((Ascii (true, true, false, false, true,
    true, true, false)), (String ((Ascii (true, false, false, true, false,
    true, true, false)), (String ((Ascii (false, false, true, false, true,
    true, true, false)), (String ((Ascii (true, true, true, true, false,
    true, true, false)), (String ((Ascii (false, true, false, false, true,
    true, true, false)), EmptyString))))))))))))))))))); mt_ids = ((String
    ((Ascii (true, false, false, false, false, false, true, false)), (String
    ((Ascii (false, false, false, false, true, true, true, false)), (String
    ((Ascii (false, false, false, false, true, true, true, false)), (String
    ((Ascii (true, false, false, true, false, false, true, false)), (String
    ((Ascii (false, false, true, false, false, true, true, false)),
    EmptyString)))))))))) :: []); mt_handler = (String ((Ascii (true, false,
    true, false, false, true, true, false)), (String ((Ascii (true, true,
    false, false, true, true, true, false)), (String ((Ascii (true, false,
    true, true, false, true, true, false)), (String ((Ascii (false, true,
    true, true, false, true, false, false)), (String ((Ascii (true, false,
    true, false, false, false, true, false)), (String ((Ascii (false, false,
    false, true, true, true, true, false)), (String ((Ascii (true, false,
    true, false, false, true, true, false)), (String ((Ascii (true, true,
    false, false, false, true, true, false)), (String ((Ascii (true, false,
    true, false, true, true, true, false)), (String ((Ascii (false, false,
    true, false, true, true, true, false)), (String ((Ascii (true, false,
    true, false, false, true, true, false)), (String ((Ascii (true, false,
    true, false, false, false, true, false)), (String ((Ascii (true, true,
    false, false, true, false, true, false)), (String ((Ascii (true, false,
    true, true, false, false, true, false)),
    EmptyString)))))))))))))))))))))))))))) } :: ({ mt_module = (String
    ((Ascii (true, false, true, false, false, true, true, false)), (String
    ((Ascii (true, true, false, false, true, true, true, false)), (String
    ((Ascii (true, false, true, true, false, true, true, false)),
    EmptyString)))))); mt_name = (String ((Ascii (true, false, true, true,
    false, false, true, false)), (String ((Ascii (true, true, false, false,
    true, true, true, false)), (String ((Ascii (true, true, true, false,
    false, true, true, false)), (String ((Ascii (true, true, false, true,
    false, false, true, false)), (String ((Ascii (true, false, false, true,
    false, true, true, false)), (String ((Ascii (false, false, true, true,
    false, true, true, false)), (String ((Ascii (false, false, true, true,
    false, true, true, false)), (String ((Ascii (false, true, false, false,
    true, false, true, false)), (String ((Ascii (true, false, true, false,
    false, true, true, false)), (String ((Ascii (true, false, false, false,
    true, true, true, false)), (String ((Ascii (true, false, true, false,
    true, true, true, false)), (String ((Ascii (true, false, true, false,
    false, true, true, false)), (String ((Ascii (true, true, false, false,
    true, true, true, false)), (String ((Ascii (false, false, true, false,
    true, true, true, false)), EmptyString))))))))))))))))))))))))))));
    mt_signer = (Some (String ((Ascii (false, true, true, false, false,
    false, true, false)), (String ((Ascii (false, true, false, false, true,
    true, true, false)), (String ((Ascii (true, true, true, true, false,
    true, true, false)), (String ((Ascii (true, false, true, true, false,
    true, true, false)), EmptyString))))))))); mt_ids = []; mt_handler =
    (String ((Ascii (true, false, true, false, false, true, true, false)),
    (String ((Ascii (true, true, false, false, true, true, true, false)),
    (String ((Ascii (true, false, true, true, false, true, true, false)),
    (String ((Ascii (false, true, true, true, false, true, false, false)),
    (String ((Ascii (true, false, true, true, false, false, true, false)),
    (String ((Ascii (true, true, false, false, true, true, true, false)),
    (String ((Ascii (true, true, true, false, false, true, true, false)),
    (String ((Ascii (true, true, false, true, false, false, true, false)),
    (String ((Ascii (true, false, false, true, false, true, true, false)),
    (String ((Ascii (false, false, true, true, false, true, true, false)),
    (String ((Ascii (false, false, true, true, false, true, true, false)),
    (String ((Ascii (true, true, false, false, true, false, true, false)),
    (String ((Ascii (true, true, true, false, true, true, true, false)),
    (String ((Ascii (true, false, false, true, false, true, true, false)),
    (String ((Ascii (false, false, true, false, true, true, true, false)),
    (String ((Ascii (true, true, false, false, false, true, true, false)),
    (String ((Ascii (false, false, false, true, false, true, true, false)),
    EmptyString)))))))))))))))))))))))))))))))))) } :: ({ mt_module = (String
    ((Ascii (false, false, true, true, false, true, true, false)), (String
    ((Ascii (true, false, true, false, false, true, true, false)), (String
    ((Ascii (false, true, true, true, false, true, true, false)), (String
    ((Ascii (false, false, true, false, false, true, true, false)),
    EmptyString)))))))); mt_name = (String ((Ascii (true, false, true, true,
    false, false, true, false)), (String ((Ascii (true, true, false, false,
    true, true, true, false)), (String ((Ascii (true, true, true, false,
    false, true, true, false)), (String ((Ascii (false, true, false, false,
    false, false, true, false)), (String ((Ascii (true, true, true, true,
    false, true, true, false)), (String ((Ascii (false, true, false, false,
    true, true, true, false)), (String ((Ascii (false, true, false, false,
    true, true, true, false)), (String ((Ascii (true, true, true, true,
    false, true, true, false)), (String ((Ascii (true, true, true, false,
    true, true, true, false)), EmptyString)))))))))))))))))); mt_signer =
    (Some (String ((Ascii (false, true, false, false, false, false, true,
    false)), (String ((Ascii (true, true, true, true, false, true, true,
    false)), (String ((Ascii (false, true, false, false, true, true, true,
    false)), (String ((Ascii (false, true, false, false, true, true, true,
    false)), (String ((Ascii (true, true, true, true, false, true, true,
    false)), (String ((Ascii (true, true, true, false, true, true, true,
    false)), (String ((Ascii (true, false, true, false, false, true, true,
    false)), (String ((Ascii (false, true, false, false, true, true, true,
    false)), EmptyString))))))))))))))))); mt_ids = ((String ((Ascii (false,
    false, true, true, false, false, true, false)), (String ((Ascii (true,
    false, true, false, false, true, true, false)), (String ((Ascii (false,
    true, true, true, false, true, true, false)), (String ((Ascii (false,
    false, true, false, false, true, true, false)), (String ((Ascii (true,
    false, false, true, false, false, true, false)), (String ((Ascii (false,
    false, true, false, false, true, true, false)),
    EmptyString)))))))))))) :: ((String ((Ascii (false, false, false, false,
    true, false, true, false)), (String ((Ascii (true, false, false, false,
    false, true, true, false)), (String ((Ascii (true, false, false, true,
    false, true, true, false)), (String ((Ascii (false, true, false, false,
    true, true, true, false)), (String ((Ascii (true, false, false, true,
    false, false, true, false)), (String ((Ascii (false, false, true, false,
    false, true, true, false)), EmptyString)))))))))))) :: [])); mt_handler =
    (String ((Ascii (false, false, true, true, false, true, true, false)),
    (String ((Ascii (true, false, true, false, false, true, true, false)),
    (String ((Ascii (false, true, true, true, false, true, true, false)),
    (String ((Ascii (false, false, true, false, false, true, true, false)),
    (String ((Ascii (false, true, true, true, false, true, false, false)),
    (String ((Ascii (false, true, false, false, false, false, true, false)),
    (String ((Ascii (true, true, true, true, false, true, true, false)),
    (String ((Ascii (false, true, false, false, true, true, true, false)),
    (String ((Ascii (false, true, false, false, true, true, true, false)),
    (String ((Ascii (true, true, true, true, false, true, true, false)),
    (String ((Ascii (true, true, true, false, true, true, true, false)),
    EmptyString)))))))))))))))))))))) } :: ({ mt_module = (String ((Ascii
    (false, false, true, true, false, true, true, false)), (String ((Ascii
    (true, false, true, false, false, true, true, false)), (String ((Ascii
    (false, true, true, true, false, true, true, false)), (String ((Ascii
    (false, false, true, false, false, true, true, false)),
    EmptyString)))))))); mt_name = (String ((Ascii (true, false, true, true,
    false, false, true, false)), (String ((Ascii (true, true, false, false,
    true, true, true, false)), (String ((Ascii (true, true, true, false,
    false, true, true, false)), (String ((Ascii (false, true, false, false,
    false, false, true, false)), (String ((Ascii (true, true, true, true,
    false, true, true, false)), (String ((Ascii (false, true, false, false,
    true, true, true, false)), (String ((Ascii (false, true, false, false,
    true, true, true, false)), (String ((Ascii (true, true, true, true,
    false, true, true, false)), (String ((Ascii (true, true, true, false,
    true, true, true, false)), (String ((Ascii (true, false, false, false,
    false, false, true, false)), (String ((Ascii (false, false, true, true,
    false, true, true, false)), (String ((Ascii (false, false, true, false,
    true, true, true, false)), (String ((Ascii (true, false, true, false,
    false, true, true, false)), (String ((Ascii (false, true, false, false,
    true, true, true, false)), (String ((Ascii (false, true, true, true,
    false, true, true, false)), (String ((Ascii (true, false, false, false,
    false, true, true, false)), (String ((Ascii (false, false, true, false,
    true, true, true, false)), (String ((Ascii (true, false, true, false,
    false, true, true, false)),
    EmptyString)))))))))))))))))))))))))))))))))))); mt_signer = (Some
    (String ((Ascii (false, false, true, true, false, false, true, false)),
    (String ((Ascii (true, false, true, false, false, true, true, false)),
    (String ((Ascii (false, true, true, true, false, true, true, false)),
    (String ((Ascii (false, false, true, false, false, true, true, false)),
    (String ((Ascii (true, false, true, false, false, true, true, false)),
    (String ((Ascii (false, true, false, false, true, true, true, false)),
    EmptyString))))))))))))); mt_ids = ((String ((Ascii (true, false, false,
    false, false, false, true, false)), (String ((Ascii (true, true, false,
    false, true, true, true, false)), (String ((Ascii (true, true, false,
    false, true, true, true, false)), (String ((Ascii (true, false, true,
    false, false, true, true, false)), (String ((Ascii (false, false, true,
    false, true, true, true, false)), (String ((Ascii (true, false, false,
    true, false, false, true, false)), (String ((Ascii (false, false, true,
    false, false, true, true, false)), EmptyString)))))))))))))) :: ((String
    ((Ascii (false, false, false, false, true, false, true, false)), (String
    ((Ascii (true, true, true, true, false, true, true, false)), (String
    ((Ascii (true, true, true, true, false, true, true, false)), (String
    ((Ascii (false, false, true, true, false, true, true, false)), (String
    ((Ascii (true, false, false, true, false, false, true, false)), (String
    ((Ascii (false, false, true, false, false, true, true, false)),
    EmptyString)))))))))))) :: ((String ((Ascii (false, false, false, false,
    true, false, true, false)), (String ((Ascii (true, false, false, false,
    false, true, true, false)), (String ((Ascii (true, false, false, true,
    false, true, true, false)), (String ((Ascii (false, true, false, false,
    true, true, true, false)), (String ((Ascii (true, false, false, true,
    false, false, true, false)), (String ((Ascii (false, false, true, false,
    false, true, true, false)), EmptyString)))))))))))) :: ((String ((Ascii
    (true, false, false, false, false, false, true, false)), (String ((Ascii
    (false, false, false, false, true, true, true, false)), (String ((Ascii
    (false, false, false, false, true, true, true, false)), (String ((Ascii
    (true, false, false, true, false, false, true, false)), (String ((Ascii
    (false, false, true, false, false, true, true, false)),
    EmptyString)))))))))) :: [])))); mt_handler = (String ((Ascii (false,
    false, true, true, false, true, true, false)), (String ((Ascii (true,
    false, true, false, false, true, true, false)), (String ((Ascii (false,
    true, true, true, false, true, true, false)), (String ((Ascii (false,
    false, true, false, false, true, true, false)), (String ((Ascii (false,
    true, true, true, false, true, false, false)), (String ((Ascii (false,
    true, false, false, false, false, true, false)), (String ((Ascii (true,
    true, true, true, false, true, true, false)), (String ((Ascii (false,
    true, false, false, true, true, true, false)), (String ((Ascii (false,
    true, false, false, true, true, true, false)), (String ((Ascii (true,
    true, true, true, false, true, true, false)), (String ((Ascii (true,
    true, true, false, true, true, true, false)), (String ((Ascii (true,
    false, false, false, false, false, true, false)), (String ((Ascii (false,
    false, true, true, false, true, true, false)), (String ((Ascii (false,
    false, true, false, true, true, true, false)), (String ((Ascii (true,
    false, true, false, false, true, true, false)), (String ((Ascii (false,
    true, false, false, true, true, true, false)), (String ((Ascii (false,
    true, true, true, false, true, true, false)), (String ((Ascii (true,
    false, false, false, false, true, true, false)), (String ((Ascii (false,
    false, true, false, true, true, true, false)), (String ((Ascii (true,
    false, true, false, false, true, true, false)),
    EmptyString)))))))))))))))))))))))))))))))))))))))) } :: ({ mt_module =
    (String ((Ascii (false, false, true, true, false, true, true, false)),
    (String ((Ascii (true, false, true, false, false, true, true, false)),
    (String ((Ascii (false, true, true, true, false, true, true, false)),
    (String ((Ascii (false, false, true, false, false, true, true, false)),
    EmptyString)))))))); mt_name = (String ((Ascii (true, false, true, true,
    false, false, true, false)), (String ((Ascii (true, true, false, false,
    true, true, true, false)), (String ((Ascii (true, true, true, false,
    false, true, true, false)), (String ((Ascii (true, true, false, false,
    false, false, true, false)), (String ((Ascii (true, false, false, false,
    false, true, true, false)), (String ((Ascii (false, false, true, true,
    false, true, true, false)), (String ((Ascii (true, true, false, false,
    false, true, true, false)), (String ((Ascii (true, false, true, false,
    true, true, true, false)), (String ((Ascii (false, false, true, true,
    false, true, true, false)), (String ((Ascii (true, false, false, false,
    false, true, true, false)), (String ((Ascii (false, false, true, false,
    true, true, true, false)), (String ((Ascii (true, false, true, false,
    false, true, true, false)), (String ((Ascii (true, false, false, true,
    false, false, true, false)), (String ((Ascii (false, true, true, true,
    false, true, true, false)), (String ((Ascii (false, false, true, false,
    true, true, true, false)), (String ((Ascii (true, false, true, false,
    false, true, true, false)), (String ((Ascii (false, true, false, false,
    true, true, true, false)), (String ((Ascii (true, false, true, false,
    false, true, true, false)), (String ((Ascii (true, true, false, false,
    true, true, true, false)), (String ((Ascii (false, false, true, false,
    true, true, true, false)), (String ((Ascii (true, false, false, false,
    false, false, true, false)), (String ((Ascii (false, true, true, true,
    false, true, true, false)), (String ((Ascii (false, false, true, false,
    false, true, true, false)), (String ((Ascii (false, true, false, false,
    true, false, true, false)), (String ((Ascii (true, false, true, false,
    false, true, true, false)), (String ((Ascii (true, true, true, false,
    true, true, true, false)), (String ((Ascii (true, false, false, false,
    false, true, true, false)), (String ((Ascii (false, true, false, false,
    true, true, true, false)), (String ((Ascii (false, false, true, false,
    false, true, true, false)), (String ((Ascii (true, true, false, false,
    true, true, true, false)),
    EmptyString))))))))))))))))))))))))))))))))))))))))))))))))))))))))))));
    mt_signer = (Some (String ((Ascii (false, true, false, false, false,
    false, true, false)), (String ((Ascii (true, true, true, true, false,
    true, true, false)), (String ((Ascii (false, true, false, false, true,
    true, true, false)), (String ((Ascii (false, true, false, false, true,
    true, true, false)), (String ((Ascii (true, true, true, true, false,
    true, true, false)), (String ((Ascii (true, true, true, false, true,
    true, true, false)), (String ((Ascii (true, false, true, false, false,
    true, true, false)), (String ((Ascii (false, true, false, false, true,
    true, true, false)), EmptyString))))))))))))))))); mt_ids = [];
    mt_handler = (String ((Ascii (false, false, true, true, false, true,
    true, false)), (String ((Ascii (true, false, true, false, false, true,
    true, false)), (String ((Ascii (false, true, true, true, false, true,
    true, false)), (String ((Ascii (false, false, true, false, false, true,
    true, false)), (String ((Ascii (false, true, true, true, false, true,
    false, false)), (String ((Ascii (true, true, false, false, false, false,
    true, false)), (String ((Ascii (true, false, false, false, false, true,
    true, false)), (String ((Ascii (false, false, true, true, false, true,
    true, false)), (String ((Ascii (true, true, false, false, false, true,
    true, false)), (String ((Ascii (true, false, true, false, true, true,
    true, false)), (String ((Ascii (false, false, true, true, false, true,
    true, false)), (String ((Ascii (true, false, false, false, false, true,
    true, false)), (String ((Ascii (false, false, true, false, true, true,
    true, false)), (String ((Ascii (true, false, true, false, false, true,
    true, false)), (String ((Ascii (true, false, false, true, false, false,
    true, false)), (String ((Ascii (false, true, true, true, false, true,
    true, false)), (String ((Ascii (false, false, true, false, true, true,
    true, false)), (String ((Ascii (true, false, true, false, false, true,
    true, false)), (String ((Ascii (false, true, false, false, true, true,
    true, false)), (String ((Ascii (true, false, true, false, false, true,
    true, false)), (String ((Ascii (true, true, false, false, true, true,
    true, false)), (String ((Ascii (false, false, true, false, true, true,
    true, false)), (String ((Ascii (true, false, false, false, false, false,
    true, false)), (String ((Ascii (false, true, true, true, false, true,
    true, false)), (String ((Ascii (false, false, true, false, false, true,
    true, false)), (String ((Ascii (false, true, false, false, true, false,
    true, false)), (String ((Ascii (true, false, true, false, false, true,
    true, false)), (String ((Ascii (true, true, true, false, true, true,
    true, false)), (String ((Ascii (true, false, false, false, false, true,
    true, false)), (String ((Ascii (false, true, false, false, true, true,
    true, false)), (String ((Ascii (false, false, true, false, false, true,
    true, false)), (String ((Ascii (true, true, false, false, true, true,
    true, false)),
    EmptyString)))))))))))))))))))))))))))))))))))))))))))))))))))))))))))))))) } :: ({ mt_module =
    (String ((Ascii (false, false, true, true, false, true, true, false)),
    (String ((Ascii (true, false, true, false, false, true, true, false)),
    (String ((Ascii (false, true, true, true, false, true, true, false)),
    (String ((Ascii (false, false, true, false, false, true, true, false)),
    EmptyString)))))))); mt_name = (String ((Ascii (true, false, true, true,
    false, false, true, false)), (String ((Ascii (true, true, false, false,
    true, true, true, false)), (String ((Ascii (true, true, true, false,
    false, true, true, false)), (String ((Ascii (true, true, false, false,
    false, false, true, false)), (String ((Ascii (false, false, true, true,
    false, true, true, false)), (String ((Ascii (true, true, true, true,
    false, true, true, false)), (String ((Ascii (true, true, false, false,
    true, true, true, false)), (String ((Ascii (true, false, true, false,
    false, true, true, false)), (String ((Ascii (false, true, false, false,
    false, false, true, false)), (String ((Ascii (true, true, true, true,
    false, true, true, false)), (String ((Ascii (false, true, false, false,
    true, true, true, false)), (String ((Ascii (false, true, false, false,
    true, true, true, false)), (String ((Ascii (true, true, true, true,
    false, true, true, false)), (String ((Ascii (true, true, true, false,
    true, true, true, false)), EmptyString))))))))))))))))))))))))))));
    mt_signer = (Some (String ((Ascii (false, true, false, false, false,
    false, true, false)), (String ((Ascii (true, true, true, true, false,
    true, true, false)), (String ((Ascii (false, true, false, false, true,
    true, true, false)), (String ((Ascii (false, true, false, false, true,
    true, true, false)), (String ((Ascii (true, true, true, true, false,
    true, true, false)), (String ((Ascii (true, true, true, false, true,
    true, true, false)), (String ((Ascii (true, false, true, false, false,
    true, true, false)), (String ((Ascii (false, true, false, false, true,
    true, true, false)), EmptyString))))))))))))))))); mt_ids = ((String
    ((Ascii (false, true, false, false, false, false, true, false)), (String
    ((Ascii (true, true, true, true, false, true, true, false)), (String
    ((Ascii (false, true, false, false, true, true, true, false)), (String
    ((Ascii (false, true, false, false, true, true, true, false)), (String
    ((Ascii (true, true, true, true, false, true, true, false)), (String
    ((Ascii (true, true, true, false, true, true, true, false)), (String
    ((Ascii (true, false, false, true, false, false, true, false)), (String
    ((Ascii (false, false, true, false, false, true, true, false)),
    EmptyString)))))))))))))))) :: []); mt_handler = (String ((Ascii (false,
    false, true, true, false, true, true, false)), (String ((Ascii (true,
    false, true, false, false, true, true, false)), (String ((Ascii (false,
    true, true, true, false, true, true, false)), (String ((Ascii (false,
    false, true, false, false, true, true, false)), (String ((Ascii (false,
    true, true, true, false, true, false, false)), (String ((Ascii (true,
    true, false, false, false, false, true, false)), (String ((Ascii (false,
    false, true, true, false, true, true, false)), (String ((Ascii (true,
    true, true, true, false, true, true, false)), (String ((Ascii (true,
    true, false, false, true, true, true, false)), (String ((Ascii (true,
    false, true, false, false, true, true, false)), (String ((Ascii (false,
    true, false, false, false, false, true, false)), (String ((Ascii (true,
    true, true, true, false, true, true, false)), (String ((Ascii (false,
    true, false, false, true, true, true, false)), (String ((Ascii (false,
    true, false, false, true, true, true, false)), (String ((Ascii (true,
    true, true, true, false, true, true, false)), (String ((Ascii (true,
    true, true, false, true, true, true, false)),
    EmptyString)))))))))))))))))))))))))))))))) } :: ({ mt_module = (String
    ((Ascii (false, false, true, true, false, true, true, false)), (String
    ((Ascii (true, false, true, false, false, true, true, false)), (String
    ((Ascii (false, true, true, true, false, true, true, false)), (String
    ((Ascii (false, false, true, false, false, true, true, false)),
    EmptyString)))))))); mt_name = (String ((Ascii (true, false, true, true,
    false, false, true, false)), (String ((Ascii (true, true, false, false,
    true, true, true, false)), (String ((Ascii (true, true, true, false,
    false, true, true, false)), (String ((Ascii (true, true, false, false,
    false, false, true, false)), (String ((Ascii (false, false, true, true,
    false, true, true, false)), (String ((Ascii (true, true, true, true,
    false, true, true, false)), (String ((Ascii (true, true, false, false,
    true, true, true, false)), (String ((Ascii (true, false, true, false,
    false, true, true, false)), (String ((Ascii (false, false, true, true,
    false, false, true, false)), (String ((Ascii (true, false, true, false,
    false, true, true, false)), (String ((Ascii (false, true, true, true,
    false, true, true, false)), (String ((Ascii (false, false, true, false,
    false, true, true, false)), EmptyString))))))))))))))))))))))));
    mt_signer = (Some (String ((Ascii (false, false, true, true, false,
    false, true, false)), (String ((Ascii (true, false, true, false, false,
    true, true, false)), (String ((Ascii (false, true, true, true, false,
    true, true, false)), (String ((Ascii (false, false, true, false, false,
    true, true, false)), (String ((Ascii (true, false, true, false, false,
    true, true, false)), (String ((Ascii (false, true, false, false, true,
    true, true, false)), EmptyString))))))))))))); mt_ids = ((String ((Ascii
    (false, false, true, true, false, false, true, false)), (String ((Ascii
    (true, false, true, false, false, true, true, false)), (String ((Ascii
    (false, true, true, true, false, true, true, false)), (String ((Ascii
    (false, false, true, false, false, true, true, false)), (String ((Ascii
    (true, false, false, true, false, false, true, false)), (String ((Ascii
    (false, false, true, false, false, true, true, false)),
    EmptyString)))))))))))) :: []); mt_handler = (String ((Ascii (false,
    false, true, true, false, true, true, false)), (String ((Ascii (true,
    false, true, false, false, true, true, false)), (String ((Ascii (false,
    true, true, true, false, true, true, false)), (String ((Ascii (false,
    false, true, false, false, true, true, false)), (String ((Ascii (false,
    true, true, true, false, true, false, false)), (String ((Ascii (true,
    true, false, false, false, false, true, false)), (String ((Ascii (false,
    false, true, true, false, true, true, false)), (String ((Ascii (true,
    true, true, true, false, true, true, false)), (String ((Ascii (true,
    true, false, false, true, true, true, false)), (String ((Ascii (true,
    false, true, false, false, true, true, false)), (String ((Ascii (false,
    false, true, true, false, false, true, false)), (String ((Ascii (true,
    false, true, false, false, true, true, false)), (String ((Ascii (false,
    true, true, true, false, true, true, false)), (String ((Ascii (false,
    false, true, false, false, true, true, false)),
    EmptyString)))))))))))))))))))))))))))) } :: ({ mt_module = (String
    ((Ascii (false, false, true, true, false, true, true, false)), (String
    ((Ascii (true, false, true, false, false, true, true, false)), (String
    ((Ascii (false, true, true, true, false, true, true, false)), (String
    ((Ascii (false, false, true, false, false, true, true, false)),
    EmptyString)))))))); mt_name = (String ((Ascii (true, false, true, true,
    false, false, true, false)), (String ((Ascii (true, true, false, false,
    true, true, true, false)), (String ((Ascii (true, true, true, false,
    false, true, true, false)), (String ((Ascii (false, false, true, false,
    false, false, true, false)), (String ((Ascii (true, false, true, false,
    false, true, true, false)), (String ((Ascii (false, false, false, false,
    true, true, true, false)), (String ((Ascii (true, true, true, true,
    false, true, true, false)), (String ((Ascii (true, true, false, false,
    true, true, true, false)), (String ((Ascii (true, false, false, true,
    false, true, true, false)), (String ((Ascii (false, false, true, false,
    true, true, true, false)), EmptyString)))))))))))))))))))); mt_signer =
    (Some (String ((Ascii (false, false, true, true, false, false, true,
    false)), (String ((Ascii (true, false, true, false, false, true, true,
    false)), (String ((Ascii (false, true, true, true, false, true, true,
    false)), (String ((Ascii (false, false, true, false, false, true, true,
    false)), (String ((Ascii (true, false, true, false, false, true, true,
    false)), (String ((Ascii (false, true, false, false, true, true, true,
    false)), EmptyString))))))))))))); mt_ids = ((String ((Ascii (false,
    false, true, true, false, false, true, false)), (String ((Ascii (true,
    false, true, false, false, true, true, false)), (String ((Ascii (false,
    true, true, true, false, true, true, false)), (String ((Ascii (false,
    false, true, false, false, true, true, false)), (String ((Ascii (true,
    false, false, true, false, false, true, false)), (String ((Ascii (false,
    false, true, false, false, true, true, false)),
    EmptyString)))))))))))) :: []); mt_handler = (String ((Ascii (false,
    false, true, true, false, true, true, false)), (String ((Ascii (true,
    false, true, false, false, true, true, false)), (String ((Ascii (false,
    true, true, true, false, true, true, false)), (String ((Ascii (false,
    false, true, false, false, true, true, false)), (String ((Ascii (false,
    true, true, true, false, true, false, false)), (String ((Ascii (false,
    false, true, false, false, false, true, false)), (String ((Ascii (true,
    false, true, false, false, true, true, false)), (String ((Ascii (false,
    false, false, false, true, true, true, false)), (String ((Ascii (true,
    true, true, true, false, true, true, false)), (String ((Ascii (true,
    true, false, false, true, true, true, false)), (String ((Ascii (true,
    false, false, true, false, true, true, false)), (String ((Ascii (false,
    false, true, false, true, true, true, false)),
    EmptyString)))))))))))))))))))))))) } :: ({ mt_module = (String ((Ascii
    (false, false, true, true, false, true, true, false)), (String ((Ascii
    (true, false, true, false, false, true, true, false)), (String ((Ascii
    (false, true, true, true, false, true, true, false)), (String ((Ascii
    (false, false, true, false, false, true, true, false)),
    EmptyString)))))))); mt_name = (String ((Ascii (true, false, true, true,
    false, false, true, false)), (String ((Ascii (true, true, false, false,
    true, true, true, false)), (String ((Ascii (true, true, true, false,
    false, true, true, false)), (String ((Ascii (false, false, true, false,
    false, false, true, false)), (String ((Ascii (true, false, true, false,
    false, true, true, false)), (String ((Ascii (false, false, false, false,
    true, true, true, false)), (String ((Ascii (true, true, true, true,
    false, true, true, false)), (String ((Ascii (true, true, false, false,
    true, true, true, false)), (String ((Ascii (true, false, false, true,
    false, true, true, false)), (String ((Ascii (false, false, true, false,
    true, true, true, false)), (String ((Ascii (false, true, false, false,
    false, false, true, false)), (String ((Ascii (true, true, true, true,
    false, true, true, false)), (String ((Ascii (false, true, false, false,
    true, true, true, false)), (String ((Ascii (false, true, false, false,
    true, true, true, false)), (String ((Ascii (true, true, true, true,
    false, true, true, false)), (String ((Ascii (true, true, true, false,
    true, true, true, false)), EmptyString))))))))))))))))))))))))))))))));
    mt_signer = (Some (String ((Ascii (false, true, false, false, false,
    false, true, false)), (String ((Ascii (true, true, true, true, false,
    true, true, false)), (String ((Ascii (false, true, false, false, true,
    true, true, false)), (String ((Ascii (false, true, false, false, true,
    true, true, false)), (String ((Ascii (true, true, true, true, false,
    true, true, false)), (String ((Ascii (true, true, true, false, true,
    true, true, false)), (String ((Ascii (true, false, true, false, false,
    true, true, false)), (String ((Ascii (false, true, false, false, true,
    true, true, false)), EmptyString))))))))))))))))); mt_ids = ((String
    ((Ascii (false, true, false, false, false, false, true, false)), (String
    ((Ascii (true, true, true, true, false, true, true, false)), (String
    ((Ascii (false, true, false, false, true, true, true, false)), (String
    ((Ascii (false, true, false, false, true, true, true, false)), (String
    ((Ascii (true, true, true, true, false, true, true, false)), (String
    ((Ascii (true, true, true, false, true, true, true, false)), (String
    ((Ascii (true, false, false, true, false, false, true, false)), (String
    ((Ascii (false, false, true, false, false, true, true, false)),
    EmptyString)))))))))))))))) :: []); mt_handler = (String ((Ascii (false,
    false, true, true, false, true, true, false)), (String ((Ascii (true,
    false, true, false, false, true, true, false)), (String ((Ascii (false,
    true, true, true, false, true, true, false)), (String ((Ascii (false,
    false, true, false, false, true, true, false)), (String ((Ascii (false,
    true, true, true, false, true, false, false)), (String ((Ascii (false,
    false, true, false, false, false, true, false)), (String ((Ascii (true,
    false, true, false, false, true, true, false)), (String ((Ascii (false,
    false, false, false, true, true, true, false)), (String ((Ascii (true,
    true, true, true, false, true, true, false)), (String ((Ascii (true,
    true, false, false, true, true, true, false)), (String ((Ascii (true,
    false, false, true, false, true, true, false)), (String ((Ascii (false,
    false, true, false, true, true, true, false)), (String ((Ascii (false,
    true, false, false, false, false, true, false)), (String ((Ascii (true,
    true, true, true, false, true, true, false)), (String ((Ascii (false,
    true, false, false, true, true, true, false)), (String ((Ascii (false,
    true, false, false, true, true, true, false)), (String ((Ascii (true,
    true, true, true, false, true, true, false)), (String ((Ascii (true,
    true, true, false, true, true, true, false)),
    EmptyString)))))))))))))))))))))))))))))))))))) } :: ({ mt_module =
    (String ((Ascii (false, false, true, true, false, true, true, false)),
    (String ((Ascii (true, false, true, false, false, true, true, false)),
    (String ((Ascii (false, true, true, true, false, true, true, false)),
    (String ((Ascii (false, false, true, false, false, true, true, false)),
    EmptyString)))))))); mt_name = (String ((Ascii (true, false, true, true,
    false, false, true, false)), (String ((Ascii (true, true, false, false,
    true, true, true, false)), (String ((Ascii (true, true, true, false,
    false, true, true, false)), (String ((Ascii (false, false, true, false,
    false, false, true, false)), (String ((Ascii (false, true, false, false,
    true, true, true, false)), (String ((Ascii (true, false, false, false,
    false, true, true, false)), (String ((Ascii (true, true, true, false,
    true, true, true, false)), EmptyString)))))))))))))); mt_signer = (Some
    (String ((Ascii (false, true, false, false, false, false, true, false)),
    (String ((Ascii (true, true, true, true, false, true, true, false)),
    (String ((Ascii (false, true, false, false, true, true, true, false)),
    (String ((Ascii (false, true, false, false, true, true, true, false)),
    (String ((Ascii (true, true, true, true, false, true, true, false)),
    (String ((Ascii (true, true, true, false, true, true, true, false)),
    (String ((Ascii (true, false, true, false, false, true, true, false)),
    (String ((Ascii (false, true, false, false, true, true, true, false)),
    EmptyString))))))))))))))))); mt_ids = ((String ((Ascii (false, true,
    false, false, false, false, true, false)), (String ((Ascii (true, true,
    true, true, false, true, true, false)), (String ((Ascii (false, true,
    false, false, true, true, true, false)), (String ((Ascii (false, true,
    false, false, true, true, true, false)), (String ((Ascii (true, true,
    true, true, false, true, true, false)), (String ((Ascii (true, true,
    true, false, true, true, true, false)), (String ((Ascii (true, false,
    false, true, false, false, true, false)), (String ((Ascii (false, false,
    true, false, false, true, true, false)),
    EmptyString)))))))))))))))) :: []); mt_handler = (String ((Ascii (false,
    false, true, true, false, true, true, false)), (String ((Ascii (true,
    false, true, false, false, true, true, false)), (String ((Ascii (false,
    true, true, true, false, true, true, false)), (String ((Ascii (false,
    false, true, false, false, true, true, false)), (String ((Ascii (false,
    true, true, true, false, true, false, false)), (String ((Ascii (false,
    false, true, false, false, false, true, false)), (String ((Ascii (false,
    true, false, false, true, true, true, false)), (String ((Ascii (true,
    false, false, false, false, true, true, false)), (String ((Ascii (true,
    true, true, false, true, true, true, false)),
    EmptyString)))))))))))))))))) } :: ({ mt_module = (String ((Ascii (false,
    false, true, true, false, true, true, false)), (String ((Ascii (true,
    false, true, false, false, true, true, false)), (String ((Ascii (false,
    true, true, true, false, true, true, false)), (String ((Ascii (false,
    false, true, false, false, true, true, false)), EmptyString))))))));
    mt_name = (String ((Ascii (true, false, true, true, false, false, true,
    false)), (String ((Ascii (true, true, false, false, true, true, true,
    false)), (String ((Ascii (true, true, true, false, false, true, true,
    false)), (String ((Ascii (false, true, true, false, false, false, true,
    false)), (String ((Ascii (true, false, true, false, true, true, true,
    false)), (String ((Ascii (false, true, true, true, false, true, true,
    false)), (String ((Ascii (false, false, true, false, false, true, true,
    false)), (String ((Ascii (true, false, true, true, false, false, true,
    false)), (String ((Ascii (true, true, true, true, false, true, true,
    false)), (String ((Ascii (false, false, true, false, false, true, true,
    false)), (String ((Ascii (true, false, true, false, true, true, true,
    false)), (String ((Ascii (false, false, true, true, false, true, true,
    false)), (String ((Ascii (true, false, true, false, false, true, true,
    false)), (String ((Ascii (true, false, false, false, false, false, true,
    false)), (String ((Ascii (true, true, false, false, false, true, true,
    false)), (String ((Ascii (true, true, false, false, false, true, true,
    false)), (String ((Ascii (true, true, true, true, false, true, true,
    false)), (String ((Ascii (true, false, true, false, true, true, true,
    false)), (String ((Ascii (false, true, true, true, false, true, true,
    false)), (String ((Ascii (false, false, true, false, true, true, true,
    false)), (String ((Ascii (true, true, false, false, true, true, true,
    false)), EmptyString))))))))))))))))))))))))))))))))))))))))));
    mt_signer = (Some (String ((Ascii (false, false, true, true, false,
    false, true, false)), (String ((Ascii (true, false, true, false, false,
    true, true, false)), (String ((Ascii (false, true, true, true, false,
    true, true, false)), (String ((Ascii (false, false, true, false, false,
    true, true, false)), (String ((Ascii (true, false, true, false, false,
    true, true, false)), (String ((Ascii (false, true, false, false, true,
    true, true, false)), EmptyString))))))))))))); mt_ids = ((String ((Ascii
    (false, false, false, false, true, false, true, false)), (String ((Ascii
    (true, true, true, true, false, true, true, false)), (String ((Ascii
    (true, true, true, true, false, true, true, false)), (String ((Ascii
    (false, false, true, true, false, true, true, false)), (String ((Ascii
    (true, false, false, true, false, false, true, false)), (String ((Ascii
    (false, false, true, false, false, true, true, false)),
    EmptyString)))))))))))) :: ((String ((Ascii (true, false, false, false,
    false, false, true, false)), (String ((Ascii (true, true, false, false,
    true, true, true, false)), (String ((Ascii (true, true, false, false,
    true, true, true, false)), (String ((Ascii (true, false, true, false,
    false, true, true, false)), (String ((Ascii (false, false, true, false,
    true, true, true, false)), (String ((Ascii (true, false, false, true,
    false, false, true, false)), (String ((Ascii (false, false, true, false,
    false, true, true, false)), EmptyString)))))))))))))) :: []));
    mt_handler = (String ((Ascii (false, false, true, true, false, true,
    true, false)), (String ((Ascii (true, false, true, false, false, true,
    true, false)), (String ((Ascii (false, true, true, true, false, true,
    true, false)), (String ((Ascii (false, false, true, false, false, true,
    true, false)), (String ((Ascii (false, true, true, true, false, true,
    false, false)), (String ((Ascii (false, true, true, false, false, false,
    true, false)), (String ((Ascii (true, false, true, false, true, true,
    true, false)), (String ((Ascii (false, true, true, true, false, true,
    true, false)), (String ((Ascii (false, false, true, false, false, true,
    true, false)), (String ((Ascii (true, false, true, true, false, false,
    true, false)), (String ((Ascii (true, true, true, true, false, true,
    true, false)), (String ((Ascii (false, false, true, false, false, true,
    true, false)), (String ((Ascii (true, false, true, false, true, true,
    true, false)), (String ((Ascii (false, false, true, true, false, true,
    true, false)), (String ((Ascii (true, false, true, false, false, true,
    true, false)), (String ((Ascii (true, false, false, false, false, false,
    true, false)), (String ((Ascii (true, true, false, false, false, true,
    true, false)), (String ((Ascii (true, true, false, false, false, true,
    true, false)), (String ((Ascii (true, true, true, true, false, true,
    true, false)), (String ((Ascii (true, false, true, false, true, true,
    true, false)), (String ((Ascii (false, true, true, true, false, true,
    true, false)), (String ((Ascii (false, false, true, false, true, true,
    true, false)), (String ((Ascii (true, true, false, false, true, true,
    true, false)),
    EmptyString)))))))))))))))))))))))))))))))))))))))))))))) } :: ({ mt_module =
    (String ((Ascii (false, false, true, true, false, true, true, false)),
    (String ((Ascii (true, false, true, false, false, true, true, false)),
    (String ((Ascii (false, true, true, true, false, true, true, false)),
    (String ((Ascii (false, false, true, false, false, true, true, false)),
    EmptyString)))))))); mt_name = (String ((Ascii (true, false, true, true,
    false, false, true, false)), (String ((Ascii (true, true, false, false,
    true, true, true, false)), (String ((Ascii (true, true, true, false,
    false, true, true, false)), (String ((Ascii (false, true, true, false,
    false, false, true, false)), (String ((Ascii (true, false, true, false,
    true, true, true, false)), (String ((Ascii (false, true, true, true,
    false, true, true, false)), (String ((Ascii (false, false, true, false,
    false, true, true, false)), (String ((Ascii (false, true, false, false,
    true, false, true, false)), (String ((Ascii (true, false, true, false,
    false, true, true, false)), (String ((Ascii (true, true, false, false,
    true, true, true, false)), (String ((Ascii (true, false, true, false,
    false, true, true, false)), (String ((Ascii (false, true, false, false,
    true, true, true, false)), (String ((Ascii (false, true, true, false,
    true, true, true, false)), (String ((Ascii (true, false, true, false,
    false, true, true, false)), (String ((Ascii (true, false, false, false,
    false, false, true, false)), (String ((Ascii (true, true, false, false,
    false, true, true, false)), (String ((Ascii (true, true, false, false,
    false, true, true, false)), (String ((Ascii (true, true, true, true,
    false, true, true, false)), (String ((Ascii (true, false, true, false,
    true, true, true, false)), (String ((Ascii (false, true, true, true,
    false, true, true, false)), (String ((Ascii (false, false, true, false,
    true, true, true, false)), (String ((Ascii (true, true, false, false,
    true, true, true, false)),
    EmptyString)))))))))))))))))))))))))))))))))))))))))))); mt_signer =
    (Some (String ((Ascii (false, false, true, true, false, false, true,
    false)), (String ((Ascii (true, false, true, false, false, true, true,
    false)), (String ((Ascii (false, true, true, true, false, true, true,
    false)), (String ((Ascii (false, false, true, false, false, true, true,
    false)), (String ((Ascii (true, false, true, false, false, true, true,
    false)), (String ((Ascii (false, true, false, false, true, true, true,
    false)), EmptyString))))))))))))); mt_ids = ((String ((Ascii (true,
    false, false, false, false, false, true, false)), (String ((Ascii (true,
    true, false, false, true, true, true, false)), (String ((Ascii (true,
    true, false, false, true, true, true, false)), (String ((Ascii (true,
    false, true, false, false, true, true, false)), (String ((Ascii (false,
    false, true, false, true, true, true, false)), (String ((Ascii (true,
    false, false, true, false, false, true, false)), (String ((Ascii (false,
    false, true, false, false, true, true, false)),
    EmptyString)))))))))))))) :: []); mt_handler = (String ((Ascii (false,
    false, true, true, false, true, true, false)), (String ((Ascii (true,
    false, true, false, false, true, true, false)), (String ((Ascii (false,
    true, true, true, false, true, true, false)), (String ((Ascii (false,
    false, true, false, false, true, true, false)), (String ((Ascii (false,
    true, true, true, false, true, false, false)), (String ((Ascii (false,
    true, true, false, false, false, true, false)), (String ((Ascii (true,
    false, true, false, true, true, true, false)), (String ((Ascii (false,
    true, true, true, false, true, true, false)), (String ((Ascii (false,
    false, true, false, false, true, true, false)), (String ((Ascii (false,
    true, false, false, true, false, true, false)), (String ((Ascii (true,
    false, true, false, false, true, true, false)), (String ((Ascii (true,
    true, false, false, true, true, true, false)), (String ((Ascii (true,
    false, true, false, false, true, true, false)), (String ((Ascii (false,
    true, false, false, true, true, true, false)), (String ((Ascii (false,
    true, true, false, true, true, true, false)), (String ((Ascii (true,
    false, true, false, false, true, true, false)), (String ((Ascii (true,
    false, false, false, false, false, true, false)), (String ((Ascii (true,
    true, false, false, false, true, true, false)), (String ((Ascii (true,
    true, false, false, false, true, true, false)), (String ((Ascii (true,
    true, true, true, false, true, true, false)), (String ((Ascii (true,
    false, true, false, true, true, true, false)), (String ((Ascii (false,
    true, true, true, false, true, true, false)), (String ((Ascii (false,
    false, true, false, true, true, true, false)), (String ((Ascii (true,
    true, false, false, true, true, true, false)),
    EmptyString)))))))))))))))))))))))))))))))))))))))))))))))) } :: ({ mt_module =
    (String ((Ascii (false, false, true, true, false, true, true, false)),
    (String ((Ascii (true, false, true, false, false, true, true, false)),
    (String ((Ascii (false, true, true, true, false, true, true, false)),
    (String ((Ascii (false, false, true, false, false, true, true, false)),
    EmptyString)))))))); mt_name = (String ((Ascii (true, false, true, true,
    false, false, true, false)), (String ((Ascii (true, true, false, false,
    true, true, true, false)), (String ((Ascii (true, true, true, false,
    false, true, true, false)), (String ((Ascii (false, false, true, true,
    false, false, true, false)), (String ((Ascii (true, false, true, false,
    false, true, true, false)), (String ((Ascii (false, true, true, true,
    false, true, true, false)), (String ((Ascii (false, false, true, false,
    false, true, true, false)), EmptyString)))))))))))))); mt_signer = (Some
    (String ((Ascii (false, false, true, true, false, false, true, false)),
    (String ((Ascii (true, false, true, false, false, true, true, false)),
    (String ((Ascii (false, true, true, true, false, true, true, false)),
    (String ((Ascii (false, false, true, false, false, true, true, false)),
    (String ((Ascii (true, false, true, false, false, true, true, false)),
    (String ((Ascii (false, true, false, false, true, true, true, false)),
    EmptyString))))))))))))); mt_ids = ((String ((Ascii (true, false, false,
    false, false, false, true, false)), (String ((Ascii (true, true, false,
    false, true, true, true, false)), (String ((Ascii (true, true, false,
    false, true, true, true, false)), (String ((Ascii (true, false, true,
    false, false, true, true, false)), (String ((Ascii (false, false, true,
    false, true, true, true, false)), (String ((Ascii (true, false, false,
    true, false, false, true, false)), (String ((Ascii (false, false, true,
    false, false, true, true, false)), EmptyString)))))))))))))) :: ((String
    ((Ascii (false, false, false, false, true, false, true, false)), (String
    ((Ascii (true, true, true, true, false, true, true, false)), (String
    ((Ascii (true, true, true, true, false, true, true, false)), (String
    ((Ascii (false, false, true, true, false, true, true, false)), (String
    ((Ascii (true, false, false, true, false, false, true, false)), (String
    ((Ascii (false, false, true, false, false, true, true, false)),
    EmptyString)))))))))))) :: ((String ((Ascii (true, false, false, false,
    false, false, true, false)), (String ((Ascii (false, false, false, false,
    true, true, true, false)), (String ((Ascii (false, false, false, false,
    true, true, true, false)), (String ((Ascii (true, false, false, true,
    false, false, true, false)), (String ((Ascii (false, false, true, false,
    false, true, true, false)), EmptyString)))))))))) :: []))); mt_handler =
    (String ((Ascii (false, false, true, true, false, true, true, false)),
    (String ((Ascii (true, false, true, false, false, true, true, false)),
    (String ((Ascii (false, true, true, true, false, true, true, false)),
    (String ((Ascii (false, false, true, false, false, true, true, false)),
    (String ((Ascii (false, true, true, true, false, true, false, false)),
    (String ((Ascii (false, false, true, true, false, false, true, false)),
    (String ((Ascii (true, false, true, false, false, true, true, false)),
    (String ((Ascii (false, true, true, true, false, true, true, false)),
    (String ((Ascii (false, false, true, false, false, true, true, false)),
    EmptyString)))))))))))))))))) } :: ({ mt_module = (String ((Ascii (false,
    false, true, true, false, true, true, false)), (String ((Ascii (true,
    false, true, false, false, true, true, false)), (String ((Ascii (false,
    true, true, true, false, true, true, false)), (String ((Ascii (false,
    false, true, false, false, true, true, false)), EmptyString))))))));
    mt_name = (String ((Ascii (true, false, true, true, false, false, true,
    false)), (String ((Ascii (true, true, false, false, true, true, true,
    false)), (String ((Ascii (true, true, true, false, false, true, true,
    false)), (String ((Ascii (false, true, false, false, true, false, true,
    false)), (String ((Ascii (true, false, true, false, false, true, true,
    false)), (String ((Ascii (false, false, false, false, true, true, true,
    false)), (String ((Ascii (true, false, false, false, false, true, true,
    false)), (String ((Ascii (true, false, false, true, true, true, true,
    false)), EmptyString)))))))))))))))); mt_signer = (Some (String ((Ascii
    (false, true, false, false, false, false, true, false)), (String ((Ascii
    (true, true, true, true, false, true, true, false)), (String ((Ascii
    (false, true, false, false, true, true, true, false)), (String ((Ascii
    (false, true, false, false, true, true, true, false)), (String ((Ascii
    (true, true, true, true, false, true, true, false)), (String ((Ascii
    (true, true, true, false, true, true, true, false)), (String ((Ascii
    (true, false, true, false, false, true, true, false)), (String ((Ascii
    (false, true, false, false, true, true, true, false)),
    EmptyString))))))))))))))))); mt_ids = ((String ((Ascii (false, true,
    false, false, false, false, true, false)), (String ((Ascii (true, true,
    true, true, false, true, true, false)), (String ((Ascii (false, true,
    false, false, true, true, true, false)), (String ((Ascii (false, true,
    false, false, true, true, true, false)), (String ((Ascii (true, true,
    true, true, false, true, true, false)), (String ((Ascii (true, true,
    true, false, true, true, true, false)), (String ((Ascii (true, false,
    false, true, false, false, true, false)), (String ((Ascii (false, false,
    true, false, false, true, true, false)),
    EmptyString)))))))))))))))) :: []); mt_handler = (String ((Ascii (false,
    false, true, true, false, true, true, false)), (String ((Ascii (true,
    false, true, false, false, true, true, false)), (String ((Ascii (false,
    true, true, true, false, true, true, false)), (String ((Ascii (false,
    false, true, false, false, true, true, false)), (String ((Ascii (false,
    true, true, true, false, true, false, false)), (String ((Ascii (false,
    true, false, false, true, false, true, false)), (String ((Ascii (true,
    false, true, false, false, true, true, false)), (String ((Ascii (false,
    false, false, false, true, true, true, false)), (String ((Ascii (true,
    false, false, false, false, true, true, false)), (String ((Ascii (true,
    false, false, true, true, true, true, false)),
    EmptyString)))))))))))))))))))) } :: ({ mt_module = (String ((Ascii
    (false, false, true, true, false, true, true, false)), (String ((Ascii
    (true, false, true, false, false, true, true, false)), (String ((Ascii
    (false, true, true, true, false, true, true, false)), (String ((Ascii
    (false, false, true, false, false, true, true, false)),
    EmptyString)))))))); mt_name = (String ((Ascii (true, false, true, true,
    false, false, true, false)), (String ((Ascii (true, true, false, false,
    true, true, true, false)), (String ((Ascii (true, true, true, false,
    false, true, true, false)), (String ((Ascii (false, true, false, false,
    true, false, true, false)), (String ((Ascii (true, false, true, false,
    false, true, true, false)), (String ((Ascii (false, false, false, false,
    true, true, true, false)), (String ((Ascii (true, false, false, false,
    false, true, true, false)), (String ((Ascii (true, false, false, true,
    true, true, true, false)), (String ((Ascii (true, true, true, false,
    true, false, true, false)), (String ((Ascii (true, false, false, true,
    false, true, true, false)), (String ((Ascii (false, false, true, false,
    true, true, true, false)), (String ((Ascii (false, false, false, true,
    false, true, true, false)), (String ((Ascii (false, false, true, false,
    false, true, true, false)), (String ((Ascii (false, true, false, false,
    true, true, true, false)), (String ((Ascii (true, false, false, false,
    false, true, true, false)), (String ((Ascii (true, true, true, false,
    true, true, true, false)), EmptyString))))))))))))))))))))))))))))))));
    mt_signer = (Some (String ((Ascii (false, true, false, false, false,
    false, true, false)), (String ((Ascii (true, true, true, true, false,
    true, true, false)), (String ((Ascii (false, true, false, false, true,
    true, true, false)), (String ((Ascii (false, true, false, false, true,
    true, true, false)), (String ((Ascii (true, true, true, true, false,
    true, true, false)), (String ((Ascii (true, true, true, false, true,
    true, true, false)), (String ((Ascii (true, false, true, false, false,
    true, true, false)), (String ((Ascii (false, true, false, false, true,
    true, true, false)), EmptyString))))))))))))))))); mt_ids = ((String
    ((Ascii (false, true, false, false, false, false, true, false)), (String
    ((Ascii (true, true, true, true, false, true, true, false)), (String
    ((Ascii (false, true, false, false, true, true, true, false)), (String
    ((Ascii (false, true, false, false, true, true, true, false)), (String
    ((Ascii (true, true, true, true, false, true, true, false)), (String
    ((Ascii (true, true, true, false, true, true, true, false)), (String
    ((Ascii (true, false, false, true, false, false, true, false)), (String
    ((Ascii (false, false, true, false, false, true, true, false)),
    EmptyString)))))))))))))))) :: []); mt_handler = (String ((Ascii (false,
    false, true, true, false, true, true, false)), (String ((Ascii (true,
    false, true, false, false, true, true, false)), (String ((Ascii (false,
    true, true, true, false, true, true, false)), (String ((Ascii (false,
    false, true, false, false, true, true, false)), (String ((Ascii (false,
    true, true, true, false, true, false, false)), (String ((Ascii (false,
    true, false, false, true, false, true, false)), (String ((Ascii (true,
    false, true, false, false, true, true, false)), (String ((Ascii (false,
    false, false, false, true, true, true, false)), (String ((Ascii (true,
    false, false, false, false, true, true, false)), (String ((Ascii (true,
    false, false, true, true, true, true, false)), (String ((Ascii (true,
    true, true, false, true, false, true, false)), (String ((Ascii (true,
    false, false, true, false, true, true, false)), (String ((Ascii (false,
    false, true, false, true, true, true, false)), (String ((Ascii (false,
    false, false, true, false, true, true, false)), (String ((Ascii (false,
    false, true, false, false, true, true, false)), (String ((Ascii (false,
    true, false, false, true, true, true, false)), (String ((Ascii (true,
    false, false, false, false, true, true, false)), (String ((Ascii (true,
    true, true, false, true, true, true, false)),
    EmptyString)))))))))))))))))))))))))))))))))))) } :: ({ mt_module =
    (String ((Ascii (false, false, true, true, false, true, true, false)),
    (String ((Ascii (true, false, true, false, false, true, true, false)),
    (String ((Ascii (false, true, true, true, false, true, true, false)),
    (String ((Ascii (false, false, true, false, false, true, true, false)),
    EmptyString)))))))); mt_name = (String ((Ascii (true, false, true, true,
    false, false, true, false)), (String ((Ascii (true, true, false, false,
    true, true, true, false)), (String ((Ascii (true, true, true, false,
    false, true, true, false)), (String ((Ascii (true, true, true, false,
    true, false, true, false)), (String ((Ascii (true, false, false, true,
    false, true, true, false)), (String ((Ascii (false, false, true, false,
    true, true, true, false)), (String ((Ascii (false, false, false, true,
    false, true, true, false)), (String ((Ascii (false, false, true, false,
    false, true, true, false)), (String ((Ascii (false, true, false, false,
    true, true, true, false)), (String ((Ascii (true, false, false, false,
    false, true, true, false)), (String ((Ascii (true, true, true, false,
    true, true, true, false)), EmptyString)))))))))))))))))))))); mt_signer =
    (Some (String ((Ascii (false, false, true, true, false, false, true,
    false)), (String ((Ascii (true, false, true, false, false, true, true,
    false)), (String ((Ascii (false, true, true, true, false, true, true,
    false)), (String ((Ascii (false, false, true, false, false, true, true,
    false)), (String ((Ascii (true, false, true, false, false, true, true,
    false)), (String ((Ascii (false, true, false, false, true, true, true,
    false)), EmptyString))))))))))))); mt_ids = ((String ((Ascii (false,
    false, true, true, false, false, true, false)), (String ((Ascii (true,
    false, true, false, false, true, true, false)), (String ((Ascii (false,
    true, true, true, false, true, true, false)), (String ((Ascii (false,
    false, true, false, false, true, true, false)), (String ((Ascii (true,
    false, false, true, false, false, true, false)), (String ((Ascii (false,
    false, true, false, false, true, true, false)),
    EmptyString)))))))))))) :: []); mt_handler = (String ((Ascii (false,
    false, true, true, false, true, true, false)), (String ((Ascii (true,
    false, true, false, false, true, true, false)), (String ((Ascii (false,
    true, true, true, false, true, true, false)), (String ((Ascii (false,
    false, true, false, false, true, true, false)), (String ((Ascii (false,
    true, true, true, false, true, false, false)), (String ((Ascii (true,
    true, true, false, true, false, true, false)), (String ((Ascii (true,
    false, false, true, false, true, true, false)), (String ((Ascii (false,
    false, true, false, true, true, true, false)), (String ((Ascii (false,
    false, false, true, false, true, true, false)), (String ((Ascii (false,
    false, true, false, false, true, true, false)), (String ((Ascii (false,
    true, false, false, true, true, true, false)), (String ((Ascii (true,
    false, false, false, false, true, true, false)), (String ((Ascii (true,
    true, true, false, true, true, true, false)),
    EmptyString)))))))))))))))))))))))))) } :: ({ mt_module = (String ((Ascii
    (false, false, true, true, false, true, true, false)), (String ((Ascii
    (true, false, false, true, false, true, true, false)), (String ((Ascii
    (true, false, false, false, true, true, true, false)), (String ((Ascii
    (true, false, true, false, true, true, true, false)), (String ((Ascii
    (true, false, false, true, false, true, true, false)), (String ((Ascii
    (false, false, true, false, false, true, true, false)), (String ((Ascii
    (true, false, false, false, false, true, true, false)), (String ((Ascii
    (false, false, true, false, true, true, true, false)), (String ((Ascii
    (true, false, false, true, false, true, true, false)), (String ((Ascii
    (true, true, true, true, false, true, true, false)), (String ((Ascii
    (false, true, true, true, false, true, true, false)),
    EmptyString)))))))))))))))))))))); mt_name = (String ((Ascii (true,
    false, true, true, false, false, true, false)), (String ((Ascii (true,
    true, false, false, true, true, true, false)), (String ((Ascii (true,
    true, true, false, false, true, true, false)), (String ((Ascii (false,
    false, true, true, false, false, true, false)), (String ((Ascii (true,
    false, false, true, false, true, true, false)), (String ((Ascii (true,
    false, false, false, true, true, true, false)), (String ((Ascii (true,
    false, true, false, true, true, true, false)), (String ((Ascii (true,
    false, false, true, false, true, true, false)), (String ((Ascii (false,
    false, true, false, false, true, true, false)), (String ((Ascii (true,
    false, false, false, false, true, true, false)), (String ((Ascii (false,
    false, true, false, true, true, true, false)), (String ((Ascii (true,
    false, true, false, false, true, true, false)), (String ((Ascii (false,
    true, false, false, false, false, true, false)), (String ((Ascii (true,
    true, true, true, false, true, true, false)), (String ((Ascii (false,
    true, false, false, true, true, true, false)), (String ((Ascii (false,
    true, false, false, true, true, true, false)), (String ((Ascii (true,
    true, true, true, false, true, true, false)), (String ((Ascii (true,
    true, true, false, true, true, true, false)), (String ((Ascii (false,
    true, false, false, true, false, true, false)), (String ((Ascii (true,
    false, true, false, false, true, true, false)), (String ((Ascii (true,
    false, false, false, true, true, true, false)), (String ((Ascii (true,
    false, true, false, true, true, true, false)), (String ((Ascii (true,
    false, true, false, false, true, true, false)), (String ((Ascii (true,
    true, false, false, true, true, true, false)), (String ((Ascii (false,
    false, true, false, true, true, true, false)),
    EmptyString))))))))))))))))))))))))))))))))))))))))))))))))));
    mt_signer = (Some (String ((Ascii (false, true, true, false, false,
    false, true, false)), (String ((Ascii (false, true, false, false, true,
    true, true, false)), (String ((Ascii (true, true, true, true, false,
    true, true, false)), (String ((Ascii (true, false, true, true, false,
    true, true, false)), EmptyString))))))))); mt_ids = ((String ((Ascii
    (false, true, false, false, false, false, true, false)), (String ((Ascii
    (true, true, true, true, false, true, true, false)), (String ((Ascii
    (false, true, false, false, true, true, true, false)), (String ((Ascii
    (false, true, false, false, true, true, true, false)), (String ((Ascii
    (true, true, true, true, false, true, true, false)), (String ((Ascii
    (true, true, true, false, true, true, true, false)), (String ((Ascii
    (true, false, false, true, false, false, true, false)), (String ((Ascii
    (false, false, true, false, false, true, true, false)),
    EmptyString)))))))))))))))) :: []); mt_handler = (String ((Ascii (false,
    false, true, true, false, true, true, false)), (String ((Ascii (true,
    false, false, true, false, true, true, false)), (String ((Ascii (true,
    false, false, false, true, true, true, false)), (String ((Ascii (true,
    false, true, false, true, true, true, false)), (String ((Ascii (true,
    false, false, true, false, true, true, false)), (String ((Ascii (false,
    false, true, false, false, true, true, false)), (String ((Ascii (true,
    false, false, false, false, true, true, false)), (String ((Ascii (false,
    false, true, false, true, true, true, false)), (String ((Ascii (true,
    false, false, true, false, true, true, false)), (String ((Ascii (true,
    true, true, true, false, true, true, false)), (String ((Ascii (false,
    true, true, true, false, true, true, false)), (String ((Ascii (false,
    true, true, true, false, true, false, false)), (String ((Ascii (true,
    false, true, true, false, false, true, false)), (String ((Ascii (true,
    true, false, false, true, true, true, false)), (String ((Ascii (true,
    true, true, false, false, true, true, false)), (String ((Ascii (false,
    false, true, true, false, false, true, false)), (String ((Ascii (true,
    false, false, true, false, true, true, false)), (String ((Ascii (true,
    false, false, false, true, true, true, false)), (String ((Ascii (true,
    false, true, false, true, true, true, false)), (String ((Ascii (true,
    false, false, true, false, true, true, false)), (String ((Ascii (false,
    false, true, false, false, true, true, false)), (String ((Ascii (true,
    false, false, false, false, true, true, false)), (String ((Ascii (false,
    false, true, false, true, true, true, false)), (String ((Ascii (true,
    false, true, false, false, true, true, false)), (String ((Ascii (false,
    true, false, false, false, false, true, false)), (String ((Ascii (true,
    true, true, true, false, true, true, false)), (String ((Ascii (false,
    true, false, false, true, true, true, false)), (String ((Ascii (false,
    true, false, false, true, true, true, false)), (String ((Ascii (true,
    true, true, true, false, true, true, false)), (String ((Ascii (true,
    true, true, false, true, true, true, false)),
    EmptyString)))))))))))))))))))))))))))))))))))))))))))))))))))))))))))) } :: ({ mt_module =
    (String ((Ascii (false, false, true, true, false, true, true, false)),
    (String ((Ascii (true, false, false, true, false, true, true, false)),
    (String ((Ascii (true, false, false, false, true, true, true, false)),
    (String ((Ascii (true, false, true, false, true, true, true, false)),
    (String ((Ascii (true, false, false, true, false, true, true, false)),
    (String ((Ascii (false, false, true, false, false, true, true, false)),
    (String ((Ascii (true, false, false, false, false, true, true, false)),
    (String ((Ascii (false, false, true, false, true, true, true, false)),
    (String ((Ascii (true, false, false, true, false, true, true, false)),
    (String ((Ascii (true, true, true, true, false, true, true, false)),
    (String ((Ascii (false, true, true, true, false, true, true, false)),
    EmptyString)))))))))))))))))))))); mt_name = (String ((Ascii (true,
    false, true, true, false, false, true, false)), (String ((Ascii (true,
    true, false, false, true, true, true, false)), (String ((Ascii (true,
    true, true, false, false, true, true, false)), (String ((Ascii (false,
    false, true, true, false, false, true, false)), (String ((Ascii (true,
    false, false, true, false, true, true, false)), (String ((Ascii (true,
    false, false, false, true, true, true, false)), (String ((Ascii (true,
    false, true, false, true, true, true, false)), (String ((Ascii (true,
    false, false, true, false, true, true, false)), (String ((Ascii (false,
    false, true, false, false, true, true, false)), (String ((Ascii (true,
    false, false, false, false, true, true, false)), (String ((Ascii (false,
    false, true, false, true, true, true, false)), (String ((Ascii (true,
    false, true, false, false, true, true, false)), (String ((Ascii (false,
    true, true, false, true, false, true, false)), (String ((Ascii (true,
    false, false, false, false, true, true, false)), (String ((Ascii (true,
    false, true, false, true, true, true, false)), (String ((Ascii (false,
    false, true, true, false, true, true, false)), (String ((Ascii (false,
    false, true, false, true, true, true, false)), (String ((Ascii (false,
    true, false, false, true, false, true, false)), (String ((Ascii (true,
    false, true, false, false, true, true, false)), (String ((Ascii (true,
    false, false, false, true, true, true, false)), (String ((Ascii (true,
    false, true, false, true, true, true, false)), (String ((Ascii (true,
    false, true, false, false, true, true, false)), (String ((Ascii (true,
    true, false, false, true, true, true, false)), (String ((Ascii (false,
    false, true, false, true, true, true, false)),
    EmptyString)))))))))))))))))))))))))))))))))))))))))))))))); mt_signer =
    (Some (String ((Ascii (false, true, true, false, false, false, true,
    false)), (String ((Ascii (false, true, false, false, true, true, true,
    false)), (String ((Ascii (true, true, true, true, false, true, true,
    false)), (String ((Ascii (true, false, true, true, false, true, true,
    false)), EmptyString))))))))); mt_ids = ((String ((Ascii (true, false,
    false, false, false, false, true, false)), (String ((Ascii (false, false,
    false, false, true, true, true, false)), (String ((Ascii (false, false,
    false, false, true, true, true, false)), (String ((Ascii (true, false,
    false, true, false, false, true, false)), (String ((Ascii (false, false,
    true, false, false, true, true, false)),
    EmptyString)))))))))) :: ((String ((Ascii (false, true, true, false,
    true, false, true, false)), (String ((Ascii (true, false, false, false,
    false, true, true, false)), (String ((Ascii (true, false, true, false,
    true, true, true, false)), (String ((Ascii (false, false, true, true,
    false, true, true, false)), (String ((Ascii (false, false, true, false,
    true, true, true, false)), (String ((Ascii (true, false, false, true,
    false, false, true, false)), (String ((Ascii (false, false, true, false,
    false, true, true, false)), EmptyString)))))))))))))) :: []));
    mt_handler = (String ((Ascii (false, false, true, true, false, true,
    true, false)), (String ((Ascii (true, false, false, true, false, true,
    true, false)), (String ((Ascii (true, false, false, false, true, true,
    true, false)), (String ((Ascii (true, false, true, false, true, true,
    true, false)), (String ((Ascii (true, false, false, true, false, true,
    true, false)), (String ((Ascii (false, false, true, false, false, true,
    true, false)), (String ((Ascii (true, false, false, false, false, true,
    true, false)), (String ((Ascii (false, false, true, false, true, true,
    true, false)), (String ((Ascii (true, false, false, true, false, true,
    true, false)), (String ((Ascii (true, true, true, true, false, true,
    true, false)), (String ((Ascii (false, true, true, true, false, true,
    true, false)), (String ((Ascii (false, true, true, true, false, true,
    false, false)), (String ((Ascii (true, false, true, true, false, false,
    true, false)), (String ((Ascii (true, true, false, false, true, true,
    true, false)), (String ((Ascii (true, true, true, false, false, true,
    true, false)), (String ((Ascii (false, false, true, true, false, false,
    true, false)), (String ((Ascii (true, false, false, true, false, true,
    true, false)), (String ((Ascii (true, false, false, false, true, true,
    true, false)), (String ((Ascii (true, false, true, false, true, true,
    true, false)), (String ((Ascii (true, false, false, true, false, true,
    true, false)), (String ((Ascii (false, false, true, false, false, true,
    true, false)), (String ((Ascii (true, false, false, false, false, true,
    true, false)), (String ((Ascii (false, false, true, false, true, true,
    true, false)), (String ((Ascii (true, false, true, false, false, true,
    true, false)), (String ((Ascii (false, true, true, false, true, false,
    true, false)), (String ((Ascii (true, false, false, false, false, true,
    true, false)), (String ((Ascii (true, false, true, false, true, true,
    true, false)), (String ((Ascii (false, false, true, true, false, true,
    true, false)), (String ((Ascii (false, false, true, false, true, true,
    true, false)),
    EmptyString)))))))))))))))))))))))))))))))))))))))))))))))))))))))))) } :: ({ mt_module =
    (String ((Ascii (false, false, true, true, false, true, true, false)),
    (String ((Ascii (true, false, false, true, false, true, true, false)),
    (String ((Ascii (true, false, false, false, true, true, true, false)),
    (String ((Ascii (true, false, true, false, true, true, true, false)),
    (String ((Ascii (true, false, false, true, false, true, true, false)),
    (String ((Ascii (false, false, true, false, false, true, true, false)),
    (String ((Ascii (true, false, false, false, false, true, true, false)),
    (String ((Ascii (false, false, true, false, true, true, true, false)),
    (String ((Ascii (true, false, false, true, false, true, true, false)),
    (String ((Ascii (true, true, true, true, false, true, true, false)),
    (String ((Ascii (false, true, true, true, false, true, true, false)),
    (String ((Ascii (true, true, false, false, true, true, true, false)),
    (String ((Ascii (false, true, true, false, true, false, true, false)),
    (String ((Ascii (false, true, false, false, true, true, false, false)),
    EmptyString)))))))))))))))))))))))))))); mt_name = (String ((Ascii (true,
    false, true, true, false, false, true, false)), (String ((Ascii (true,
    true, false, false, true, true, true, false)), (String ((Ascii (true,
    true, true, false, false, true, true, false)), (String ((Ascii (true,
    false, false, false, false, false, true, false)), (String ((Ascii (false,
    false, false, false, true, true, true, false)), (String ((Ascii (false,
    false, false, false, true, true, true, false)), (String ((Ascii (false,
    true, false, false, true, false, true, false)), (String ((Ascii (true,
    false, true, false, false, true, true, false)), (String ((Ascii (true,
    true, false, false, true, true, true, false)), (String ((Ascii (true,
    false, true, false, false, true, true, false)), (String ((Ascii (false,
    true, false, false, true, true, true, false)), (String ((Ascii (false,
    true, true, false, true, true, true, false)), (String ((Ascii (true,
    false, true, false, false, true, true, false)), (String ((Ascii (false,
    true, true, false, false, false, true, false)), (String ((Ascii (true,
    false, true, false, true, true, true, false)), (String ((Ascii (false,
    true, true, true, false, true, true, false)), (String ((Ascii (false,
    false, true, false, false, true, true, false)), (String ((Ascii (true,
    true, false, false, true, true, true, false)), (String ((Ascii (false,
    true, false, false, true, false, true, false)), (String ((Ascii (true,
    false, true, false, false, true, true, false)), (String ((Ascii (true,
    false, false, false, true, true, true, false)), (String ((Ascii (true,
    false, true, false, true, true, true, false)), (String ((Ascii (true,
    false, true, false, false, true, true, false)), (String ((Ascii (true,
    true, false, false, true, true, true, false)), (String ((Ascii (false,
    false, true, false, true, true, true, false)),
    EmptyString))))))))))))))))))))))))))))))))))))))))))))))))));
    mt_signer = (Some (String ((Ascii (false, true, true, false, false,
    false, true, false)), (String ((Ascii (false, true, false, false, true,
    true, true, false)), (String ((Ascii (true, true, true, true, false,
    true, true, false)), (String ((Ascii (true, false, true, true, false,
    true, true, false)), EmptyString))))))))); mt_ids = ((String ((Ascii
    (true, false, false, false, false, false, true, false)), (String ((Ascii
    (false, false, false, false, true, true, true, false)), (String ((Ascii
    (false, false, false, false, true, true, true, false)), (String ((Ascii
    (true, false, false, true, false, false, true, false)), (String ((Ascii
    (false, false, true, false, false, true, true, false)),
    EmptyString)))))))))) :: ((String ((Ascii (true, false, false, false,
    false, false, true, false)), (String ((Ascii (true, true, false, false,
    true, true, true, false)), (String ((Ascii (true, true, false, false,
    true, true, true, false)), (String ((Ascii (true, false, true, false,
    false, true, true, false)), (String ((Ascii (false, false, true, false,
    true, true, true, false)), (String ((Ascii (true, false, false, true,
    false, false, true, false)), (String ((Ascii (false, false, true, false,
    false, true, true, false)), EmptyString)))))))))))))) :: []));
    mt_handler = (String ((Ascii (false, false, true, true, false, true,
    true, false)), (String ((Ascii (true, false, false, true, false, true,
    true, false)), (String ((Ascii (true, false, false, false, true, true,
    true, false)), (String ((Ascii (true, false, true, false, true, true,
    true, false)), (String ((Ascii (true, false, false, true, false, true,
    true, false)), (String ((Ascii (false, false, true, false, false, true,
    true, false)), (String ((Ascii (true, false, false, false, false, true,
    true, false)), (String ((Ascii (false, false, true, false, true, true,
    true, false)), (String ((Ascii (true, false, false, true, false, true,
    true, false)), (String ((Ascii (true, true, true, true, false, true,
    true, false)), (String ((Ascii (false, true, true, true, false, true,
    true, false)), (String ((Ascii (true, true, false, false, true, true,
    true, false)), (String ((Ascii (false, true, true, false, true, false,
    true, false)), (String ((Ascii (false, true, false, false, true, true,
    false, false)), (String ((Ascii (false, true, true, true, false, true,
    false, false)), (String ((Ascii (true, false, true, true, false, false,
    true, false)), (String ((Ascii (true, true, false, false, true, true,
    true, false)), (String ((Ascii (true, true, true, false, false, true,
    true, false)), (String ((Ascii (true, false, false, false, false, false,
    true, false)), (String ((Ascii (false, false, false, false, true, true,
    true, false)), (String ((Ascii (false, false, false, false, true, true,
    true, false)), (String ((Ascii (false, true, false, false, true, false,
    true, false)), (String ((Ascii (true, false, true, false, false, true,
    true, false)), (String ((Ascii (true, true, false, false, true, true,
    true, false)), (String ((Ascii (true, false, true, false, false, true,
    true, false)), (String ((Ascii (false, true, false, false, true, true,
    true, false)), (String ((Ascii (false, true, true, false, true, true,
    true, false)), (String ((Ascii (true, false, true, false, false, true,
    true, false)), (String ((Ascii (false, true, true, false, false, false,
    true, false)), (String ((Ascii (true, false, true, false, true, true,
    true, false)), (String ((Ascii (false, true, true, true, false, true,
    true, false)), (String ((Ascii (false, false, true, false, false, true,
    true, false)), (String ((Ascii (true, true, false, false, true, true,
    true, false)),
    EmptyString)))))))))))))))))))))))))))))))))))))))))))))))))))))))))))))))))) } :: ({ mt_module =
    (String ((Ascii (false, false, true, true, false, true, true, false)),
    (String ((Ascii (true, false, false, true, false, true, true, false)),
    (String ((Ascii (true, false, false, false, true, true, true, false)),
    (String ((Ascii (true, false, true, false, true, true, true, false)),
    (String ((Ascii (true, false, false, true, false, true, true, false)),
    (String ((Ascii (false, false, true, false, false, true, true, false)),
    (String ((Ascii (true, false, false, false, false, true, true, false)),
    (String ((Ascii (false, false, true, false, true, true, true, false)),
    (String ((Ascii (true, false, false, true, false, true, true, false)),
    (String ((Ascii (true, true, true, true, false, true, true, false)),
    (String ((Ascii (false, true, true, true, false, true, true, false)),
    (String ((Ascii (true, true, false, false, true, true, true, false)),
    (String ((Ascii (false, true, true, false, true, false, true, false)),
    (String ((Ascii (false, true, false, false, true, true, false, false)),
    EmptyString)))))))))))))))))))))))))))); mt_name = (String ((Ascii (true,
    false, true, true, false, false, true, false)), (String ((Ascii (true,
    true, false, false, true, true, true, false)), (String ((Ascii (true,
    true, true, false, false, true, true, false)), (String ((Ascii (false,
    false, true, true, false, false, true, false)), (String ((Ascii (true,
    false, false, true, false, true, true, false)), (String ((Ascii (true,
    false, false, false, true, true, true, false)), (String ((Ascii (true,
    false, true, false, true, true, true, false)), (String ((Ascii (true,
    false, false, true, false, true, true, false)), (String ((Ascii (false,
    false, true, false, false, true, true, false)), (String ((Ascii (true,
    false, false, false, false, true, true, false)), (String ((Ascii (false,
    false, true, false, true, true, true, false)), (String ((Ascii (true,
    false, true, false, false, true, true, false)), (String ((Ascii (true,
    false, true, false, false, false, true, false)), (String ((Ascii (false,
    false, false, true, true, true, true, false)), (String ((Ascii (false,
    false, true, false, true, true, true, false)), (String ((Ascii (true,
    false, true, false, false, true, true, false)), (String ((Ascii (false,
    true, false, false, true, true, true, false)), (String ((Ascii (false,
    true, true, true, false, true, true, false)), (String ((Ascii (true,
    false, false, false, false, true, true, false)), (String ((Ascii (false,
    false, true, true, false, true, true, false)), (String ((Ascii (true,
    true, false, true, false, false, true, false)), (String ((Ascii (true,
    false, true, false, false, true, true, false)), (String ((Ascii (true,
    false, true, false, false, true, true, false)), (String ((Ascii (false,
    false, false, false, true, true, true, false)), (String ((Ascii (true,
    false, true, false, false, true, true, false)), (String ((Ascii (false,
    true, false, false, true, true, true, false)), (String ((Ascii (false,
    true, false, false, true, false, true, false)), (String ((Ascii (true,
    false, true, false, false, true, true, false)), (String ((Ascii (true,
    false, false, false, true, true, true, false)), (String ((Ascii (true,
    false, true, false, true, true, true, false)), (String ((Ascii (true,
    false, true, false, false, true, true, false)), (String ((Ascii (true,
    true, false, false, true, true, true, false)), (String ((Ascii (false,
    false, true, false, true, true, true, false)),
    EmptyString))))))))))))))))))))))))))))))))))))))))))))))))))))))))))))))))));
    mt_signer = (Some (String ((Ascii (false, true, true, false, false,
    false, true, false)), (String ((Ascii (false, true, false, false, true,
    true, true, false)), (String ((Ascii (true, true, true, true, false,
    true, true, false)), (String ((Ascii (true, false, true, true, false,
    true, true, false)), EmptyString))))))))); mt_ids = ((String ((Ascii
    (true, false, false, false, false, false, true, false)), (String ((Ascii
    (false, false, false, false, true, true, true, false)), (String ((Ascii
    (false, false, false, false, true, true, true, false)), (String ((Ascii
    (true, false, false, true, false, false, true, false)), (String ((Ascii
    (false, false, true, false, false, true, true, false)),
    EmptyString)))))))))) :: ((String ((Ascii (true, true, false, false,
    false, false, true, false)), (String ((Ascii (true, true, true, true,
    false, true, true, false)), (String ((Ascii (false, false, true, true,
    false, true, true, false)), (String ((Ascii (false, false, true, true,
    false, true, true, false)), (String ((Ascii (true, false, false, false,
    false, true, true, false)), (String ((Ascii (false, false, true, false,
    true, true, true, false)), (String ((Ascii (true, false, true, false,
    false, true, true, false)), (String ((Ascii (false, true, false, false,
    true, true, true, false)), (String ((Ascii (true, false, false, false,
    false, true, true, false)), (String ((Ascii (false, false, true, true,
    false, true, true, false)), (String ((Ascii (true, false, false, false,
    false, false, true, false)), (String ((Ascii (true, true, false, false,
    true, true, true, false)), (String ((Ascii (true, true, false, false,
    true, true, true, false)), (String ((Ascii (true, false, true, false,
    false, true, true, false)), (String ((Ascii (false, false, true, false,
    true, true, true, false)), (String ((Ascii (true, false, false, true,
    false, false, true, false)), (String ((Ascii (false, false, true, false,
    false, true, true, false)),
    EmptyString)))))))))))))))))))))))))))))))))) :: ((String ((Ascii (false,
    false, true, false, false, false, true, false)), (String ((Ascii (true,
    false, true, false, false, true, true, false)), (String ((Ascii (false,
    true, false, false, false, true, true, false)), (String ((Ascii (false,
    false, true, false, true, true, true, false)), (String ((Ascii (true,
    false, false, false, false, false, true, false)), (String ((Ascii (true,
    true, false, false, true, true, true, false)), (String ((Ascii (true,
    true, false, false, true, true, true, false)), (String ((Ascii (true,
    false, true, false, false, true, true, false)), (String ((Ascii (false,
    false, true, false, true, true, true, false)), (String ((Ascii (true,
    false, false, true, false, false, true, false)), (String ((Ascii (false,
    false, true, false, false, true, true, false)),
    EmptyString)))))))))))))))))))))) :: []))); mt_handler = (String ((Ascii
    (false, false, true, true, false, true, true, false)), (String ((Ascii
    (true, false, false, true, false, true, true, false)), (String ((Ascii
    (true, false, false, false, true, true, true, false)), (String ((Ascii
    (true, false, true, false, true, true, true, false)), (String ((Ascii
    (true, false, false, true, false, true, true, false)), (String ((Ascii
    (false, false, true, false, false, true, true, false)), (String ((Ascii
    (true, false, false, false, false, true, true, false)), (String ((Ascii
    (false, false, true, false, true, true, true, false)), (String ((Ascii
    (true, false, false, true, false, true, true, false)), (String ((Ascii
    (true, true, true, true, false, true, true, false)), (String ((Ascii
    (false, true, true, true, false, true, true, false)), (String ((Ascii
    (true, true, false, false, true, true, true, false)), (String ((Ascii
    (false, true, true, false, true, false, true, false)), (String ((Ascii
    (false, true, false, false, true, true, false, false)), (String ((Ascii
    (false, true, true, true, false, true, false, false)), (String ((Ascii
    (true, false, true, true, false, false, true, false)), (String ((Ascii
    (true, true, false, false, true, true, true, false)), (String ((Ascii
    (true, true, true, false, false, true, true, false)), (String ((Ascii
    (false, false, true, true, false, false, true, false)), (String ((Ascii
    (true, false, false, true, false, true, true, false)), (String ((Ascii
    (true, false, false, false, true, true, true, false)), (String ((Ascii
    (true, false, true, false, true, true, true, false)), (String ((Ascii
    (true, false, false, true, false, true, true, false)), (String ((Ascii
    (false, false, true, false, false, true, true, false)), (String ((Ascii
    (true, false, false, false, false, true, true, false)), (String ((Ascii
    (false, false, true, false, true, true, true, false)), (String ((Ascii
    (true, false, true, false, false, true, true, false)), (String ((Ascii
    (true, false, true, false, false, false, true, false)), (String ((Ascii
    (false, false, false, true, true, true, true, false)), (String ((Ascii
    (false, false, true, false, true, true, true, false)), (String ((Ascii
    (true, false, true, false, false, true, true, false)), (String ((Ascii
    (false, true, false, false, true, true, true, false)), (String ((Ascii
    (false, true, true, true, false, true, true, false)), (String ((Ascii
    (true, false, false, false, false, true, true, false)), (String ((Ascii
    (false, false, true, true, false, true, true, false)), (String ((Ascii
    (true, true, false, true, false, false, true, false)), (String ((Ascii
    (true, false, true, false, false, true, true, false)), (String ((Ascii
    (true, false, true, false, false, true, true, false)), (String ((Ascii
    (false, false, false, false, true, true, true, false)), (String ((Ascii
    (true, false, true, false, false, true, true, false)), (String ((Ascii
    (false, true, false, false, true, true, true, false)),
    EmptyString)))))))))))))))))))))))))))))))))))))))))))))))))))))))))))))))))))))))))))))))))) } :: ({ mt_module =
    (String ((Ascii (false, false, true, true, false, true, true, false)),
    (String ((Ascii (true, false, false, true, false, true, true, false)),
    (String ((Ascii (true, false, false, false, true, true, true, false)),
    (String ((Ascii (true, false, true, false, true, true, true, false)),
    (String ((Ascii (true, false, false, true, false, true, true, false)),
    (String ((Ascii (false, false, true, false, false, true, true, false)),
    (String ((Ascii (true, false, false, false, false, true, true, false)),
    (String ((Ascii (false, false, true, false, true, true, true, false)),
    (String ((Ascii (true, false, false, true, false, true, true, false)),
    (String ((Ascii (true, true, true, true, false, true, true, false)),
    (String ((Ascii (false, true, true, true, false, true, true, false)),
    (String ((Ascii (true, true, false, false, true, true, true, false)),
    (String ((Ascii (false, true, true, false, true, false, true, false)),
    (String ((Ascii (false, true, false, false, true, true, false, false)),
    EmptyString)))))))))))))))))))))))))))); mt_name = (String ((Ascii (true,
    false, true, true, false, false, true, false)), (String ((Ascii (true,
    true, false, false, true, true, true, false)), (String ((Ascii (true,
    true, true, false, false, true, true, false)), (String ((Ascii (false,
    false, true, true, false, false, true, false)), (String ((Ascii (true,
    false, false, true, false, true, true, false)), (String ((Ascii (true,
    false, false, false, true, true, true, false)), (String ((Ascii (true,
    false, true, false, true, true, true, false)), (String ((Ascii (true,
    false, false, true, false, true, true, false)), (String ((Ascii (false,
    false, true, false, false, true, true, false)), (String ((Ascii (true,
    false, false, false, false, true, true, false)), (String ((Ascii (false,
    false, true, false, true, true, true, false)), (String ((Ascii (true,
    false, true, false, false, true, true, false)), (String ((Ascii (true,
    false, false, true, false, false, true, false)), (String ((Ascii (false,
    true, true, true, false, true, true, false)), (String ((Ascii (false,
    false, true, false, true, true, true, false)), (String ((Ascii (true,
    false, true, false, false, true, true, false)), (String ((Ascii (false,
    true, false, false, true, true, true, false)), (String ((Ascii (false,
    true, true, true, false, true, true, false)), (String ((Ascii (true,
    false, false, false, false, true, true, false)), (String ((Ascii (false,
    false, true, true, false, true, true, false)), (String ((Ascii (true,
    true, false, true, false, false, true, false)), (String ((Ascii (true,
    false, true, false, false, true, true, false)), (String ((Ascii (true,
    false, true, false, false, true, true, false)), (String ((Ascii (false,
    false, false, false, true, true, true, false)), (String ((Ascii (true,
    false, true, false, false, true, true, false)), (String ((Ascii (false,
    true, false, false, true, true, true, false)), (String ((Ascii (false,
    true, false, false, true, false, true, false)), (String ((Ascii (true,
    false, true, false, false, true, true, false)), (String ((Ascii (true,
    false, false, false, true, true, true, false)), (String ((Ascii (true,
    false, true, false, true, true, true, false)), (String ((Ascii (true,
    false, true, false, false, true, true, false)), (String ((Ascii (true,
    true, false, false, true, true, true, false)), (String ((Ascii (false,
    false, true, false, true, true, true, false)),
    EmptyString))))))))))))))))))))))))))))))))))))))))))))))))))))))))))))))))));
    mt_signer = (Some (String ((Ascii (false, true, true, false, false,
    false, true, false)), (String ((Ascii (false, true, false, false, true,
    true, true, false)), (String ((Ascii (true, true, true, true, false,
    true, true, false)), (String ((Ascii (true, false, true, true, false,
    true, true, false)), EmptyString))))))))); mt_ids = ((String ((Ascii
    (true, false, false, true, false, false, true, false)), (String ((Ascii
    (false, false, true, false, false, true, true, false)),
    EmptyString)))) :: []); mt_handler = (String ((Ascii (false, false, true,
    true, false, true, true, false)), (String ((Ascii (true, false, false,
    true, false, true, true, false)), (String ((Ascii (true, false, false,
    false, true, true, true, false)), (String ((Ascii (true, false, true,
    false, true, true, true, false)), (String ((Ascii (true, false, false,
    true, false, true, true, false)), (String ((Ascii (false, false, true,
    false, false, true, true, false)), (String ((Ascii (true, false, false,
    false, false, true, true, false)), (String ((Ascii (false, false, true,
    false, true, true, true, false)), (String ((Ascii (true, false, false,
    true, false, true, true, false)), (String ((Ascii (true, true, true,
    true, false, true, true, false)), (String ((Ascii (false, true, true,
    true, false, true, true, false)), (String ((Ascii (true, true, false,
    false, true, true, true, false)), (String ((Ascii (false, true, true,
    false, true, false, true, false)), (String ((Ascii (false, true, false,
    false, true, true, false, false)), (String ((Ascii (false, true, true,
    true, false, true, false, false)), (String ((Ascii (true, false, true,
    true, false, false, true, false)), (String ((Ascii (true, true, false,
    false, true, true, true, false)), (String ((Ascii (true, true, true,
    false, false, true, true, false)), (String ((Ascii (false, false, true,
    true, false, false, true, false)), (String ((Ascii (true, false, false,
    true, false, true, true, false)), (String ((Ascii (true, false, false,
    false, true, true, true, false)), (String ((Ascii (true, false, true,
    false, true, true, true, false)), (String ((Ascii (true, false, false,
    true, false, true, true, false)), (String ((Ascii (false, false, true,
    false, false, true, true, false)), (String ((Ascii (true, false, false,
    false, false, true, true, false)), (String ((Ascii (false, false, true,
    false, true, true, true, false)), (String ((Ascii (true, false, true,
    false, false, true, true, false)), (String ((Ascii (true, false, false,
    true, false, false, true, false)), (String ((Ascii (false, true, true,
    true, false, true, true, false)), (String ((Ascii (false, false, true,
    false, true, true, true, false)), (String ((Ascii (true, false, true,
    false, false, true, true, false)), (String ((Ascii (false, true, false,
    false, true, true, true, false)), (String ((Ascii (false, true, true,
    true, false, true, true, false)), (String ((Ascii (true, false, false,
    false, false, true, true, false)), (String ((Ascii (false, false, true,
    true, false, true, true, false)), (String ((Ascii (true, true, false,
    true, false, false, true, false)), (String ((Ascii (true, false, true,
    false, false, true, true, false)), (String ((Ascii (true, false, true,
    false, false, true, true, false)), (String ((Ascii (false, false, false,
    false, true, true, true, false)), (String ((Ascii (true, false, true,
    false, false, true, true, false)), (String ((Ascii (false, true, false,
    false, true, true, true, false)),
    EmptyString)))))))))))))))))))))))))))))))))))))))))))))))))))))))))))))))))))))))))))))))))) } :: ({ mt_module =
    (String ((Ascii (false, false, true, true, false, true, true, false)),
    (String ((Ascii (true, false, false, true, false, true, true, false)),
    (String ((Ascii (true, false, false, false, true, true, true, false)),
    (String ((Ascii (true, false, true, false, true, true, true, false)),
    (String ((Ascii (true, false, false, true, false, true, true, false)),
    (String ((Ascii (false, false, true, false, false, true, true, false)),
    (String ((Ascii (true, false, false, true, false, true, true, false)),
    (String ((Ascii (false, false, true, false, true, true, true, false)),
    (String ((Ascii (true, false, false, true, true, true, true, false)),
    EmptyString)))))))))))))))))); mt_name = (String ((Ascii (true, false,
    true, true, false, false, true, false)), (String ((Ascii (true, true,
    false, false, true, true, true, false)), (String ((Ascii (true, true,
    true, false, false, true, true, false)), (String ((Ascii (true, true,
    false, false, false, false, true, false)), (String ((Ascii (true, false,
    false, false, false, true, true, false)), (String ((Ascii (false, true,
    true, true, false, true, true, false)), (String ((Ascii (true, true,
    false, false, false, true, true, false)), (String ((Ascii (true, false,
    true, false, false, true, true, false)), (String ((Ascii (false, false,
    true, true, false, true, true, false)), (String ((Ascii (true, false,
    false, false, false, false, true, false)), (String ((Ascii (false, false,
    true, true, false, true, true, false)), (String ((Ascii (false, false,
    true, true, false, true, true, false)), (String ((Ascii (true, true,
    true, true, false, false, true, false)), (String ((Ascii (false, true,
    false, false, true, true, true, false)), (String ((Ascii (false, false,
    true, false, false, true, true, false)), (String ((Ascii (true, false,
    true, false, false, true, true, false)), (String ((Ascii (false, true,
    false, false, true, true, true, false)), (String ((Ascii (true, true,
    false, false, true, true, true, false)),
    EmptyString)))))))))))))))))))))))))))))))))))); mt_signer = (Some
    (String ((Ascii (true, true, true, true, false, false, true, false)),
    (String ((Ascii (false, true, false, false, true, true, true, false)),
    (String ((Ascii (false, false, true, false, false, true, true, false)),
    (String ((Ascii (true, false, true, false, false, true, true, false)),
    (String ((Ascii (false, true, false, false, true, true, true, false)),
    (String ((Ascii (true, false, true, false, false, true, true, false)),
    (String ((Ascii (false, true, false, false, true, true, true, false)),
    EmptyString))))))))))))))); mt_ids = ((String ((Ascii (true, false,
    false, false, false, false, true, false)), (String ((Ascii (false, false,
    false, false, true, true, true, false)), (String ((Ascii (false, false,
    false, false, true, true, true, false)), (String ((Ascii (true, false,
    false, true, false, false, true, false)), (String ((Ascii (false, false,
    true, false, false, true, true, false)), EmptyString)))))))))) :: []);
    mt_handler = (String ((Ascii (false, false, true, true, false, true,
    true, false)), (String ((Ascii (true, false, false, true, false, true,
    true, false)), (String ((Ascii (true, false, false, false, true, true,
    true, false)), (String ((Ascii (true, false, true, false, true, true,
    true, false)), (String ((Ascii (true, false, false, true, false, true,
    true, false)), (String ((Ascii (false, false, true, false, false, true,
    true, false)), (String ((Ascii (true, false, false, true, false, true,
    true, false)), (String ((Ascii (false, false, true, false, true, true,
    true, false)), (String ((Ascii (true, false, false, true, true, true,
    true, false)), (String ((Ascii (false, true, true, true, false, true,
    false, false)), (String ((Ascii (true, true, false, false, false, false,
    true, false)), (String ((Ascii (true, false, false, false, false, true,
    true, false)), (String ((Ascii (false, true, true, true, false, true,
    true, false)), (String ((Ascii (true, true, false, false, false, true,
    true, false)), (String ((Ascii (true, false, true, false, false, true,
    true, false)), (String ((Ascii (false, false, true, true, false, true,
    true, false)), (String ((Ascii (true, false, false, false, false, false,
    true, false)), (String ((Ascii (false, false, true, true, false, true,
    true, false)), (String ((Ascii (false, false, true, true, false, true,
    true, false)), (String ((Ascii (true, true, true, true, false, false,
    true, false)), (String ((Ascii (false, true, false, false, true, true,
    true, false)), (String ((Ascii (false, false, true, false, false, true,
    true, false)), (String ((Ascii (true, false, true, false, false, true,
    true, false)), (String ((Ascii (false, true, false, false, true, true,
    true, false)), (String ((Ascii (true, true, false, false, true, true,
    true, false)),
    EmptyString)))))))))))))))))))))))))))))))))))))))))))))))))) } :: ({ mt_module =
    (String ((Ascii (false, false, true, true, false, true, true, false)),
    (String ((Ascii (true, false, false, true, false, true, true, false)),
    (String ((Ascii (true, false, false, false, true, true, true, false)),
    (String ((Ascii (true, false, true, false, true, true, true, false)),
    (String ((Ascii (true, false, false, true, false, true, true, false)),
    (String ((Ascii (false, false, true, false, false, true, true, false)),
    (String ((Ascii (true, false, false, true, false, true, true, false)),
    (String ((Ascii (false, false, true, false, true, true, true, false)),
    (String ((Ascii (true, false, false, true, true, true, true, false)),
    EmptyString)))))))))))))))))); mt_name = (String ((Ascii (true, false,
    true, true, false, false, true, false)), (String ((Ascii (true, true,
    false, false, true, true, true, false)), (String ((Ascii (true, true,
    true, false, false, true, true, false)), (String ((Ascii (true, true,
    false, false, false, false, true, false)), (String ((Ascii (true, false,
    false, false, false, true, true, false)), (String ((Ascii (false, true,
    true, true, false, true, true, false)), (String ((Ascii (true, true,
    false, false, false, true, true, false)), (String ((Ascii (true, false,
    true, false, false, true, true, false)), (String ((Ascii (false, false,
    true, true, false, true, true, false)), (String ((Ascii (true, false,
    true, true, false, false, true, false)), (String ((Ascii (true, false,
    true, true, false, false, true, false)), (String ((Ascii (true, true,
    true, true, false, false, true, false)), (String ((Ascii (false, true,
    false, false, true, true, true, false)), (String ((Ascii (false, false,
    true, false, false, true, true, false)), (String ((Ascii (true, false,
    true, false, false, true, true, false)), (String ((Ascii (false, true,
    false, false, true, true, true, false)),
    EmptyString)))))))))))))))))))))))))))))))); mt_signer = (Some (String
    ((Ascii (true, true, true, true, false, false, true, false)), (String
    ((Ascii (false, true, false, false, true, true, true, false)), (String
    ((Ascii (false, false, true, false, false, true, true, false)), (String
    ((Ascii (true, false, true, false, false, true, true, false)), (String
    ((Ascii (false, true, false, false, true, true, true, false)), (String
    ((Ascii (true, false, true, false, false, true, true, false)), (String
    ((Ascii (false, true, false, false, true, true, true, false)),
    EmptyString))))))))))))))); mt_ids = ((String ((Ascii (true, false,
    false, false, false, false, true, false)), (String ((Ascii (false, false,
    false, false, true, true, true, false)), (String ((Ascii (false, false,
    false, false, true, true, true, false)), (String ((Ascii (true, false,
    false, true, false, false, true, false)), (String ((Ascii (false, false,
    true, false, false, true, true, false)),
    EmptyString)))))))))) :: ((String ((Ascii (false, false, false, false,
    true, false, true, false)), (String ((Ascii (true, false, false, false,
    false, true, true, false)), (String ((Ascii (true, false, false, true,
    false, true, true, false)), (String ((Ascii (false, true, false, false,
    true, true, true, false)), (String ((Ascii (true, false, false, true,
    false, false, true, false)), (String ((Ascii (false, false, true, false,
    false, true, true, false)), EmptyString)))))))))))) :: [])); mt_handler =
    (String ((Ascii (false, false, true, true, false, true, true, false)),
    (String ((Ascii (true, false, false, true, false, true, true, false)),
    (String ((Ascii (true, false, false, false, true, true, true, false)),
    (String ((Ascii (true, false, true, false, true, true, true, false)),
    (String ((Ascii (true, false, false, true, false, true, true, false)),
    (String ((Ascii (false, false, true, false, false, true, true, false)),
    (String ((Ascii (true, false, false, true, false, true, true, false)),
    (String ((Ascii (false, false, true, false, true, true, true, false)),
    (String ((Ascii (true, false, false, true, true, true, true, false)),
    (String ((Ascii (false, true, true, true, false, true, false, false)),
    (String ((Ascii (true, true, false, false, false, false, true, false)),
    (String ((Ascii (true, false, false, false, false, true, true, false)),
    (String ((Ascii (false, true, true, true, false, true, true, false)),
    (String ((Ascii (true, true, false, false, false, true, true, false)),
    (String ((Ascii (true, false, true, false, false, true, true, false)),
    (String ((Ascii (false, false, true, true, false, true, true, false)),
    (String ((Ascii (true, false, true, true, false, false, true, false)),
    (String ((Ascii (true, false, true, true, false, false, true, false)),
    (String ((Ascii (true, true, true, true, false, false, true, false)),
    (String ((Ascii (false, true, false, false, true, true, true, false)),
    (String ((Ascii (false, false, true, false, false, true, true, false)),
    (String ((Ascii (true, false, true, false, false, true, true, false)),
    (String ((Ascii (false, true, false, false, true, true, true, false)),
    EmptyString)))))))))))))))))))))))))))))))))))))))))))))) } :: ({ mt_module =
    (String ((Ascii (false, false, true, true, false, true, true, false)),
    (String ((Ascii (true, false, false, true, false, true, true, false)),
    (String ((Ascii (true, false, false, false, true, true, true, false)),
    (String ((Ascii (true, false, true, false, true, true, true, false)),
    (String ((Ascii (true, false, false, true, false, true, true, false)),
    (String ((Ascii (false, false, true, false, false, true, true, false)),
    (String ((Ascii (true, false, false, true, false, true, true, false)),
    (String ((Ascii (false, false, true, false, true, true, true, false)),
    (String ((Ascii (true, false, false, true, true, true, true, false)),
    EmptyString)))))))))))))))))); mt_name = (String ((Ascii (true, false,
    true, true, false, false, true, false)), (String ((Ascii (true, true,
    false, false, true, true, true, false)), (String ((Ascii (true, true,
    true, false, false, true, true, false)), (String ((Ascii (true, true,
    false, false, false, false, true, false)), (String ((Ascii (true, false,
    false, false, false, true, true, false)), (String ((Ascii (false, true,
    true, true, false, true, true, false)), (String ((Ascii (true, true,
    false, false, false, true, true, false)), (String ((Ascii (true, false,
    true, false, false, true, true, false)), (String ((Ascii (false, false,
    true, true, false, true, true, false)), (String ((Ascii (true, true,
    true, true, false, false, true, false)), (String ((Ascii (false, true,
    false, false, true, true, true, false)), (String ((Ascii (false, false,
    true, false, false, true, true, false)), (String ((Ascii (true, false,
    true, false, false, true, true, false)), (String ((Ascii (false, true,
    false, false, true, true, true, false)),
    EmptyString)))))))))))))))))))))))))))); mt_signer = (Some (String
    ((Ascii (true, true, true, true, false, false, true, false)), (String
    ((Ascii (false, true, false, false, true, true, true, false)), (String
    ((Ascii (false, false, true, false, false, true, true, false)), (String
    ((Ascii (true, false, true, false, false, true, true, false)), (String
    ((Ascii (false, true, false, false, true, true, true, false)), (String
    ((Ascii (true, false, true, false, false, true, true, false)), (String
    ((Ascii (false, true, false, false, true, true, true, false)),
    EmptyString))))))))))))))); mt_ids = ((String ((Ascii (false, false,
    false, false, true, false, true, false)), (String ((Ascii (true, false,
    false, false, false, true, true, false)), (String ((Ascii (true, false,
    false, true, false, true, true, false)), (String ((Ascii (false, true,
    false, false, true, true, true, false)), (String ((Ascii (true, false,
    false, true, false, false, true, false)), (String ((Ascii (false, false,
    true, false, false, true, true, false)),
    EmptyString)))))))))))) :: ((String ((Ascii (true, true, true, true,
    false, false, true, false)), (String ((Ascii (false, true, false, false,
    true, true, true, false)), (String ((Ascii (false, false, true, false,
    false, true, true, false)), (String ((Ascii (true, false, true, false,
    false, true, true, false)), (String ((Ascii (false, true, false, false,
    true, true, true, false)), (String ((Ascii (true, false, false, true,
    false, false, true, false)), (String ((Ascii (false, false, true, false,
    false, true, true, false)), EmptyString)))))))))))))) :: ((String ((Ascii
    (true, false, false, false, false, false, true, false)), (String ((Ascii
    (false, false, false, false, true, true, true, false)), (String ((Ascii
    (false, false, false, false, true, true, true, false)), (String ((Ascii
    (true, false, false, true, false, false, true, false)), (String ((Ascii
    (false, false, true, false, false, true, true, false)),
    EmptyString)))))))))) :: []))); mt_handler = (String ((Ascii (false,
    false, true, true, false, true, true, false)), (String ((Ascii (true,
    false, false, true, false, true, true, false)), (String ((Ascii (true,
    false, false, false, true, true, true, false)), (String ((Ascii (true,
    false, true, false, true, true, true, false)), (String ((Ascii (true,
    false, false, true, false, true, true, false)), (String ((Ascii (false,
    false, true, false, false, true, true, false)), (String ((Ascii (true,
    false, false, true, false, true, true, false)), (String ((Ascii (false,
    false, true, false, true, true, true, false)), (String ((Ascii (true,
    false, false, true, true, true, true, false)), (String ((Ascii (false,
    true, true, true, false, true, false, false)), (String ((Ascii (true,
    true, false, false, false, false, true, false)), (String ((Ascii (true,
    false, false, false, false, true, true, false)), (String ((Ascii (false,
    true, true, true, false, true, true, false)), (String ((Ascii (true,
    true, false, false, false, true, true, false)), (String ((Ascii (true,
    false, true, false, false, true, true, false)), (String ((Ascii (false,
    false, true, true, false, true, true, false)), (String ((Ascii (true,
    true, true, true, false, false, true, false)), (String ((Ascii (false,
    true, false, false, true, true, true, false)), (String ((Ascii (false,
    false, true, false, false, true, true, false)), (String ((Ascii (true,
    false, true, false, false, true, true, false)), (String ((Ascii (false,
    true, false, false, true, true, true, false)),
    EmptyString)))))))))))))))))))))))))))))))))))))))))) } :: ({ mt_module =
    (String ((Ascii (false, false, true, true, false, true, true, false)),
    (String ((Ascii (true, false, false, true, false, true, true, false)),
    (String ((Ascii (true, false, false, false, true, true, true, false)),
    (String ((Ascii (true, false, true, false, true, true, true, false)),
    (String ((Ascii (true, false, false, true, false, true, true, false)),
    (String ((Ascii (false, false, true, false, false, true, true, false)),
    (String ((Ascii (true, false, false, true, false, true, true, false)),
    (String ((Ascii (false, false, true, false, true, true, true, false)),
    (String ((Ascii (true, false, false, true, true, true, true, false)),
    EmptyString)))))))))))))))))); mt_name = (String ((Ascii (true, false,
    true, true, false, false, true, false)), (String ((Ascii (true, true,
    false, false, true, true, true, false)), (String ((Ascii (true, true,
    true, false, false, true, true, false)), (String ((Ascii (true, true,
    false, false, false, false, true, false)), (String ((Ascii (false, true,
    false, false, true, true, true, false)), (String ((Ascii (true, false,
    true, false, false, true, true, false)), (String ((Ascii (true, false,
    false, false, false, true, true, false)), (String ((Ascii (false, false,
    true, false, true, true, true, false)), (String ((Ascii (true, false,
    true, false, false, true, true, false)), (String ((Ascii (false, false,
    false, false, true, false, true, false)), (String ((Ascii (true, false,
    false, false, false, true, true, false)), (String ((Ascii (true, false,
    false, true, false, true, true, false)), (String ((Ascii (false, true,
    false, false, true, true, true, false)),
    EmptyString)))))))))))))))))))))))))); mt_signer = (Some (String ((Ascii
    (true, true, false, false, false, false, true, false)), (String ((Ascii
    (false, true, false, false, true, true, true, false)), (String ((Ascii
    (true, false, true, false, false, true, true, false)), (String ((Ascii
    (true, false, false, false, false, true, true, false)), (String ((Ascii
    (false, false, true, false, true, true, true, false)), (String ((Ascii
    (true, true, true, true, false, true, true, false)), (String ((Ascii
    (false, true, false, false, true, true, true, false)),
    EmptyString))))))))))))))); mt_ids = ((String ((Ascii (true, false,
    false, false, false, false, true, false)), (String ((Ascii (false, false,
    false, false, true, true, true, false)), (String ((Ascii (false, false,
    false, false, true, true, true, false)), (String ((Ascii (true, false,
    false, true, false, false, true, false)), (String ((Ascii (false, false,
    true, false, false, true, true, false)), EmptyString)))))))))) :: []);
    mt_handler = (String ((Ascii (false, false, true, true, false, true,
    true, false)), (String ((Ascii (true, false, false, true, false, true,
    true, false)), (String ((Ascii (true, false, false, false, true, true,
    true, false)), (String ((Ascii (true, false, true, false, true, true,
    true, false)), (String ((Ascii (true, false, false, true, false, true,
    true, false)), (String ((Ascii (false, false, true, false, false, true,
    true, false)), (String ((Ascii (true, false, false, true, false, true,
    true, false)), (String ((Ascii (false, false, true, false, true, true,
    true, false)), (String ((Ascii (true, false, false, true, true, true,
    true, false)), (String ((Ascii (false, true, true, true, false, true,
    false, false)), (String ((Ascii (true, true, false, false, false, false,
    true, false)), (String ((Ascii (false, true, false, false, true, true,
    true, false)), (String ((Ascii (true, false, true, false, false, true,
    true, false)), (String ((Ascii (true, false, false, false, false, true,
    true, false)), (String ((Ascii (false, false, true, false, true, true,
    true, false)), (String ((Ascii (true, false, true, false, false, true,
    true, false)), (String ((Ascii (false, false, false, false, true, false,
    true, false)), (String ((Ascii (true, false, false, false, false, true,
    true, false)), (String ((Ascii (true, false, false, true, false, true,
    true, false)), (String ((Ascii (false, true, false, false, true, true,
    true, false)),
    EmptyString)))))))))))))))))))))))))))))))))))))))) } :: ({ mt_module =
    (String ((Ascii (false, false, true, true, false, true, true, false)),
    (String ((Ascii (true, false, false, true, false, true, true, false)),
    (String ((Ascii (true, false, false, false, true, true, true, false)),
    (String ((Ascii (true, false, true, false, true, true, true, false)),
    (String ((Ascii (true, false, false, true, false, true, true, false)),
    (String ((Ascii (false, false, true, false, false, true, true, false)),
    (String ((Ascii (true, false, false, true, false, true, true, false)),
    (String ((Ascii (false, false, true, false, true, true, true, false)),
    (String ((Ascii (true, false, false, true, true, true, true, false)),
    EmptyString)))))))))))))))))); mt_name = (String ((Ascii (true, false,
    true, true, false, false, true, false)), (String ((Ascii (true, true,
    false, false, true, true, true, false)), (String ((Ascii (true, true,
    true, false, false, true, true, false)), (String ((Ascii (true, true,
    false, false, false, false, true, false)), (String ((Ascii (false, true,
    false, false, true, true, true, false)), (String ((Ascii (true, false,
    true, false, false, true, true, false)), (String ((Ascii (true, false,
    false, false, false, true, true, false)), (String ((Ascii (false, false,
    true, false, true, true, true, false)), (String ((Ascii (true, false,
    true, false, false, true, true, false)), (String ((Ascii (false, false,
    false, false, true, false, true, false)), (String ((Ascii (true, true,
    true, true, false, true, true, false)), (String ((Ascii (true, true,
    true, true, false, true, true, false)), (String ((Ascii (false, false,
    true, true, false, true, true, false)),
    EmptyString)))))))))))))))))))))))))); mt_signer = (Some (String ((Ascii
    (true, true, false, false, false, false, true, false)), (String ((Ascii
    (false, true, false, false, true, true, true, false)), (String ((Ascii
    (true, false, true, false, false, true, true, false)), (String ((Ascii
    (true, false, false, false, false, true, true, false)), (String ((Ascii
    (false, false, true, false, true, true, true, false)), (String ((Ascii
    (true, true, true, true, false, true, true, false)), (String ((Ascii
    (false, true, false, false, true, true, true, false)),
    EmptyString))))))))))))))); mt_ids = ((String ((Ascii (false, false,
    false, false, true, false, true, false)), (String ((Ascii (true, false,
    false, false, false, true, true, false)), (String ((Ascii (true, false,
    false, true, false, true, true, false)), (String ((Ascii (false, true,
    false, false, true, true, true, false)), (String ((Ascii (true, false,
    false, true, false, false, true, false)), (String ((Ascii (false, false,
    true, false, false, true, true, false)),
    EmptyString)))))))))))) :: ((String ((Ascii (true, false, false, false,
    false, false, true, false)), (String ((Ascii (false, false, false, false,
    true, true, true, false)), (String ((Ascii (false, false, false, false,
    true, true, true, false)), (String ((Ascii (true, false, false, true,
    false, false, true, false)), (String ((Ascii (false, false, true, false,
    false, true, true, false)), EmptyString)))))))))) :: [])); mt_handler =
    (String ((Ascii (false, false, true, true, false, true, true, false)),
    (String ((Ascii (true, false, false, true, false, true, true, false)),
    (String ((Ascii (true, false, false, false, true, true, true, false)),
    (String ((Ascii (true, false, true, false, true, true, true, false)),
    (String ((Ascii (true, false, false, true, false, true, true, false)),
    (String ((Ascii (false, false, true, false, false, true, true, false)),
    (String ((Ascii (true, false, false, true, false, true, true, false)),
    (String ((Ascii (false, false, true, false, true, true, true, false)),
    (String ((Ascii (true, false, false, true, true, true, true, false)),
    (String ((Ascii (false, true, true, true, false, true, false, false)),
    (String ((Ascii (true, true, false, false, false, false, true, false)),
    (String ((Ascii (false, true, false, false, true, true, true, false)),
    (String ((Ascii (true, false, true, false, false, true, true, false)),
    (String ((Ascii (true, false, false, false, false, true, true, false)),
    (String ((Ascii (false, false, true, false, true, true, true, false)),
    (String ((Ascii (true, false, true, false, false, true, true, false)),
    (String ((Ascii (false, false, false, false, true, false, true, false)),
    (String ((Ascii (true, true, true, true, false, true, true, false)),
    (String ((Ascii (true, true, true, true, false, true, true, false)),
    (String ((Ascii (false, false, true, true, false, true, true, false)),
    EmptyString)))))))))))))))))))))))))))))))))))))))) } :: ({ mt_module =
    (String ((Ascii (false, false, true, true, false, true, true, false)),
    (String ((Ascii (true, false, false, true, false, true, true, false)),
    (String ((Ascii (true, false, false, false, true, true, true, false)),
    (String ((Ascii (true, false, true, false, true, true, true, false)),
    (String ((Ascii (true, false, false, true, false, true, true, false)),
    (String ((Ascii (false, false, true, false, false, true, true, false)),
    (String ((Ascii (true, false, false, true, false, true, true, false)),
    (String ((Ascii (false, false, true, false, true, true, true, false)),
    (String ((Ascii (true, false, false, true, true, true, true, false)),
    EmptyString)))))))))))))))))); mt_name = (String ((Ascii (true, false,
    true, true, false, false, true, false)), (String ((Ascii (true, true,
    false, false, true, true, true, false)), (String ((Ascii (true, true,
    true, false, false, true, true, false)), (String ((Ascii (true, true,
    false, false, false, false, true, false)), (String ((Ascii (false, true,
    false, false, true, true, true, false)), (String ((Ascii (true, false,
    true, false, false, true, true, false)), (String ((Ascii (true, false,
    false, false, false, true, true, false)), (String ((Ascii (false, false,
    true, false, true, true, true, false)), (String ((Ascii (true, false,
    true, false, false, true, true, false)), (String ((Ascii (false, true,
    false, false, true, false, true, false)), (String ((Ascii (true, false,
    false, false, false, true, true, false)), (String ((Ascii (false, true,
    true, true, false, true, true, false)), (String ((Ascii (true, true,
    true, false, false, true, true, false)), (String ((Ascii (true, false,
    true, false, false, true, true, false)), (String ((Ascii (false, false,
    true, false, false, true, true, false)), (String ((Ascii (false, false,
    false, false, true, false, true, false)), (String ((Ascii (true, true,
    true, true, false, true, true, false)), (String ((Ascii (true, true,
    true, true, false, true, true, false)), (String ((Ascii (false, false,
    true, true, false, true, true, false)),
    EmptyString)))))))))))))))))))))))))))))))))))))); mt_signer = (Some
    (String ((Ascii (true, true, false, false, false, false, true, false)),
    (String ((Ascii (false, true, false, false, true, true, true, false)),
    (String ((Ascii (true, false, true, false, false, true, true, false)),
    (String ((Ascii (true, false, false, false, false, true, true, false)),
    (String ((Ascii (false, false, true, false, true, true, true, false)),
    (String ((Ascii (true, true, true, true, false, true, true, false)),
    (String ((Ascii (false, true, false, false, true, true, true, false)),
    EmptyString))))))))))))))); mt_ids = ((String ((Ascii (true, false,
    false, false, false, false, true, false)), (String ((Ascii (false, false,
    false, false, true, true, true, false)), (String ((Ascii (false, false,
    false, false, true, true, true, false)), (String ((Ascii (true, false,
    false, true, false, false, true, false)), (String ((Ascii (false, false,
    true, false, false, true, true, false)),
    EmptyString)))))))))) :: ((String ((Ascii (false, false, false, false,
    true, false, true, false)), (String ((Ascii (true, false, false, false,
    false, true, true, false)), (String ((Ascii (true, false, false, true,
    false, true, true, false)), (String ((Ascii (false, true, false, false,
    true, true, true, false)), (String ((Ascii (true, false, false, true,
    false, false, true, false)), (String ((Ascii (false, false, true, false,
    false, true, true, false)), EmptyString)))))))))))) :: [])); mt_handler =
    (String ((Ascii (false, false, true, true, false, true, true, false)),
    (String ((Ascii (true, false, false, true, false, true, true, false)),
    (String ((Ascii (true, false, false, false, true, true, true, false)),
    (String ((Ascii (true, false, true, false, true, true, true, false)),
    (String ((Ascii (true, false, false, true, false, true, true, false)),
    (String ((Ascii (false, false, true, false, false, true, true, false)),
    (String ((Ascii (true, false, false, true, false, true, true, false)),
    (String ((Ascii (false, false, true, false, true, true, true, false)),
    (String ((Ascii (true, false, false, true, true, true, true, false)),
    (String ((Ascii (false, true, true, true, false, true, false, false)),
    (String ((Ascii (true, true, false, false, false, false, true, false)),
    (String ((Ascii (false, true, false, false, true, true, true, false)),
    (String ((Ascii (true, false, true, false, false, true, true, false)),
    (String ((Ascii (true, false, false, false, false, true, true, false)),
    (String ((Ascii (false, false, true, false, true, true, true, false)),
    (String ((Ascii (true, false, true, false, false, true, true, false)),
    (String ((Ascii (false, true, false, false, true, false, true, false)),
    (String ((Ascii (true, false, false, false, false, true, true, false)),
    (String ((Ascii (false, true, true, true, false, true, true, false)),
    (String ((Ascii (true, true, true, false, false, true, true, false)),
    (String ((Ascii (true, false, true, false, false, true, true, false)),
    (String ((Ascii (false, false, true, false, false, true, true, false)),
    (String ((Ascii (false, false, false, false, true, false, true, false)),
    (String ((Ascii (true, true, true, true, false, true, true, false)),
    (String ((Ascii (true, true, true, true, false, true, true, false)),
    (String ((Ascii (false, false, true, true, false, true, true, false)),
    EmptyString)))))))))))))))))))))))))))))))))))))))))))))))))))) } :: ({ mt_module =
    (String ((Ascii (false, false, true, true, false, true, true, false)),
    (String ((Ascii (true, false, false, true, false, true, true, false)),
    (String ((Ascii (true, false, false, false, true, true, true, false)),
    (String ((Ascii (true, false, true, false, true, true, true, false)),
    (String ((Ascii (true, false, false, true, false, true, true, false)),
    (String ((Ascii (false, false, true, false, false, true, true, false)),
    (String ((Ascii (true, false, false, true, false, true, true, false)),
    (String ((Ascii (false, false, true, false, true, true, true, false)),
    (String ((Ascii (true, false, false, true, true, true, true, false)),
    EmptyString)))))))))))))))))); mt_name = (String ((Ascii (true, false,
    true, true, false, false, true, false)), (String ((Ascii (true, true,
    false, false, true, true, true, false)), (String ((Ascii (true, true,
    true, false, false, true, true, false)), (String ((Ascii (false, false,
    true, false, false, false, true, false)), (String ((Ascii (true, false,
    true, false, false, true, true, false)), (String ((Ascii (false, false,
    false, false, true, true, true, false)), (String ((Ascii (true, true,
    true, true, false, true, true, false)), (String ((Ascii (true, true,
    false, false, true, true, true, false)), (String ((Ascii (true, false,
    false, true, false, true, true, false)), (String ((Ascii (false, false,
    true, false, true, true, true, false)), EmptyString))))))))))))))))))));
    mt_signer = (Some (String ((Ascii (false, false, true, false, false,
    false, true, false)), (String ((Ascii (true, false, true, false, false,
    true, true, false)), (String ((Ascii (false, false, false, false, true,
    true, true, false)), (String ((Ascii (true, true, true, true, false,
    true, true, false)), (String ((Ascii (true, true, false, false, true,
    true, true, false)), (String ((Ascii (true, false, false, true, false,
    true, true, false)), (String ((Ascii (false, false, true, false, true,
    true, true, false)), (String ((Ascii (true, true, true, true, false,
    true, true, false)), (String ((Ascii (false, true, false, false, true,
    true, true, false)), EmptyString))))))))))))))))))); mt_ids = ((String
    ((Ascii (false, false, false, false, true, false, true, false)), (String
    ((Ascii (true, true, true, true, false, true, true, false)), (String
    ((Ascii (true, true, true, true, false, true, true, false)), (String
    ((Ascii (false, false, true, true, false, true, true, false)), (String
    ((Ascii (true, false, false, true, false, false, true, false)), (String
    ((Ascii (false, false, true, false, false, true, true, false)),
    EmptyString)))))))))))) :: ((String ((Ascii (true, false, false, false,
    false, false, true, false)), (String ((Ascii (false, false, false, false,
    true, true, true, false)), (String ((Ascii (false, false, false, false,
    true, true, true, false)), (String ((Ascii (true, false, false, true,
    false, false, true, false)), (String ((Ascii (false, false, true, false,
    false, true, true, false)), EmptyString)))))))))) :: [])); mt_handler =
    (String ((Ascii (false, false, true, true, false, true, true, false)),
    (String ((Ascii (true, false, false, true, false, true, true, false)),
    (String ((Ascii (true, false, false, false, true, true, true, false)),
    (String ((Ascii (true, false, true, false, true, true, true, false)),
    (String ((Ascii (true, false, false, true, false, true, true, false)),
    (String ((Ascii (false, false, true, false, false, true, true, false)),
    (String ((Ascii (true, false, false, true, false, true, true, false)),
    (String ((Ascii (false, false, true, false, true, true, true, false)),
    (String ((Ascii (true, false, false, true, true, true, true, false)),
    (String ((Ascii (false, true, true, true, false, true, false, false)),
    (String ((Ascii (false, false, true, false, false, false, true, false)),
    (String ((Ascii (true, false, true, false, false, true, true, false)),
    (String ((Ascii (false, false, false, false, true, true, true, false)),
    (String ((Ascii (true, true, true, true, false, true, true, false)),
    (String ((Ascii (true, true, false, false, true, true, true, false)),
    (String ((Ascii (true, false, false, true, false, true, true, false)),
    (String ((Ascii (false, false, true, false, true, true, true, false)),
    EmptyString)))))))))))))))))))))))))))))))))) } :: ({ mt_module = (String
    ((Ascii (false, false, true, true, false, true, true, false)), (String
    ((Ascii (true, false, false, true, false, true, true, false)), (String
    ((Ascii (true, false, false, false, true, true, true, false)), (String
    ((Ascii (true, false, true, false, true, true, true, false)), (String
    ((Ascii (true, false, false, true, false, true, true, false)), (String
    ((Ascii (false, false, true, false, false, true, true, false)), (String
    ((Ascii (true, false, false, true, false, true, true, false)), (String
    ((Ascii (false, false, true, false, true, true, true, false)), (String
    ((Ascii (true, false, false, true, true, true, true, false)),
    EmptyString)))))))))))))))))); mt_name = (String ((Ascii (true, false,
    true, true, false, false, true, false)), (String ((Ascii (true, true,
    false, false, true, true, true, false)), (String ((Ascii (true, true,
    true, false, false, true, true, false)), (String ((Ascii (false, false,
    true, false, false, false, true, false)), (String ((Ascii (true, false,
    true, false, false, true, true, false)), (String ((Ascii (false, false,
    false, false, true, true, true, false)), (String ((Ascii (true, true,
    true, true, false, true, true, false)), (String ((Ascii (true, true,
    false, false, true, true, true, false)), (String ((Ascii (true, false,
    false, true, false, true, true, false)), (String ((Ascii (false, false,
    true, false, true, true, true, false)), (String ((Ascii (true, false,
    false, false, false, false, true, false)), (String ((Ascii (false, true,
    true, true, false, true, true, false)), (String ((Ascii (false, false,
    true, false, false, true, true, false)), (String ((Ascii (false, true,
    true, false, false, false, true, false)), (String ((Ascii (true, false,
    false, false, false, true, true, false)), (String ((Ascii (false, true,
    false, false, true, true, true, false)), (String ((Ascii (true, false,
    true, true, false, true, true, false)),
    EmptyString)))))))))))))))))))))))))))))))))); mt_signer = (Some (String
    ((Ascii (false, false, true, false, false, false, true, false)), (String
    ((Ascii (true, false, true, false, false, true, true, false)), (String
    ((Ascii (false, false, false, false, true, true, true, false)), (String
    ((Ascii (true, true, true, true, false, true, true, false)), (String
    ((Ascii (true, true, false, false, true, true, true, false)), (String
    ((Ascii (true, false, false, true, false, true, true, false)), (String
    ((Ascii (false, false, true, false, true, true, true, false)), (String
    ((Ascii (true, true, true, true, false, true, true, false)), (String
    ((Ascii (false, true, false, false, true, true, true, false)),
    EmptyString))))))))))))))))))); mt_ids = ((String ((Ascii (false, false,
    false, false, true, false, true, false)), (String ((Ascii (true, true,
    true, true, false, true, true, false)), (String ((Ascii (true, true,
    true, true, false, true, true, false)), (String ((Ascii (false, false,
    true, true, false, true, true, false)), (String ((Ascii (true, false,
    false, true, false, false, true, false)), (String ((Ascii (false, false,
    true, false, false, true, true, false)),
    EmptyString)))))))))))) :: ((String ((Ascii (true, false, false, false,
    false, false, true, false)), (String ((Ascii (false, false, false, false,
    true, true, true, false)), (String ((Ascii (false, false, false, false,
    true, true, true, false)), (String ((Ascii (true, false, false, true,
    false, false, true, false)), (String ((Ascii (false, false, true, false,
    false, true, true, false)), EmptyString)))))))))) :: [])); mt_handler =
    (String ((Ascii (false, false, true, true, false, true, true, false)),
    (String ((Ascii (true, false, false, true, false, true, true, false)),
    (String ((Ascii (true, false, false, false, true, true, true, false)),
    (String ((Ascii (true, false, true, false, true, true, true, false)),
    (String ((Ascii (true, false, false, true, false, true, true, false)),
    (String ((Ascii (false, false, true, false, false, true, true, false)),
    (String ((Ascii (true, false, false, true, false, true, true, false)),
    (String ((Ascii (false, false, true, false, true, true, true, false)),
    (String ((Ascii (true, false, false, true, true, true, true, false)),
    (String ((Ascii (false, true, true, true, false, true, false, false)),
    (String ((Ascii (false, false, true, false, false, false, true, false)),
    (String ((Ascii (true, false, true, false, false, true, true, false)),
    (String ((Ascii (false, false, false, false, true, true, true, false)),
    (String ((Ascii (true, true, true, true, false, true, true, false)),
    (String ((Ascii (true, true, false, false, true, true, true, false)),
    (String ((Ascii (true, false, false, true, false, true, true, false)),
    (String ((Ascii (false, false, true, false, true, true, true, false)),
    (String ((Ascii (true, false, false, false, false, false, true, false)),
    (String ((Ascii (false, true, true, true, false, true, true, false)),
    (String ((Ascii (false, false, true, false, false, true, true, false)),
    (String ((Ascii (false, true, true, false, false, false, true, false)),
    (String ((Ascii (true, false, false, false, false, true, true, false)),
    (String ((Ascii (false, true, false, false, true, true, true, false)),
    (String ((Ascii (true, false, true, true, false, true, true, false)),
    EmptyString)))))))))))))))))))))))))))))))))))))))))))))))) } :: ({ mt_module =
    (String ((Ascii (false, false, true, true, false, true, true, false)),
    (String ((Ascii (true, false, false, true, false, true, true, false)),
    (String ((Ascii (true, false, false, false, true, true, true, false)),
    (String ((Ascii (true, false, true, false, true, true, true, false)),
    (String ((Ascii (true, false, false, true, false, true, true, false)),
    (String ((Ascii (false, false, true, false, false, true, true, false)),
    (String ((Ascii (true, false, false, true, false, true, true, false)),
    (String ((Ascii (false, false, true, false, true, true, true, false)),
    (String ((Ascii (true, false, false, true, true, true, true, false)),
    EmptyString)))))))))))))))))); mt_name = (String ((Ascii (true, false,
    true, true, false, false, true, false)), (String ((Ascii (true, true,
    false, false, true, true, true, false)), (String ((Ascii (true, true,
    true, false, false, true, true, false)), (String ((Ascii (false, true,
    true, false, false, false, true, false)), (String ((Ascii (true, false,
    false, false, false, true, true, false)), (String ((Ascii (false, true,
    false, false, true, true, true, false)), (String ((Ascii (true, false,
    true, true, false, true, true, false)), EmptyString))))))))))))));
    mt_signer = (Some (String ((Ascii (false, true, true, false, false,
    false, true, false)), (String ((Ascii (true, false, false, false, false,
    true, true, false)), (String ((Ascii (false, true, false, false, true,
    true, true, false)), (String ((Ascii (true, false, true, true, false,
    true, true, false)), (String ((Ascii (true, false, true, false, false,
    true, true, false)), (String ((Ascii (false, true, false, false, true,
    true, true, false)), EmptyString))))))))))))); mt_ids = ((String ((Ascii
    (true, false, false, false, false, false, true, false)), (String ((Ascii
    (false, false, false, false, true, true, true, false)), (String ((Ascii
    (false, false, false, false, true, true, true, false)), (String ((Ascii
    (true, false, false, true, false, false, true, false)), (String ((Ascii
    (false, false, true, false, false, true, true, false)),
    EmptyString)))))))))) :: ((String ((Ascii (false, false, false, false,
    true, false, true, false)), (String ((Ascii (true, true, true, true,
    false, true, true, false)), (String ((Ascii (true, true, true, true,
    false, true, true, false)), (String ((Ascii (false, false, true, true,
    false, true, true, false)), (String ((Ascii (true, false, false, true,
    false, false, true, false)), (String ((Ascii (false, false, true, false,
    false, true, true, false)), EmptyString)))))))))))) :: [])); mt_handler =
    (String ((Ascii (false, false, true, true, false, true, true, false)),
    (String ((Ascii (true, false, false, true, false, true, true, false)),
    (String ((Ascii (true, false, false, false, true, true, true, false)),
    (String ((Ascii (true, false, true, false, true, true, true, false)),
    (String ((Ascii (true, false, false, true, false, true, true, false)),
    (String ((Ascii (false, false, true, false, false, true, true, false)),
    (String ((Ascii (true, false, false, true, false, true, true, false)),
    (String ((Ascii (false, false, true, false, true, true, true, false)),
    (String ((Ascii (true, false, false, true, true, true, true, false)),
    (String ((Ascii (false, true, true, true, false, true, false, false)),
    (String ((Ascii (false, true, true, false, false, false, true, false)),
    (String ((Ascii (true, false, false, false, false, true, true, false)),
    (String ((Ascii (false, true, false, false, true, true, true, false)),
    (String ((Ascii (true, false, true, true, false, true, true, false)),
    EmptyString)))))))))))))))))))))))))))) } :: ({ mt_module = (String
    ((Ascii (false, false, true, true, false, true, true, false)), (String
    ((Ascii (true, false, false, true, false, true, true, false)), (String
    ((Ascii (true, false, false, false, true, true, true, false)), (String
    ((Ascii (true, false, true, false, true, true, true, false)), (String
    ((Ascii (true, false, false, true, false, true, true, false)), (String
    ((Ascii (false, false, true, false, false, true, true, false)), (String
    ((Ascii (true, false, false, true, false, true, true, false)), (String
    ((Ascii (false, false, true, false, true, true, true, false)), (String
    ((Ascii (true, false, false, true, true, true, true, false)),
    EmptyString)))))))))))))))))); mt_name = (String ((Ascii (true, false,
    true, true, false, false, true, false)), (String ((Ascii (true, true,
    false, false, true, true, true, false)), (String ((Ascii (true, true,
    true, false, false, true, true, false)), (String ((Ascii (false, false,
    true, true, false, false, true, false)), (String ((Ascii (true, false,
    false, true, false, true, true, false)), (String ((Ascii (true, false,
    true, true, false, true, true, false)), (String ((Ascii (true, false,
    false, true, false, true, true, false)), (String ((Ascii (false, false,
    true, false, true, true, true, false)), (String ((Ascii (true, true,
    true, true, false, false, true, false)), (String ((Ascii (false, true,
    false, false, true, true, true, false)), (String ((Ascii (false, false,
    true, false, false, true, true, false)), (String ((Ascii (true, false,
    true, false, false, true, true, false)), (String ((Ascii (false, true,
    false, false, true, true, true, false)),
    EmptyString)))))))))))))))))))))))))); mt_signer = (Some (String ((Ascii
    (true, true, true, true, false, false, true, false)), (String ((Ascii
    (false, true, false, false, true, true, true, false)), (String ((Ascii
    (false, false, true, false, false, true, true, false)), (String ((Ascii
    (true, false, true, false, false, true, true, false)), (String ((Ascii
    (false, true, false, false, true, true, true, false)), (String ((Ascii
    (true, false, true, false, false, true, true, false)), (String ((Ascii
    (false, true, false, false, true, true, true, false)),
    EmptyString))))))))))))))); mt_ids = ((String ((Ascii (false, false,
    false, false, true, false, true, false)), (String ((Ascii (true, false,
    false, false, false, true, true, false)), (String ((Ascii (true, false,
    false, true, false, true, true, false)), (String ((Ascii (false, true,
    false, false, true, true, true, false)), (String ((Ascii (true, false,
    false, true, false, false, true, false)), (String ((Ascii (false, false,
    true, false, false, true, true, false)),
    EmptyString)))))))))))) :: ((String ((Ascii (true, false, false, false,
    false, false, true, false)), (String ((Ascii (false, false, false, false,
    true, true, true, false)), (String ((Ascii (false, false, false, false,
    true, true, true, false)), (String ((Ascii (true, false, false, true,
    false, false, true, false)), (String ((Ascii (false, false, true, false,
    false, true, true, false)), EmptyString)))))))))) :: [])); mt_handler =
    (String ((Ascii (false, false, true, true, false, true, true, false)),
    (String ((Ascii (true, false, false, true, false, true, true, false)),
    (String ((Ascii (true, false, false, false, true, true, true, false)),
    (String ((Ascii (true, false, true, false, true, true, true, false)),
    (String ((Ascii (true, false, false, true, false, true, true, false)),
    (String ((Ascii (false, false, true, false, false, true, true, false)),
    (String ((Ascii (true, false, false, true, false, true, true, false)),
    (String ((Ascii (false, false, true, false, true, true, true, false)),
    (String ((Ascii (true, false, false, true, true, true, true, false)),
    (String ((Ascii (false, true, true, true, false, true, false, false)),
    (String ((Ascii (false, false, true, true, false, false, true, false)),
    (String ((Ascii (true, false, false, true, false, true, true, false)),
    (String ((Ascii (true, false, true, true, false, true, true, false)),
    (String ((Ascii (true, false, false, true, false, true, true, false)),
    (String ((Ascii (false, false, true, false, true, true, true, false)),
    (String ((Ascii (true, true, true, true, false, false, true, false)),
    (String ((Ascii (false, true, false, false, true, true, true, false)),
    (String ((Ascii (false, false, true, false, false, true, true, false)),
    (String ((Ascii (true, false, true, false, false, true, true, false)),
    (String ((Ascii (false, true, false, false, true, true, true, false)),
    EmptyString)))))))))))))))))))))))))))))))))))))))) } :: ({ mt_module =
    (String ((Ascii (false, false, true, true, false, true, true, false)),
    (String ((Ascii (true, false, false, true, false, true, true, false)),
    (String ((Ascii (true, false, false, false, true, true, true, false)),
    (String ((Ascii (true, false, true, false, true, true, true, false)),
    (String ((Ascii (true, false, false, true, false, true, true, false)),
    (String ((Ascii (false, false, true, false, false, true, true, false)),
    (String ((Ascii (true, false, false, true, false, true, true, false)),
    (String ((Ascii (false, false, true, false, true, true, true, false)),
    (String ((Ascii (true, false, false, true, true, true, true, false)),
    EmptyString)))))))))))))))))); mt_name = (String ((Ascii (true, false,
    true, true, false, false, true, false)), (String ((Ascii (true, true,
    false, false, true, true, true, false)), (String ((Ascii (true, true,
    true, false, false, true, true, false)), (String ((Ascii (true, false,
    true, true, false, false, true, false)), (String ((Ascii (true, false,
    true, true, false, false, true, false)), (String ((Ascii (true, true,
    true, true, false, false, true, false)), (String ((Ascii (false, true,
    false, false, true, true, true, false)), (String ((Ascii (false, false,
    true, false, false, true, true, false)), (String ((Ascii (true, false,
    true, false, false, true, true, false)), (String ((Ascii (false, true,
    false, false, true, true, true, false)), EmptyString))))))))))))))))))));
    mt_signer = (Some (String ((Ascii (true, true, true, true, false, false,
    true, false)), (String ((Ascii (false, true, false, false, true, true,
    true, false)), (String ((Ascii (false, false, true, false, false, true,
    true, false)), (String ((Ascii (true, false, true, false, false, true,
    true, false)), (String ((Ascii (false, true, false, false, true, true,
    true, false)), (String ((Ascii (true, false, true, false, false, true,
    true, false)), (String ((Ascii (false, true, false, false, true, true,
    true, false)), EmptyString))))))))))))))); mt_ids = ((String ((Ascii
    (true, false, false, false, false, false, true, false)), (String ((Ascii
    (false, false, false, false, true, true, true, false)), (String ((Ascii
    (false, false, false, false, true, true, true, false)), (String ((Ascii
    (true, false, false, true, false, false, true, false)), (String ((Ascii
    (false, false, true, false, false, true, true, false)),
    EmptyString)))))))))) :: ((String ((Ascii (false, false, false, false,
    true, false, true, false)), (String ((Ascii (true, false, false, false,
    false, true, true, false)), (String ((Ascii (true, false, false, true,
    false, true, true, false)), (String ((Ascii (false, true, false, false,
    true, true, true, false)), (String ((Ascii (true, false, false, true,
    false, false, true, false)), (String ((Ascii (false, false, true, false,
    false, true, true, false)), EmptyString)))))))))))) :: [])); mt_handler =
    (String ((Ascii (false, false, true, true, false, true, true, false)),
    (String ((Ascii (true, false, false, true, false, true, true, false)),
    (String ((Ascii (true, false, false, false, true, true, true, false)),
    (String ((Ascii (true, false, true, false, true, true, true, false)),
    (String ((Ascii (true, false, false, true, false, true, true, false)),
    (String ((Ascii (false, false, true, false, false, true, true, false)),
    (String ((Ascii (true, false, false, true, false, true, true, false)),
    (String ((Ascii (false, false, true, false, true, true, true, false)),
    (String ((Ascii (true, false, false, true, true, true, true, false)),
    (String ((Ascii (false, true, true, true, false, true, false, false)),
    (String ((Ascii (true, false, true, true, false, false, true, false)),
    (String ((Ascii (true, false, true, true, false, false, true, false)),
    (String ((Ascii (true, true, true, true, false, false, true, false)),
    (String ((Ascii (false, true, false, false, true, true, true, false)),
    (String ((Ascii (false, false, true, false, false, true, true, false)),
    (String ((Ascii (true, false, true, false, false, true, true, false)),
    (String ((Ascii (false, true, false, false, true, true, true, false)),
    EmptyString)))))))))))))))))))))))))))))))))) } :: ({ mt_module = (String
    ((Ascii (false, false, true, true, false, true, true, false)), (String
    ((Ascii (true, false, false, true, false, true, true, false)), (String
    ((Ascii (true, false, false, false, true, true, true, false)), (String
    ((Ascii (true, false, true, false, true, true, true, false)), (String
    ((Ascii (true, false, false, true, false, true, true, false)), (String
    ((Ascii (false, false, true, false, false, true, true, false)), (String
    ((Ascii (true, false, false, true, false, true, true, false)), (String
    ((Ascii (false, false, true, false, true, true, true, false)), (String
    ((Ascii (true, false, false, true, true, true, true, false)),
    EmptyString)))))))))))))))))); mt_name = (String ((Ascii (true, false,
    true, true, false, false, true, false)), (String ((Ascii (true, true,
    false, false, true, true, true, false)), (String ((Ascii (true, true,
    true, false, false, true, true, false)), (String ((Ascii (true, false,
    true, true, false, false, true, false)), (String ((Ascii (true, false,
    false, false, false, true, true, false)), (String ((Ascii (false, true,
    false, false, true, true, true, false)), (String ((Ascii (true, true,
    false, true, false, true, true, false)), (String ((Ascii (true, false,
    true, false, false, true, true, false)), (String ((Ascii (false, false,
    true, false, true, true, true, false)), (String ((Ascii (true, true,
    true, true, false, false, true, false)), (String ((Ascii (false, true,
    false, false, true, true, true, false)), (String ((Ascii (false, false,
    true, false, false, true, true, false)), (String ((Ascii (true, false,
    true, false, false, true, true, false)), (String ((Ascii (false, true,
    false, false, true, true, true, false)),
    EmptyString)))))))))))))))))))))))))))); mt_signer = (Some (String
    ((Ascii (true, true, true, true, false, false, true, false)), (String
    ((Ascii (false, true, false, false, true, true, true, false)), (String
    ((Ascii (false, false, true, false, false, true, true, false)), (String
    ((Ascii (true, false, true, false, false, true, true, false)), (String
    ((Ascii (false, true, false, false, true, true, true, false)), (String
    ((Ascii (true, false, true, false, false, true, true, false)), (String
    ((Ascii (false, true, false, false, true, true, true, false)),
    EmptyString))))))))))))))); mt_ids = ((String ((Ascii (false, false,
    false, false, true, false, true, false)), (String ((Ascii (true, false,
    false, false, false, true, true, false)), (String ((Ascii (true, false,
    false, true, false, true, true, false)), (String ((Ascii (false, true,
    false, false, true, true, true, false)), (String ((Ascii (true, false,
    false, true, false, false, true, false)), (String ((Ascii (false, false,
    true, false, false, true, true, false)),
    EmptyString)))))))))))) :: ((String ((Ascii (true, false, false, false,
    false, false, true, false)), (String ((Ascii (false, false, false, false,
    true, true, true, false)), (String ((Ascii (false, false, false, false,
    true, true, true, false)), (String ((Ascii (true, false, false, true,
    false, false, true, false)), (String ((Ascii (false, false, true, false,
    false, true, true, false)), EmptyString)))))))))) :: [])); mt_handler =
    (String ((Ascii (false, false, true, true, false, true, true, false)),
    (String ((Ascii (true, false, false, true, false, true, true, false)),
    (String ((Ascii (true, false, false, false, true, true, true, false)),
    (String ((Ascii (true, false, true, false, true, true, true, false)),
    (String ((Ascii (true, false, false, true, false, true, true, false)),
    (String ((Ascii (false, false, true, false, false, true, true, false)),
    (String ((Ascii (true, false, false, true, false, true, true, false)),
    (String ((Ascii (false, false, true, false, true, true, true, false)),
    (String ((Ascii (true, false, false, true, true, true, true, false)),
    (String ((Ascii (false, true, true, true, false, true, false, false)),
    (String ((Ascii (true, false, true, true, false, false, true, false)),
    (String ((Ascii (true, false, false, false, false, true, true, false)),
    (String ((Ascii (false, true, false, false, true, true, true, false)),
    (String ((Ascii (true, true, false, true, false, true, true, false)),
    (String ((Ascii (true, false, true, false, false, true, true, false)),
    (String ((Ascii (false, false, true, false, true, true, true, false)),
    (String ((Ascii (true, true, true, true, false, false, true, false)),
    (String ((Ascii (false, true, false, false, true, true, true, false)),
    (String ((Ascii (false, false, true, false, false, true, true, false)),
    (String ((Ascii (true, false, true, false, false, true, true, false)),
    (String ((Ascii (false, true, false, false, true, true, true, false)),
    EmptyString)))))))))))))))))))))))))))))))))))))))))) } :: ({ mt_module =
    (String ((Ascii (false, false, true, true, false, true, true, false)),
    (String ((Ascii (true, false, false, true, false, true, true, false)),
    (String ((Ascii (true, false, false, false, true, true, true, false)),
    (String ((Ascii (true, false, true, false, true, true, true, false)),
    (String ((Ascii (true, false, false, true, false, true, true, false)),
    (String ((Ascii (false, false, true, false, false, true, true, false)),
    (String ((Ascii (true, false, false, true, false, true, true, false)),
    (String ((Ascii (false, false, true, false, true, true, true, false)),
    (String ((Ascii (true, false, false, true, true, true, true, false)),
    EmptyString)))))))))))))))))); mt_name = (String ((Ascii (true, false,
    true, true, false, false, true, false)), (String ((Ascii (true, true,
    false, false, true, true, true, false)), (String ((Ascii (true, true,
    true, false, false, true, true, false)), (String ((Ascii (true, false,
    true, false, true, false, true, false)), (String ((Ascii (false, true,
    true, true, false, true, true, false)), (String ((Ascii (false, true,
    true, false, false, true, true, false)), (String ((Ascii (true, false,
    false, false, false, true, true, false)), (String ((Ascii (false, true,
    false, false, true, true, true, false)), (String ((Ascii (true, false,
    true, true, false, true, true, false)), EmptyString))))))))))))))))));
    mt_signer = (Some (String ((Ascii (false, true, true, false, false,
    false, true, false)), (String ((Ascii (true, false, false, false, false,
    true, true, false)), (String ((Ascii (false, true, false, false, true,
    true, true, false)), (String ((Ascii (true, false, true, true, false,
    true, true, false)), (String ((Ascii (true, false, true, false, false,
    true, true, false)), (String ((Ascii (false, true, false, false, true,
    true, true, false)), EmptyString))))))))))))); mt_ids = ((String ((Ascii
    (true, false, false, false, false, false, true, false)), (String ((Ascii
    (false, false, false, false, true, true, true, false)), (String ((Ascii
    (false, false, false, false, true, true, true, false)), (String ((Ascii
    (true, false, false, true, false, false, true, false)), (String ((Ascii
    (false, false, true, false, false, true, true, false)),
    EmptyString)))))))))) :: ((String ((Ascii (false, false, false, false,
    true, false, true, false)), (String ((Ascii (true, true, true, true,
    false, true, true, false)), (String ((Ascii (true, true, true, true,
    false, true, true, false)), (String ((Ascii (false, false, true, true,
    false, true, true, false)), (String ((Ascii (true, false, false, true,
    false, false, true, false)), (String ((Ascii (false, false, true, false,
    false, true, true, false)), EmptyString)))))))))))) :: [])); mt_handler =
    (String ((Ascii (false, false, true, true, false, true, true, false)),
    (String ((Ascii (true, false, false, true, false, true, true, false)),
    (String ((Ascii (true, false, false, false, true, true, true, false)),
    (String ((Ascii (true, false, true, false, true, true, true, false)),
    (String ((Ascii (true, false, false, true, false, true, true, false)),
    (String ((Ascii (false, false, true, false, false, true, true, false)),
    (String ((Ascii (true, false, false, true, false, true, true, false)),
    (String ((Ascii (false, false, true, false, true, true, true, false)),
    (String ((Ascii (true, false, false, true, true, true, true, false)),
    (String ((Ascii (false, true, true, true, false, true, false, false)),
    (String ((Ascii (true, false, true, false, true, false, true, false)),
    (String ((Ascii (false, true, true, true, false, true, true, false)),
    (String ((Ascii (false, true, true, false, false, true, true, false)),
    (String ((Ascii (true, false, false, false, false, true, true, false)),
    (String ((Ascii (false, true, false, false, true, true, true, false)),
    (String ((Ascii (true, false, true, true, false, true, true, false)),
    EmptyString)))))))))))))))))))))))))))))))) } :: ({ mt_module = (String
    ((Ascii (false, false, true, true, false, true, true, false)), (String
    ((Ascii (true, false, false, true, false, true, true, false)), (String
    ((Ascii (true, false, false, false, true, true, true, false)), (String
    ((Ascii (true, false, true, false, true, true, true, false)), (String
    ((Ascii (true, false, false, true, false, true, true, false)), (String
    ((Ascii (false, false, true, false, false, true, true, false)), (String
    ((Ascii (true, false, false, true, false, true, true, false)), (String
    ((Ascii (false, false, true, false, true, true, true, false)), (String
    ((Ascii (true, false, false, true, true, true, true, false)),
    EmptyString)))))))))))))))))); mt_name = (String ((Ascii (true, false,
    true, true, false, false, true, false)), (String ((Ascii (true, true,
    false, false, true, true, true, false)), (String ((Ascii (true, true,
    true, false, false, true, true, false)), (String ((Ascii (true, false,
    true, false, true, false, true, false)), (String ((Ascii (false, true,
    true, true, false, true, true, false)), (String ((Ascii (false, true,
    true, false, false, true, true, false)), (String ((Ascii (true, false,
    false, false, false, true, true, false)), (String ((Ascii (false, true,
    false, false, true, true, true, false)), (String ((Ascii (true, false,
    true, true, false, true, true, false)), (String ((Ascii (true, false,
    false, false, false, false, true, false)), (String ((Ascii (false, true,
    true, true, false, true, true, false)), (String ((Ascii (false, false,
    true, false, false, true, true, false)), (String ((Ascii (true, true,
    true, false, true, false, true, false)), (String ((Ascii (true, false,
    false, true, false, true, true, false)), (String ((Ascii (false, false,
    true, false, true, true, true, false)), (String ((Ascii (false, false,
    false, true, false, true, true, false)), (String ((Ascii (false, false,
    true, false, false, true, true, false)), (String ((Ascii (false, true,
    false, false, true, true, true, false)), (String ((Ascii (true, false,
    false, false, false, true, true, false)), (String ((Ascii (true, true,
    true, false, true, true, true, false)),
    EmptyString)))))))))))))))))))))))))))))))))))))))); mt_signer = (Some
    (String ((Ascii (false, true, true, false, false, false, true, false)),
    (String ((Ascii (true, false, false, false, false, true, true, false)),
    (String ((Ascii (false, true, false, false, true, true, true, false)),
    (String ((Ascii (true, false, true, true, false, true, true, false)),
    (String ((Ascii (true, false, true, false, false, true, true, false)),
    (String ((Ascii (false, true, false, false, true, true, true, false)),
    EmptyString))))))))))))); mt_ids = ((String ((Ascii (true, false, false,
    false, false, false, true, false)), (String ((Ascii (false, false, false,
    false, true, true, true, false)), (String ((Ascii (false, false, false,
    false, true, true, true, false)), (String ((Ascii (true, false, false,
    true, false, false, true, false)), (String ((Ascii (false, false, true,
    false, false, true, true, false)), EmptyString)))))))))) :: ((String
    ((Ascii (false, false, false, false, true, false, true, false)), (String
    ((Ascii (true, true, true, true, false, true, true, false)), (String
    ((Ascii (true, true, true, true, false, true, true, false)), (String
    ((Ascii (false, false, true, true, false, true, true, false)), (String
    ((Ascii (true, false, false, true, false, false, true, false)), (String
    ((Ascii (false, false, true, false, false, true, true, false)),
    EmptyString)))))))))))) :: [])); mt_handler = (String ((Ascii (false,
    false, true, true, false, true, true, false)), (String ((Ascii (true,
    false, false, true, false, true, true, false)), (String ((Ascii (true,
    false, false, false, true, true, true, false)), (String ((Ascii (true,
    false, true, false, true, true, true, false)), (String ((Ascii (true,
    false, false, true, false, true, true, false)), (String ((Ascii (false,
    false, true, false, false, true, true, false)), (String ((Ascii (true,
    false, false, true, false, true, true, false)), (String ((Ascii (false,
    false, true, false, true, true, true, false)), (String ((Ascii (true,
    false, false, true, true, true, true, false)), (String ((Ascii (false,
    true, true, true, false, true, false, false)), (String ((Ascii (true,
    false, true, false, true, false, true, false)), (String ((Ascii (false,
    true, true, true, false, true, true, false)), (String ((Ascii (false,
    true, true, false, false, true, true, false)), (String ((Ascii (true,
    false, false, false, false, true, true, false)), (String ((Ascii (false,
    true, false, false, true, true, true, false)), (String ((Ascii (true,
    false, true, true, false, true, true, false)), (String ((Ascii (true,
    false, false, false, false, false, true, false)), (String ((Ascii (false,
    true, true, true, false, true, true, false)), (String ((Ascii (false,
    false, true, false, false, true, true, false)), (String ((Ascii (true,
    true, true, false, true, false, true, false)), (String ((Ascii (true,
    false, false, true, false, true, true, false)), (String ((Ascii (false,
    false, true, false, true, true, true, false)), (String ((Ascii (false,
    false, false, true, false, true, true, false)), (String ((Ascii (false,
    false, true, false, false, true, true, false)), (String ((Ascii (false,
    true, false, false, true, true, true, false)), (String ((Ascii (true,
    false, false, false, false, true, true, false)), (String ((Ascii (true,
    true, true, false, true, true, true, false)),
    EmptyString)))))))))))))))))))))))))))))))))))))))))))))))))))))) } :: ({ mt_module =
    (String ((Ascii (false, false, true, true, false, true, true, false)),
    (String ((Ascii (true, false, false, true, false, true, true, false)),
    (String ((Ascii (true, false, false, false, true, true, true, false)),
    (String ((Ascii (true, false, true, false, true, true, true, false)),
    (String ((Ascii (true, false, false, true, false, true, true, false)),
    (String ((Ascii (false, false, true, false, false, true, true, false)),
    (String ((Ascii (true, false, false, true, false, true, true, false)),
    (String ((Ascii (false, false, true, false, true, true, true, false)),
    (String ((Ascii (true, false, false, true, true, true, true, false)),
    EmptyString)))))))))))))))))); mt_name = (String ((Ascii (true, false,
    true, true, false, false, true, false)), (String ((Ascii (true, true,
    false, false, true, true, true, false)), (String ((Ascii (true, true,
    true, false, false, true, true, false)), (String ((Ascii (true, true,
    true, false, true, false, true, false)), (String ((Ascii (true, false,
    false, true, false, true, true, false)), (String ((Ascii (false, false,
    true, false, true, true, true, false)), (String ((Ascii (false, false,
    false, true, false, true, true, false)), (String ((Ascii (false, false,
    true, false, false, true, true, false)), (String ((Ascii (false, true,
    false, false, true, true, true, false)), (String ((Ascii (true, false,
    false, false, false, true, true, false)), (String ((Ascii (true, true,
    true, false, true, true, true, false)),
    EmptyString)))))))))))))))))))))); mt_signer = (Some (String ((Ascii
    (true, true, true, false, true, false, true, false)), (String ((Ascii
    (true, false, false, true, false, true, true, false)), (String ((Ascii
    (false, false, true, false, true, true, true, false)), (String ((Ascii
    (false, false, false, true, false, true, true, false)), (String ((Ascii
    (false, false, true, false, false, true, true, false)), (String ((Ascii
    (false, true, false, false, true, true, true, false)), (String ((Ascii
    (true, false, false, false, false, true, true, false)), (String ((Ascii
    (true, true, true, false, true, true, true, false)), (String ((Ascii
    (true, false, true, false, false, true, true, false)), (String ((Ascii
    (false, true, false, false, true, true, true, false)),
    EmptyString))))))))))))))))))))); mt_ids = ((String ((Ascii (false,
    false, false, false, true, false, true, false)), (String ((Ascii (true,
    true, true, true, false, true, true, false)), (String ((Ascii (true,
    true, true, true, false, true, true, false)), (String ((Ascii (false,
    false, true, true, false, true, true, false)), (String ((Ascii (true,
    false, false, true, false, false, true, false)), (String ((Ascii (false,
    false, true, false, false, true, true, false)),
    EmptyString)))))))))))) :: ((String ((Ascii (true, false, false, false,
    false, false, true, false)), (String ((Ascii (false, false, false, false,
    true, true, true, false)), (String ((Ascii (false, false, false, false,
    true, true, true, false)), (String ((Ascii (true, false, false, true,
    false, false, true, false)), (String ((Ascii (false, false, true, false,
    false, true, true, false)), EmptyString)))))))))) :: [])); mt_handler =
    (String ((Ascii (false, false, true, true, false, true, true, false)),
    (String ((Ascii (true, false, false, true, false, true, true, false)),
    (String ((Ascii (true, false, false, false, true, true, true, false)),
    (String ((Ascii (true, false, true, false, true, true, true, false)),
    (String ((Ascii (true, false, false, true, false, true, true, false)),
    (String ((Ascii (false, false, true, false, false, true, true, false)),
    (String ((Ascii (true, false, false, true, false, true, true, false)),
    (String ((Ascii (false, false, true, false, true, true, true, false)),
    (String ((Ascii (true, false, false, true, true, true, true, false)),
    (String ((Ascii (false, true, true, true, false, true, false, false)),
    (String ((Ascii (true, true, true, false, true, false, true, false)),
    (String ((Ascii (true, false, false, true, false, true, true, false)),
    (String ((Ascii (false, false, true, false, true, true, true, false)),
    (String ((Ascii (false, false, false, true, false, true, true, false)),
    (String ((Ascii (false, false, true, false, false, true, true, false)),
    (String ((Ascii (false, true, false, false, true, true, true, false)),
    (String ((Ascii (true, false, false, false, false, true, true, false)),
    (String ((Ascii (true, true, true, false, true, true, true, false)),
    EmptyString)))))))))))))))))))))))))))))))))))) } :: ({ mt_module =
    (String ((Ascii (false, false, true, true, false, true, true, false)),
    (String ((Ascii (true, true, true, true, false, true, true, false)),
    (String ((Ascii (true, true, false, false, false, true, true, false)),
    (String ((Ascii (true, true, false, true, false, true, true, false)),
    (String ((Ascii (true, false, true, false, false, true, true, false)),
    (String ((Ascii (false, true, false, false, true, true, true, false)),
    EmptyString)))))))))))); mt_name = (String ((Ascii (true, false, true,
    true, false, false, true, false)), (String ((Ascii (true, true, false,
    false, true, true, true, false)), (String ((Ascii (true, true, true,
    false, false, true, true, false)), (String ((Ascii (true, false, false,
    false, false, false, true, false)), (String ((Ascii (false, false, true,
    false, false, true, true, false)), (String ((Ascii (false, false, true,
    false, false, true, true, false)), (String ((Ascii (true, true, true,
    false, true, false, true, false)), (String ((Ascii (false, false, false,
    true, false, true, true, false)), (String ((Ascii (true, false, false,
    true, false, true, true, false)), (String ((Ascii (false, false, true,
    false, true, true, true, false)), (String ((Ascii (true, false, true,
    false, false, true, true, false)), (String ((Ascii (false, false, true,
    true, false, false, true, false)), (String ((Ascii (true, false, false,
    true, false, true, true, false)), (String ((Ascii (true, true, false,
    false, true, true, true, false)), (String ((Ascii (false, false, true,
    false, true, true, true, false)), (String ((Ascii (true, false, true,
    false, false, true, true, false)), (String ((Ascii (false, false, true,
    false, false, true, true, false)), (String ((Ascii (true, false, false,
    false, false, false, true, false)), (String ((Ascii (true, true, false,
    false, true, true, true, false)), (String ((Ascii (true, true, false,
    false, true, true, true, false)), (String ((Ascii (true, false, true,
    false, false, true, true, false)), (String ((Ascii (false, false, true,
    false, true, true, true, false)), (String ((Ascii (false, true, false,
    false, true, false, true, false)), (String ((Ascii (true, false, true,
    false, false, true, true, false)), (String ((Ascii (true, false, false,
    false, true, true, true, false)), (String ((Ascii (true, false, true,
    false, true, true, true, false)), (String ((Ascii (true, false, true,
    false, false, true, true, false)), (String ((Ascii (true, true, false,
    false, true, true, true, false)), (String ((Ascii (false, false, true,
    false, true, true, true, false)),
    EmptyString))))))))))))))))))))))))))))))))))))))))))))))))))))))))));
    mt_signer = (Some (String ((Ascii (false, true, true, false, false,
    false, true, false)), (String ((Ascii (false, true, false, false, true,
    true, true, false)), (String ((Ascii (true, true, true, true, false,
    true, true, false)), (String ((Ascii (true, false, true, true, false,
    true, true, false)), EmptyString))))))))); mt_ids = ((String ((Ascii
    (true, false, false, false, false, false, true, false)), (String ((Ascii
    (false, false, false, false, true, true, true, false)), (String ((Ascii
    (false, false, false, false, true, true, true, false)), (String ((Ascii
    (true, false, false, true, false, false, true, false)), (String ((Ascii
    (false, false, true, false, false, true, true, false)),
    EmptyString)))))))))) :: ((String ((Ascii (true, false, false, false,
    false, false, true, false)), (String ((Ascii (true, true, false, false,
    true, true, true, false)), (String ((Ascii (true, true, false, false,
    true, true, true, false)), (String ((Ascii (true, false, true, false,
    false, true, true, false)), (String ((Ascii (false, false, true, false,
    true, true, true, false)), (String ((Ascii (true, false, false, true,
    false, false, true, false)), (String ((Ascii (false, false, true, false,
    false, true, true, false)), EmptyString)))))))))))))) :: []));
    mt_handler = EmptyString } :: ({ mt_module = (String ((Ascii (false,
    false, true, true, false, true, true, false)), (String ((Ascii (true,
    true, true, true, false, true, true, false)), (String ((Ascii (true,
    true, false, false, false, true, true, false)), (String ((Ascii (true,
    true, false, true, false, true, true, false)), (String ((Ascii (true,
    false, true, false, false, true, true, false)), (String ((Ascii (false,
    true, false, false, true, true, true, false)), EmptyString))))))))))));
    mt_name = (String ((Ascii (true, false, true, true, false, false, true,
    false)), (String ((Ascii (true, true, false, false, true, true, true,
    false)), (String ((Ascii (true, true, true, false, false, true, true,
    false)), (String ((Ascii (true, true, false, false, false, false, true,
    false)), (String ((Ascii (false, false, true, true, false, true, true,
    false)), (String ((Ascii (true, true, true, true, false, true, true,
    false)), (String ((Ascii (true, true, false, false, true, true, true,
    false)), (String ((Ascii (true, false, true, false, false, true, true,
    false)), (String ((Ascii (false, false, true, true, false, false, true,
    false)), (String ((Ascii (true, true, true, true, false, true, true,
    false)), (String ((Ascii (true, true, false, false, false, true, true,
    false)), (String ((Ascii (true, true, false, true, false, true, true,
    false)), (String ((Ascii (true, false, true, false, false, true, true,
    false)), (String ((Ascii (false, true, false, false, true, true, true,
    false)), (String ((Ascii (false, true, false, false, true, false, true,
    false)), (String ((Ascii (true, false, true, false, false, true, true,
    false)), (String ((Ascii (true, false, false, false, true, true, true,
    false)), (String ((Ascii (true, false, true, false, true, true, true,
    false)), (String ((Ascii (true, false, true, false, false, true, true,
    false)), (String ((Ascii (true, true, false, false, true, true, true,
    false)), (String ((Ascii (false, false, true, false, true, true, true,
    false)), EmptyString))))))))))))))))))))))))))))))))))))))))));
    mt_signer = (Some (String ((Ascii (false, false, true, false, false,
    false, true, false)), (String ((Ascii (true, false, true, false, false,
    true, true, false)), (String ((Ascii (false, false, false, false, true,
    true, true, false)), (String ((Ascii (true, true, true, true, false,
    true, true, false)), (String ((Ascii (true, true, false, false, true,
    true, true, false)), (String ((Ascii (true, false, false, true, false,
    true, true, false)), (String ((Ascii (false, false, true, false, true,
    true, true, false)), (String ((Ascii (true, true, true, true, false,
    true, true, false)), (String ((Ascii (false, true, false, false, true,
    true, true, false)), EmptyString))))))))))))))))))); mt_ids = ((String
    ((Ascii (true, false, false, false, false, false, true, false)), (String
    ((Ascii (false, false, false, false, true, true, true, false)), (String
    ((Ascii (false, false, false, false, true, true, true, false)), (String
    ((Ascii (true, false, false, true, false, false, true, false)), (String
    ((Ascii (false, false, true, false, false, true, true, false)),
    EmptyString)))))))))) :: ((String ((Ascii (true, false, false, false,
    false, false, true, false)), (String ((Ascii (true, true, false, false,
    true, true, true, false)), (String ((Ascii (true, true, false, false,
    true, true, true, false)), (String ((Ascii (true, false, true, false,
    false, true, true, false)), (String ((Ascii (false, false, true, false,
    true, true, true, false)), (String ((Ascii (true, false, false, true,
    false, false, true, false)), (String ((Ascii (false, false, true, false,
    false, true, true, false)), EmptyString)))))))))))))) :: ((String ((Ascii
    (false, false, true, true, false, false, true, false)), (String ((Ascii
    (true, true, true, true, false, true, true, false)), (String ((Ascii
    (true, true, false, false, false, true, true, false)), (String ((Ascii
    (true, true, false, true, false, true, true, false)), (String ((Ascii
    (true, false, true, false, false, true, true, false)), (String ((Ascii
    (false, true, false, false, true, true, true, false)), (String ((Ascii
    (true, false, false, true, false, false, true, false)), (String ((Ascii
    (false, false, true, false, false, true, true, false)),
    EmptyString)))))))))))))))) :: []))); mt_handler = (String ((Ascii
    (false, false, true, true, false, true, true, false)), (String ((Ascii
    (true, true, true, true, false, true, true, false)), (String ((Ascii
    (true, true, false, false, false, true, true, false)), (String ((Ascii
    (true, true, false, true, false, true, true, false)), (String ((Ascii
    (true, false, true, false, false, true, true, false)), (String ((Ascii
    (false, true, false, false, true, true, true, false)), (String ((Ascii
    (false, true, true, true, false, true, false, false)), (String ((Ascii
    (true, false, true, true, false, false, true, false)), (String ((Ascii
    (true, true, false, false, true, true, true, false)), (String ((Ascii
    (true, true, true, false, false, true, true, false)), (String ((Ascii
    (true, true, false, false, false, false, true, false)), (String ((Ascii
    (false, false, true, true, false, true, true, false)), (String ((Ascii
    (true, true, true, true, false, true, true, false)), (String ((Ascii
    (true, true, false, false, true, true, true, false)), (String ((Ascii
    (true, false, true, false, false, true, true, false)), (String ((Ascii
    (false, false, true, true, false, false, true, false)), (String ((Ascii
    (true, true, true, true, false, true, true, false)), (String ((Ascii
    (true, true, false, false, false, true, true, false)), (String ((Ascii
    (true, true, false, true, false, true, true, false)), (String ((Ascii
    (true, false, true, false, false, true, true, false)), (String ((Ascii
    (false, true, false, false, true, true, true, false)),
    EmptyString)))))))))))))))))))))))))))))))))))))))))) } :: ({ mt_module =
    (String ((Ascii (false, false, true, true, false, true, true, false)),
    (String ((Ascii (true, true, true, true, false, true, true, false)),
    (String ((Ascii (true, true, false, false, false, true, true, false)),
    (String ((Ascii (true, true, false, true, false, true, true, false)),
    (String ((Ascii (true, false, true, false, false, true, true, false)),
    (String ((Ascii (false, true, false, false, true, true, true, false)),
    EmptyString)))))))))))); mt_name = (String ((Ascii (true, false, true,
    true, false, false, true, false)), (String ((Ascii (true, true, false,
    false, true, true, true, false)), (String ((Ascii (true, true, true,
    false, false, true, true, false)), (String ((Ascii (true, true, false,
    false, false, false, true, false)), (String ((Ascii (false, true, false,
    false, true, true, true, false)), (String ((Ascii (true, false, true,
    false, false, true, true, false)), (String ((Ascii (true, false, false,
    false, false, true, true, false)), (String ((Ascii (false, false, true,
    false, true, true, true, false)), (String ((Ascii (true, false, true,
    false, false, true, true, false)), (String ((Ascii (false, false, true,
    true, false, false, true, false)), (String ((Ascii (true, true, true,
    true, false, true, true, false)), (String ((Ascii (true, true, false,
    false, false, true, true, false)), (String ((Ascii (true, true, false,
    true, false, true, true, false)), (String ((Ascii (true, false, true,
    false, false, true, true, false)), (String ((Ascii (false, true, false,
    false, true, true, true, false)), (String ((Ascii (false, true, false,
    false, true, false, true, false)), (String ((Ascii (true, false, true,
    false, false, true, true, false)), (String ((Ascii (true, false, false,
    false, true, true, true, false)), (String ((Ascii (true, false, true,
    false, true, true, true, false)), (String ((Ascii (true, false, true,
    false, false, true, true, false)), (String ((Ascii (true, true, false,
    false, true, true, true, false)), (String ((Ascii (false, false, true,
    false, true, true, true, false)),
    EmptyString)))))))))))))))))))))))))))))))))))))))))))); mt_signer =
    (Some (String ((Ascii (false, false, true, false, false, false, true,
    false)), (String ((Ascii (true, false, true, false, false, true, true,
    false)), (String ((Ascii (false, false, false, false, true, true, true,
    false)), (String ((Ascii (true, true, true, true, false, true, true,
    false)), (String ((Ascii (true, true, false, false, true, true, true,
    false)), (String ((Ascii (true, false, false, true, false, true, true,
    false)), (String ((Ascii (false, false, true, false, true, true, true,
    false)), (String ((Ascii (true, true, true, true, false, true, true,
    false)), (String ((Ascii (false, true, false, false, true, true, true,
    false)), EmptyString))))))))))))))))))); mt_ids = ((String ((Ascii (true,
    false, false, false, false, false, true, false)), (String ((Ascii (true,
    true, false, false, true, true, true, false)), (String ((Ascii (true,
    true, false, false, true, true, true, false)), (String ((Ascii (true,
    false, true, false, false, true, true, false)), (String ((Ascii (false,
    false, true, false, true, true, true, false)), (String ((Ascii (true,
    false, false, true, false, false, true, false)), (String ((Ascii (false,
    false, true, false, false, true, true, false)),
    EmptyString)))))))))))))) :: ((String ((Ascii (true, false, false, false,
    false, false, true, false)), (String ((Ascii (false, false, false, false,
    true, true, true, false)), (String ((Ascii (false, false, false, false,
    true, true, true, false)), (String ((Ascii (true, false, false, true,
    false, false, true, false)), (String ((Ascii (false, false, true, false,
    false, true, true, false)), EmptyString)))))))))) :: [])); mt_handler =
    (String ((Ascii (false, false, true, true, false, true, true, false)),
    (String ((Ascii (true, true, true, true, false, true, true, false)),
    (String ((Ascii (true, true, false, false, false, true, true, false)),
    (String ((Ascii (true, true, false, true, false, true, true, false)),
    (String ((Ascii (true, false, true, false, false, true, true, false)),
    (String ((Ascii (false, true, false, false, true, true, true, false)),
    (String ((Ascii (false, true, true, true, false, true, false, false)),
    (String ((Ascii (true, false, true, true, false, false, true, false)),
    (String ((Ascii (true, true, false, false, true, true, true, false)),
    (String ((Ascii (true, true, true, false, false, true, true, false)),
    (String ((Ascii (true, true, false, false, false, false, true, false)),
    (String ((Ascii (false, true, false, false, true, true, true, false)),
    (String ((Ascii (true, false, true, false, false, true, true, false)),
    (String ((Ascii (true, false, false, false, false, true, true, false)),
    (String ((Ascii (false, false, true, false, true, true, true, false)),
    (String ((Ascii (true, false, true, false, false, true, true, false)),
    (String ((Ascii (false, false, true, true, false, false, true, false)),
    (String ((Ascii (true, true, true, true, false, true, true, false)),
    (String ((Ascii (true, true, false, false, false, true, true, false)),
    (String ((Ascii (true, true, false, true, false, true, true, false)),
    (String ((Ascii (true, false, true, false, false, true, true, false)),
    (String ((Ascii (false, true, false, false, true, true, true, false)),
    EmptyString)))))))))))))))))))))))))))))))))))))))))))) } :: ({ mt_module =
    (String ((Ascii (false, false, true, true, false, true, true, false)),
    (String ((Ascii (true, true, true, true, false, true, true, false)),
    (String ((Ascii (true, true, false, false, false, true, true, false)),
    (String ((Ascii (true, true, false, true, false, true, true, false)),
    (String ((Ascii (true, false, true, false, false, true, true, false)),
    (String ((Ascii (false, true, false, false, true, true, true, false)),
    EmptyString)))))))))))); mt_name = (String ((Ascii (true, false, true,
    true, false, false, true, false)), (String ((Ascii (true, true, false,
    false, true, true, true, false)), (String ((Ascii (true, true, true,
    false, false, true, true, false)), (String ((Ascii (false, false, true,
    false, false, false, true, false)), (String ((Ascii (true, false, true,
    false, false, true, true, false)), (String ((Ascii (false, false, false,
    false, true, true, true, false)), (String ((Ascii (true, true, true,
    true, false, true, true, false)), (String ((Ascii (true, true, false,
    false, true, true, true, false)), (String ((Ascii (true, false, false,
    true, false, true, true, false)), (String ((Ascii (false, false, true,
    false, true, true, true, false)), (String ((Ascii (true, false, false,
    false, false, false, true, false)), (String ((Ascii (true, true, false,
    false, true, true, true, false)), (String ((Ascii (true, true, false,
    false, true, true, true, false)), (String ((Ascii (true, false, true,
    false, false, true, true, false)), (String ((Ascii (false, false, true,
    false, true, true, true, false)), (String ((Ascii (false, true, false,
    false, true, false, true, false)), (String ((Ascii (true, false, true,
    false, false, true, true, false)), (String ((Ascii (true, false, false,
    false, true, true, true, false)), (String ((Ascii (true, false, true,
    false, true, true, true, false)), (String ((Ascii (true, false, true,
    false, false, true, true, false)), (String ((Ascii (true, true, false,
    false, true, true, true, false)), (String ((Ascii (false, false, true,
    false, true, true, true, false)),
    EmptyString)))))))))))))))))))))))))))))))))))))))))))); mt_signer =
    (Some (String ((Ascii (false, false, true, false, false, false, true,
    false)), (String ((Ascii (true, false, true, false, false, true, true,
    false)), (String ((Ascii (false, false, false, false, true, true, true,
    false)), (String ((Ascii (true, true, true, true, false, true, true,
    false)), (String ((Ascii (true, true, false, false, true, true, true,
    false)), (String ((Ascii (true, false, false, true, false, true, true,
    false)), (String ((Ascii (false, false, true, false, true, true, true,
    false)), (String ((Ascii (true, true, true, true, false, true, true,
    false)), (String ((Ascii (false, true, false, false, true, true, true,
    false)), EmptyString))))))))))))))))))); mt_ids = ((String ((Ascii
    (false, false, true, true, false, false, true, false)), (String ((Ascii
    (true, true, true, true, false, true, true, false)), (String ((Ascii
    (true, true, false, false, false, true, true, false)), (String ((Ascii
    (true, true, false, true, false, true, true, false)), (String ((Ascii
    (true, false, true, false, false, true, true, false)), (String ((Ascii
    (false, true, false, false, true, true, true, false)), (String ((Ascii
    (true, false, false, true, false, false, true, false)), (String ((Ascii
    (false, false, true, false, false, true, true, false)),
    EmptyString)))))))))))))))) :: ((String ((Ascii (true, false, false,
    false, false, false, true, false)), (String ((Ascii (true, true, false,
    false, true, true, true, false)), (String ((Ascii (true, true, false,
    false, true, true, true, false)), (String ((Ascii (true, false, true,
    false, false, true, true, false)), (String ((Ascii (false, false, true,
    false, true, true, true, false)), (String ((Ascii (true, false, false,
    true, false, false, true, false)), (String ((Ascii (false, false, true,
    false, false, true, true, false)), EmptyString)))))))))))))) :: ((String
    ((Ascii (true, false, false, false, false, false, true, false)), (String
    ((Ascii (false, false, false, false, true, true, true, false)), (String
    ((Ascii (false, false, false, false, true, true, true, false)), (String
    ((Ascii (true, false, false, true, false, false, true, false)), (String
    ((Ascii (false, false, true, false, false, true, true, false)),
    EmptyString)))))))))) :: []))); mt_handler = (String ((Ascii (false,
    false, true, true, false, true, true, false)), (String ((Ascii (true,
    true, true, true, false, true, true, false)), (String ((Ascii (true,
    true, false, false, false, true, true, false)), (String ((Ascii (true,
    true, false, true, false, true, true, false)), (String ((Ascii (true,
    false, true, false, false, true, true, false)), (String ((Ascii (false,
    true, false, false, true, true, true, false)), (String ((Ascii (false,
    true, true, true, false, true, false, false)), (String ((Ascii (true,
    false, true, true, false, false, true, false)), (String ((Ascii (true,
    true, false, false, true, true, true, false)), (String ((Ascii (true,
    true, true, false, false, true, true, false)), (String ((Ascii (false,
    false, true, false, false, false, true, false)), (String ((Ascii (true,
    false, true, false, false, true, true, false)), (String ((Ascii (false,
    false, false, false, true, true, true, false)), (String ((Ascii (true,
    true, true, true, false, true, true, false)), (String ((Ascii (true,
    true, false, false, true, true, true, false)), (String ((Ascii (true,
    false, false, true, false, true, true, false)), (String ((Ascii (false,
    false, true, false, true, true, true, false)), (String ((Ascii (true,
    false, false, false, false, false, true, false)), (String ((Ascii (true,
    true, false, false, true, true, true, false)), (String ((Ascii (true,
    true, false, false, true, true, true, false)), (String ((Ascii (true,
    false, true, false, false, true, true, false)), (String ((Ascii (false,
    false, true, false, true, true, true, false)),
    EmptyString)))))))))))))))))))))))))))))))))))))))))))) } :: ({ mt_module =
    (String ((Ascii (false, false, true, true, false, true, true, false)),
    (String ((Ascii (true, true, true, true, false, true, true, false)),
    (String ((Ascii (true, true, false, false, false, true, true, false)),
    (String ((Ascii (true, true, false, true, false, true, true, false)),
    (String ((Ascii (true, false, true, false, false, true, true, false)),
    (String ((Ascii (false, true, false, false, true, true, true, false)),
    EmptyString)))))))))))); mt_name = (String ((Ascii (true, false, true,
    true, false, false, true, false)), (String ((Ascii (true, true, false,
    false, true, true, true, false)), (String ((Ascii (true, true, true,
    false, false, true, true, false)), (String ((Ascii (false, false, true,
    true, false, false, true, false)), (String ((Ascii (true, true, true,
    true, false, true, true, false)), (String ((Ascii (true, true, false,
    false, false, true, true, false)), (String ((Ascii (true, true, false,
    true, false, true, true, false)), (String ((Ascii (true, false, true,
    false, false, true, true, false)), (String ((Ascii (false, true, false,
    false, true, true, true, false)), (String ((Ascii (false, true, false,
    false, true, false, true, false)), (String ((Ascii (true, false, true,
    false, false, true, true, false)), (String ((Ascii (true, true, true,
    false, true, true, true, false)), (String ((Ascii (true, false, false,
    false, false, true, true, false)), (String ((Ascii (false, true, false,
    false, true, true, true, false)), (String ((Ascii (false, false, true,
    false, false, true, true, false)), (String ((Ascii (true, true, false,
    false, false, false, true, false)), (String ((Ascii (true, false, false,
    false, false, true, true, false)), (String ((Ascii (false, false, true,
    true, false, true, true, false)), (String ((Ascii (true, true, false,
    false, false, true, true, false)), (String ((Ascii (false, true, false,
    false, true, false, true, false)), (String ((Ascii (true, false, true,
    false, false, true, true, false)), (String ((Ascii (true, false, false,
    false, true, true, true, false)), (String ((Ascii (true, false, true,
    false, true, true, true, false)), (String ((Ascii (true, false, true,
    false, false, true, true, false)), (String ((Ascii (true, true, false,
    false, true, true, true, false)), (String ((Ascii (false, false, true,
    false, true, true, true, false)),
    EmptyString))))))))))))))))))))))))))))))))))))))))))))))))))));
    mt_signer = (Some (String ((Ascii (false, true, true, false, false,
    false, true, false)), (String ((Ascii (false, true, false, false, true,
    true, true, false)), (String ((Ascii (true, true, true, true, false,
    true, true, false)), (String ((Ascii (true, false, true, true, false,
    true, true, false)), EmptyString))))))))); mt_ids = ((String ((Ascii
    (true, false, false, false, false, false, true, false)), (String ((Ascii
    (false, false, false, false, true, true, true, false)), (String ((Ascii
    (false, false, false, false, true, true, true, false)), (String ((Ascii
    (true, false, false, true, false, false, true, false)), (String ((Ascii
    (false, false, true, false, false, true, true, false)),
    EmptyString)))))))))) :: ((String ((Ascii (false, false, true, true,
    false, false, true, false)), (String ((Ascii (true, true, true, true,
    false, true, true, false)), (String ((Ascii (true, true, false, false,
    false, true, true, false)), (String ((Ascii (true, true, false, true,
    false, true, true, false)), (String ((Ascii (true, false, true, false,
    false, true, true, false)), (String ((Ascii (false, true, false, false,
    true, true, true, false)), (String ((Ascii (true, false, false, true,
    false, false, true, false)), (String ((Ascii (false, false, true, false,
    false, true, true, false)), EmptyString)))))))))))))))) :: []));
    mt_handler = (String ((Ascii (false, false, true, true, false, true,
    true, false)), (String ((Ascii (true, true, true, true, false, true,
    true, false)), (String ((Ascii (true, true, false, false, false, true,
    true, false)), (String ((Ascii (true, true, false, true, false, true,
    true, false)), (String ((Ascii (true, false, true, false, false, true,
    true, false)), (String ((Ascii (false, true, false, false, true, true,
    true, false)), (String ((Ascii (false, true, true, true, false, true,
    false, false)), (String ((Ascii (true, false, true, true, false, false,
    true, false)), (String ((Ascii (true, true, false, false, true, true,
    true, false)), (String ((Ascii (true, true, true, false, false, true,
    true, false)), (String ((Ascii (false, false, true, true, false, false,
    true, false)), (String ((Ascii (true, true, true, true, false, true,
    true, false)), (String ((Ascii (true, true, false, false, false, true,
    true, false)), (String ((Ascii (true, true, false, true, false, true,
    true, false)), (String ((Ascii (true, false, true, false, false, true,
    true, false)), (String ((Ascii (false, true, false, false, true, true,
    true, false)), (String ((Ascii (false, true, false, false, true, false,
    true, false)), (String ((Ascii (true, false, true, false, false, true,
    true, false)), (String ((Ascii (true, true, true, false, true, true,
    true, false)), (String ((Ascii (true, false, false, false, false, true,
    true, false)), (String ((Ascii (false, true, false, false, true, true,
    true, false)), (String ((Ascii (false, false, true, false, false, true,
    true, false)), (String ((Ascii (true, true, false, false, false, false,
    true, false)), (String ((Ascii (true, false, false, false, false, true,
    true, false)), (String ((Ascii (false, false, true, true, false, true,
    true, false)), (String ((Ascii (true, true, false, false, false, true,
    true, false)),
    EmptyString)))))))))))))))))))))))))))))))))))))))))))))))))))) } :: ({ mt_module =
    (String ((Ascii (false, false, true, true, false, true, true, false)),
    (String ((Ascii (true, true, true, true, false, true, true, false)),
    (String ((Ascii (true, true, false, false, false, true, true, false)),
    (String ((Ascii (true, true, false, true, false, true, true, false)),
    (String ((Ascii (true, false, true, false, false, true, true, false)),
    (String ((Ascii (false, true, false, false, true, true, true, false)),
    EmptyString)))))))))))); mt_name = (String ((Ascii (true, false, true,
    true, false, false, true, false)), (String ((Ascii (true, true, false,
    false, true, true, true, false)), (String ((Ascii (true, true, true,
    false, false, true, true, false)), (String ((Ascii (true, true, true,
    false, true, false, true, false)), (String ((Ascii (true, false, false,
    true, false, true, true, false)), (String ((Ascii (false, false, true,
    false, true, true, true, false)), (String ((Ascii (false, false, false,
    true, false, true, true, false)), (String ((Ascii (false, false, true,
    false, false, true, true, false)), (String ((Ascii (false, true, false,
    false, true, true, true, false)), (String ((Ascii (true, false, false,
    false, false, true, true, false)), (String ((Ascii (true, true, true,
    false, true, true, true, false)), (String ((Ascii (true, false, false,
    false, false, false, true, false)), (String ((Ascii (true, true, false,
    false, true, true, true, false)), (String ((Ascii (true, true, false,
    false, true, true, true, false)), (String ((Ascii (true, false, true,
    false, false, true, true, false)), (String ((Ascii (false, false, true,
    false, true, true, true, false)), (String ((Ascii (false, true, false,
    false, true, false, true, false)), (String ((Ascii (true, false, true,
    false, false, true, true, false)), (String ((Ascii (true, false, false,
    false, true, true, true, false)), (String ((Ascii (true, false, true,
    false, true, true, true, false)), (String ((Ascii (true, false, true,
    false, false, true, true, false)), (String ((Ascii (true, true, false,
    false, true, true, true, false)), (String ((Ascii (false, false, true,
    false, true, true, true, false)),
    EmptyString)))))))))))))))))))))))))))))))))))))))))))))); mt_signer =
    (Some (String ((Ascii (false, false, true, false, false, false, true,
    false)), (String ((Ascii (true, false, true, false, false, true, true,
    false)), (String ((Ascii (false, false, false, false, true, true, true,
    false)), (String ((Ascii (true, true, true, true, false, true, true,
    false)), (String ((Ascii (true, true, false, false, true, true, true,
    false)), (String ((Ascii (true, false, false, true, false, true, true,
    false)), (String ((Ascii (false, false, true, false, true, true, true,
    false)), (String ((Ascii (true, true, true, true, false, true, true,
    false)), (String ((Ascii (false, true, false, false, true, true, true,
    false)), EmptyString))))))))))))))))))); mt_ids = ((String ((Ascii
    (false, false, true, true, false, false, true, false)), (String ((Ascii
    (true, true, true, true, false, true, true, false)), (String ((Ascii
    (true, true, false, false, false, true, true, false)), (String ((Ascii
    (true, true, false, true, false, true, true, false)), (String ((Ascii
    (true, false, true, false, false, true, true, false)), (String ((Ascii
    (false, true, false, false, true, true, true, false)), (String ((Ascii
    (true, false, false, true, false, false, true, false)), (String ((Ascii
    (false, false, true, false, false, true, true, false)),
    EmptyString)))))))))))))))) :: ((String ((Ascii (true, false, false,
    false, false, false, true, false)), (String ((Ascii (true, true, false,
    false, true, true, true, false)), (String ((Ascii (true, true, false,
    false, true, true, true, false)), (String ((Ascii (true, false, true,
    false, false, true, true, false)), (String ((Ascii (false, false, true,
    false, true, true, true, false)), (String ((Ascii (true, false, false,
    true, false, false, true, false)), (String ((Ascii (false, false, true,
    false, false, true, true, false)), EmptyString)))))))))))))) :: ((String
    ((Ascii (true, false, false, false, false, false, true, false)), (String
    ((Ascii (false, false, false, false, true, true, true, false)), (String
    ((Ascii (false, false, false, false, true, true, true, false)), (String
    ((Ascii (true, false, false, true, false, false, true, false)), (String
    ((Ascii (false, false, true, false, false, true, true, false)),
    EmptyString)))))))))) :: []))); mt_handler = (String ((Ascii (false,
    false, true, true, false, true, true, false)), (String ((Ascii (true,
    true, true, true, false, true, true, false)), (String ((Ascii (true,
    true, false, false, false, true, true, false)), (String ((Ascii (true,
    true, false, true, false, true, true, false)), (String ((Ascii (true,
    false, true, false, false, true, true, false)), (String ((Ascii (false,
    true, false, false, true, true, true, false)), (String ((Ascii (false,
    true, true, true, false, true, false, false)), (String ((Ascii (true,
    false, true, true, false, false, true, false)), (String ((Ascii (true,
    true, false, false, true, true, true, false)), (String ((Ascii (true,
    true, true, false, false, true, true, false)), (String ((Ascii (true,
    true, true, false, true, false, true, false)), (String ((Ascii (true,
    false, false, true, false, true, true, false)), (String ((Ascii (false,
    false, true, false, true, true, true, false)), (String ((Ascii (false,
    false, false, true, false, true, true, false)), (String ((Ascii (false,
    false, true, false, false, true, true, false)), (String ((Ascii (false,
    true, false, false, true, true, true, false)), (String ((Ascii (true,
    false, false, false, false, true, true, false)), (String ((Ascii (true,
    true, true, false, true, true, true, false)), (String ((Ascii (true,
    false, false, false, false, false, true, false)), (String ((Ascii (true,
    true, false, false, true, true, true, false)), (String ((Ascii (true,
    true, false, false, true, true, true, false)), (String ((Ascii (true,
    false, true, false, false, true, true, false)), (String ((Ascii (false,
    false, true, false, true, true, true, false)),
    EmptyString)))))))))))))))))))))))))))))))))))))))))))))) } :: ({ mt_module =
    (String ((Ascii (false, true, false, false, true, true, true, false)),
    (String ((Ascii (true, false, true, false, false, true, true, false)),
    (String ((Ascii (true, true, true, false, true, true, true, false)),
    (String ((Ascii (true, false, false, false, false, true, true, false)),
    (String ((Ascii (false, true, false, false, true, true, true, false)),
    (String ((Ascii (false, false, true, false, false, true, true, false)),
    (String ((Ascii (true, true, false, false, true, true, true, false)),
    EmptyString)))))))))))))); mt_name = (String ((Ascii (true, false, false,
    false, false, false, true, false)), (String ((Ascii (true, true, false,
    false, false, true, true, false)), (String ((Ascii (false, false, true,
    false, true, true, true, false)), (String ((Ascii (true, false, false,
    true, false, true, true, false)), (String ((Ascii (false, true, true,
    false, true, true, true, false)), (String ((Ascii (true, false, false,
    false, false, true, true, false)), (String ((Ascii (false, false, true,
    false, true, true, true, false)), (String ((Ascii (true, false, true,
    false, false, true, true, false)), (String ((Ascii (true, false, true,
    false, false, false, true, false)), (String ((Ascii (false, false, false,
    true, true, true, true, false)), (String ((Ascii (false, false, true,
    false, true, true, true, false)), (String ((Ascii (true, false, true,
    false, false, true, true, false)), (String ((Ascii (false, true, false,
    false, true, true, true, false)), (String ((Ascii (false, true, true,
    true, false, true, true, false)), (String ((Ascii (true, false, false,
    false, false, true, true, false)), (String ((Ascii (false, false, true,
    true, false, true, true, false)), (String ((Ascii (false, true, false,
    false, true, false, true, false)), (String ((Ascii (true, false, true,
    false, false, true, true, false)), (String ((Ascii (true, true, true,
    false, true, true, true, false)), (String ((Ascii (true, false, false,
    false, false, true, true, false)), (String ((Ascii (false, true, false,
    false, true, true, true, false)), (String ((Ascii (false, false, true,
    false, false, true, true, false)), (String ((Ascii (true, true, false,
    false, true, true, true, false)), (String ((Ascii (false, false, true,
    true, false, false, true, false)), (String ((Ascii (true, false, true,
    false, false, true, true, false)), (String ((Ascii (false, true, true,
    true, false, true, true, false)), (String ((Ascii (false, false, true,
    false, false, true, true, false)),
    EmptyString))))))))))))))))))))))))))))))))))))))))))))))))))))));
    mt_signer = (Some (String ((Ascii (false, false, true, false, false,
    false, true, false)), (String ((Ascii (true, false, true, false, false,
    true, true, false)), (String ((Ascii (false, false, false, false, true,
    true, true, false)), (String ((Ascii (true, true, true, true, false,
    true, true, false)), (String ((Ascii (true, true, false, false, true,
    true, true, false)), (String ((Ascii (true, false, false, true, false,
    true, true, false)), (String ((Ascii (false, false, true, false, true,
    true, true, false)), (String ((Ascii (true, true, true, true, false,
    true, true, false)), (String ((Ascii (false, true, false, false, true,
    true, true, false)), EmptyString))))))))))))))))))); mt_ids = ((String
    ((Ascii (true, false, false, false, false, false, true, false)), (String
    ((Ascii (false, false, false, false, true, true, true, false)), (String
    ((Ascii (false, false, false, false, true, true, true, false)), (String
    ((Ascii (true, false, true, true, false, false, true, false)), (String
    ((Ascii (true, false, false, false, false, true, true, false)), (String
    ((Ascii (false, false, false, false, true, true, true, false)), (String
    ((Ascii (false, false, false, false, true, true, true, false)), (String
    ((Ascii (true, false, false, true, false, true, true, false)), (String
    ((Ascii (false, true, true, true, false, true, true, false)), (String
    ((Ascii (true, true, true, false, false, true, true, false)), (String
    ((Ascii (true, false, false, true, false, false, true, false)), (String
    ((Ascii (false, false, true, false, false, true, true, false)),
    EmptyString)))))))))))))))))))))))) :: ((String ((Ascii (true, true,
    false, false, false, false, true, false)), (String ((Ascii (false, false,
    false, false, true, false, true, false)), (String ((Ascii (true, true,
    true, true, false, true, true, false)), (String ((Ascii (true, true,
    true, true, false, true, true, false)), (String ((Ascii (false, false,
    true, true, false, true, true, false)), (String ((Ascii (true, false,
    false, true, false, false, true, false)), (String ((Ascii (false, false,
    true, false, false, true, true, false)),
    EmptyString)))))))))))))) :: ((String ((Ascii (true, true, false, false,
    false, false, true, false)), (String ((Ascii (true, true, false, false,
    true, false, true, false)), (String ((Ascii (true, true, true, false,
    true, true, true, false)), (String ((Ascii (true, false, false, false,
    false, true, true, false)), (String ((Ascii (false, false, false, false,
    true, true, true, false)), (String ((Ascii (true, false, false, false,
    false, false, true, false)), (String ((Ascii (false, false, false, false,
    true, true, true, false)), (String ((Ascii (false, false, false, false,
    true, true, true, false)), (String ((Ascii (true, false, false, true,
    false, false, true, false)), (String ((Ascii (false, false, true, false,
    false, true, true, false)), EmptyString)))))))))))))))))))) :: [])));
    mt_handler = (String ((Ascii (false, true, false, false, true, true,
    true, false)), (String ((Ascii (true, false, true, false, false, true,
    true, false)), (String ((Ascii (true, true, true, false, true, true,
    true, false)), (String ((Ascii (true, false, false, false, false, true,
    true, false)), (String ((Ascii (false, true, false, false, true, true,
    true, false)), (String ((Ascii (false, false, true, false, false, true,
    true, false)), (String ((Ascii (true, true, false, false, true, true,
    true, false)), (String ((Ascii (false, true, true, true, false, true,
    false, false)), (String ((Ascii (true, false, true, false, false, false,
    true, false)), (String ((Ascii (false, false, false, true, true, true,
    true, false)), (String ((Ascii (false, false, true, false, true, true,
    true, false)), (String ((Ascii (true, false, true, false, false, true,
    true, false)), (String ((Ascii (false, true, false, false, true, true,
    true, false)), (String ((Ascii (false, true, true, true, false, true,
    true, false)), (String ((Ascii (true, false, false, false, false, true,
    true, false)), (String ((Ascii (false, false, true, true, false, true,
    true, false)), (String ((Ascii (false, true, false, false, true, false,
    true, false)), (String ((Ascii (true, false, true, false, false, true,
    true, false)), (String ((Ascii (true, true, true, false, true, true,
    true, false)), (String ((Ascii (true, false, false, false, false, true,
    true, false)), (String ((Ascii (false, true, false, false, true, true,
    true, false)), (String ((Ascii (false, false, true, false, false, true,
    true, false)), (String ((Ascii (true, true, false, false, true, true,
    true, false)), (String ((Ascii (false, false, true, true, false, false,
    true, false)), (String ((Ascii (true, false, true, false, false, true,
    true, false)), (String ((Ascii (false, true, true, true, false, true,
    true, false)), (String ((Ascii (false, false, true, false, false, true,
    true, false)),
    EmptyString)))))))))))))))))))))))))))))))))))))))))))))))))))))) } :: ({ mt_module =
    (String ((Ascii (false, true, false, false, true, true, true, false)),
    (String ((Ascii (true, false, true, false, false, true, true, false)),
    (String ((Ascii (true, true, true, false, true, true, true, false)),
    (String ((Ascii (true, false, false, false, false, true, true, false)),
    (String ((Ascii (false, true, false, false, true, true, true, false)),
    (String ((Ascii (false, false, true, false, false, true, true, false)),
    (String ((Ascii (true, true, false, false, true, true, true, false)),
    EmptyString)))))))))))))); mt_name = (String ((Ascii (true, false, false,
    false, false, false, true, false)), (String ((Ascii (true, true, false,
    false, false, true, true, false)), (String ((Ascii (false, false, true,
    false, true, true, true, false)), (String ((Ascii (true, false, false,
    true, false, true, true, false)), (String ((Ascii (false, true, true,
    false, true, true, true, false)), (String ((Ascii (true, false, false,
    false, false, true, true, false)), (String ((Ascii (false, false, true,
    false, true, true, true, false)), (String ((Ascii (true, false, true,
    false, false, true, true, false)), (String ((Ascii (true, false, true,
    false, false, false, true, false)), (String ((Ascii (false, false, false,
    true, true, true, true, false)), (String ((Ascii (false, false, true,
    false, true, true, true, false)), (String ((Ascii (true, false, true,
    false, false, true, true, false)), (String ((Ascii (false, true, false,
    false, true, true, true, false)), (String ((Ascii (false, true, true,
    true, false, true, true, false)), (String ((Ascii (true, false, false,
    false, false, true, true, false)), (String ((Ascii (false, false, true,
    true, false, true, true, false)), (String ((Ascii (false, true, false,
    false, true, false, true, false)), (String ((Ascii (true, false, true,
    false, false, true, true, false)), (String ((Ascii (true, true, true,
    false, true, true, true, false)), (String ((Ascii (true, false, false,
    false, false, true, true, false)), (String ((Ascii (false, true, false,
    false, true, true, true, false)), (String ((Ascii (false, false, true,
    false, false, true, true, false)), (String ((Ascii (true, true, false,
    false, true, true, true, false)), (String ((Ascii (false, false, true,
    true, false, false, true, false)), (String ((Ascii (true, true, true,
    true, false, true, true, false)), (String ((Ascii (true, true, false,
    false, false, true, true, false)), (String ((Ascii (true, true, false,
    true, false, true, true, false)), (String ((Ascii (true, false, true,
    false, false, true, true, false)), (String ((Ascii (false, true, false,
    false, true, true, true, false)), (String ((Ascii (true, true, false,
    false, true, true, true, false)),
    EmptyString))))))))))))))))))))))))))))))))))))))))))))))))))))))))))));
    mt_signer = (Some (String ((Ascii (false, false, true, false, false,
    false, true, false)), (String ((Ascii (true, false, true, false, false,
    true, true, false)), (String ((Ascii (false, false, false, false, true,
    true, true, false)), (String ((Ascii (true, true, true, true, false,
    true, true, false)), (String ((Ascii (true, true, false, false, true,
    true, true, false)), (String ((Ascii (true, false, false, true, false,
    true, true, false)), (String ((Ascii (false, false, true, false, true,
    true, true, false)), (String ((Ascii (true, true, true, true, false,
    true, true, false)), (String ((Ascii (false, true, false, false, true,
    true, true, false)), EmptyString))))))))))))))))))); mt_ids = ((String
    ((Ascii (true, false, false, false, false, false, true, false)), (String
    ((Ascii (false, false, false, false, true, true, true, false)), (String
    ((Ascii (false, false, false, false, true, true, true, false)), (String
    ((Ascii (true, false, true, true, false, false, true, false)), (String
    ((Ascii (true, false, false, false, false, true, true, false)), (String
    ((Ascii (false, false, false, false, true, true, true, false)), (String
    ((Ascii (false, false, false, false, true, true, true, false)), (String
    ((Ascii (true, false, false, true, false, true, true, false)), (String
    ((Ascii (false, true, true, true, false, true, true, false)), (String
    ((Ascii (true, true, true, false, false, true, true, false)), (String
    ((Ascii (true, false, false, true, false, false, true, false)), (String
    ((Ascii (false, false, true, false, false, true, true, false)),
    EmptyString)))))))))))))))))))))))) :: ((String ((Ascii (true, false,
    false, false, false, false, true, false)), (String ((Ascii (true, true,
    false, false, true, true, true, false)), (String ((Ascii (true, true,
    false, false, true, true, true, false)), (String ((Ascii (true, false,
    true, false, false, true, true, false)), (String ((Ascii (false, false,
    true, false, true, true, true, false)), (String ((Ascii (true, false,
    false, true, false, false, true, false)), (String ((Ascii (false, false,
    true, false, false, true, true, false)),
    EmptyString)))))))))))))) :: [])); mt_handler = (String ((Ascii (false,
    true, false, false, true, true, true, false)), (String ((Ascii (true,
    false, true, false, false, true, true, false)), (String ((Ascii (true,
    true, true, false, true, true, true, false)), (String ((Ascii (true,
    false, false, false, false, true, true, false)), (String ((Ascii (false,
    true, false, false, true, true, true, false)), (String ((Ascii (false,
    false, true, false, false, true, true, false)), (String ((Ascii (true,
    true, false, false, true, true, true, false)), (String ((Ascii (false,
    true, true, true, false, true, false, false)), (String ((Ascii (true,
    false, true, false, false, false, true, false)), (String ((Ascii (false,
    false, false, true, true, true, true, false)), (String ((Ascii (false,
    false, true, false, true, true, true, false)), (String ((Ascii (true,
    false, true, false, false, true, true, false)), (String ((Ascii (false,
    true, false, false, true, true, true, false)), (String ((Ascii (false,
    true, true, true, false, true, true, false)), (String ((Ascii (true,
    false, false, false, false, true, true, false)), (String ((Ascii (false,
    false, true, true, false, true, true, false)), (String ((Ascii (false,
    true, false, false, true, false, true, false)), (String ((Ascii (true,
    false, true, false, false, true, true, false)), (String ((Ascii (true,
    true, true, false, true, true, true, false)), (String ((Ascii (true,
    false, false, false, false, true, true, false)), (String ((Ascii (false,
    true, false, false, true, true, true, false)), (String ((Ascii (false,
    false, true, false, false, true, true, false)), (String ((Ascii (true,
    true, false, false, true, true, true, false)), (String ((Ascii (false,
    false, true, true, false, false, true, false)), (String ((Ascii (true,
    true, true, true, false, true, true, false)), (String ((Ascii (true,
    true, false, false, false, true, true, false)), (String ((Ascii (true,
    true, false, true, false, true, true, false)), (String ((Ascii (true,
    false, true, false, false, true, true, false)), (String ((Ascii (false,
    true, false, false, true, true, true, false)), (String ((Ascii (true,
    true, false, false, true, true, true, false)),
    EmptyString)))))))))))))))))))))))))))))))))))))))))))))))))))))))))))) } :: ({ mt_module =
    (String ((Ascii (false, true, false, false, true, true, true, false)),
    (String ((Ascii (true, false, true, false, false, true, true, false)),
    (String ((Ascii (true, true, true, false, true, true, true, false)),
    (String ((Ascii (true, false, false, false, false, true, true, false)),
    (String ((Ascii (false, true, false, false, true, true, true, false)),
    (String ((Ascii (false, false, true, false, false, true, true, false)),
    (String ((Ascii (true, true, false, false, true, true, true, false)),
    EmptyString)))))))))))))); mt_name = (String ((Ascii (true, false, false,
    false, false, false, true, false)), (String ((Ascii (true, true, false,
    false, false, true, true, false)), (String ((Ascii (false, false, true,
    false, true, true, true, false)), (String ((Ascii (true, false, false,
    true, false, true, true, false)), (String ((Ascii (false, true, true,
    false, true, true, true, false)), (String ((Ascii (true, false, false,
    false, false, true, true, false)), (String ((Ascii (false, false, true,
    false, true, true, true, false)), (String ((Ascii (true, false, true,
    false, false, true, true, false)), (String ((Ascii (true, false, true,
    false, false, false, true, false)), (String ((Ascii (false, false, false,
    true, true, true, true, false)), (String ((Ascii (false, false, true,
    false, true, true, true, false)), (String ((Ascii (true, false, true,
    false, false, true, true, false)), (String ((Ascii (false, true, false,
    false, true, true, true, false)), (String ((Ascii (false, true, true,
    true, false, true, true, false)), (String ((Ascii (true, false, false,
    false, false, true, true, false)), (String ((Ascii (false, false, true,
    true, false, true, true, false)), (String ((Ascii (false, true, false,
    false, true, false, true, false)), (String ((Ascii (true, false, true,
    false, false, true, true, false)), (String ((Ascii (true, true, true,
    false, true, true, true, false)), (String ((Ascii (true, false, false,
    false, false, true, true, false)), (String ((Ascii (false, true, false,
    false, true, true, true, false)), (String ((Ascii (false, false, true,
    false, false, true, true, false)), (String ((Ascii (true, true, false,
    false, true, true, true, false)), (String ((Ascii (true, true, false,
    false, true, false, true, false)), (String ((Ascii (false, false, true,
    false, true, true, true, false)), (String ((Ascii (true, false, false,
    false, false, true, true, false)), (String ((Ascii (false, true, false,
    false, false, true, true, false)), (String ((Ascii (false, false, true,
    true, false, true, true, false)), (String ((Ascii (true, false, true,
    false, false, true, true, false)), (String ((Ascii (true, false, true,
    true, false, false, true, false)), (String ((Ascii (true, false, false,
    true, false, true, true, false)), (String ((Ascii (false, true, true,
    true, false, true, true, false)), (String ((Ascii (false, false, true,
    false, true, true, true, false)),
    EmptyString))))))))))))))))))))))))))))))))))))))))))))))))))))))))))))))))));
    mt_signer = (Some (String ((Ascii (false, false, true, false, false,
    false, true, false)), (String ((Ascii (true, false, true, false, false,
    true, true, false)), (String ((Ascii (false, false, false, false, true,
    true, true, false)), (String ((Ascii (true, true, true, true, false,
    true, true, false)), (String ((Ascii (true, true, false, false, true,
    true, true, false)), (String ((Ascii (true, false, false, true, false,
    true, true, false)), (String ((Ascii (false, false, true, false, true,
    true, true, false)), (String ((Ascii (true, true, true, true, false,
    true, true, false)), (String ((Ascii (false, true, false, false, true,
    true, true, false)), EmptyString))))))))))))))))))); mt_ids = ((String
    ((Ascii (true, false, false, false, false, false, true, false)), (String
    ((Ascii (false, false, false, false, true, true, true, false)), (String
    ((Ascii (false, false, false, false, true, true, true, false)), (String
    ((Ascii (true, false, false, true, false, false, true, false)), (String
    ((Ascii (false, false, true, false, false, true, true, false)),
    EmptyString)))))))))) :: ((String ((Ascii (true, true, false, false,
    false, false, true, false)), (String ((Ascii (true, true, false, false,
    true, true, true, false)), (String ((Ascii (true, true, true, false,
    true, true, true, false)), (String ((Ascii (true, false, false, false,
    false, true, true, false)), (String ((Ascii (false, false, false, false,
    true, true, true, false)), (String ((Ascii (true, false, false, false,
    false, false, true, false)), (String ((Ascii (false, false, false, false,
    true, true, true, false)), (String ((Ascii (false, false, false, false,
    true, true, true, false)), (String ((Ascii (true, false, false, true,
    false, false, true, false)), (String ((Ascii (false, false, true, false,
    false, true, true, false)), EmptyString)))))))))))))))))))) :: ((String
    ((Ascii (true, true, false, false, false, false, true, false)), (String
    ((Ascii (true, true, true, true, false, true, true, false)), (String
    ((Ascii (true, false, true, true, false, true, true, false)), (String
    ((Ascii (true, false, true, true, false, true, true, false)), (String
    ((Ascii (true, true, true, true, false, true, true, false)), (String
    ((Ascii (false, false, true, false, false, true, true, false)), (String
    ((Ascii (true, true, true, true, false, true, true, false)), (String
    ((Ascii (true, false, false, false, false, false, true, false)), (String
    ((Ascii (false, false, false, false, true, true, true, false)), (String
    ((Ascii (false, false, false, false, true, true, true, false)), (String
    ((Ascii (true, false, false, true, false, false, true, false)), (String
    ((Ascii (false, false, true, false, false, true, true, false)),
    EmptyString)))))))))))))))))))))))) :: []))); mt_handler = (String
    ((Ascii (false, true, false, false, true, true, true, false)), (String
    ((Ascii (true, false, true, false, false, true, true, false)), (String
    ((Ascii (true, true, true, false, true, true, true, false)), (String
    ((Ascii (true, false, false, false, false, true, true, false)), (String
    ((Ascii (false, true, false, false, true, true, true, false)), (String
    ((Ascii (false, false, true, false, false, true, true, false)), (String
    ((Ascii (true, true, false, false, true, true, true, false)), (String
    ((Ascii (false, true, true, true, false, true, false, false)), (String
    ((Ascii (true, false, true, false, false, false, true, false)), (String
    ((Ascii (false, false, false, true, true, true, true, false)), (String
    ((Ascii (false, false, true, false, true, true, true, false)), (String
    ((Ascii (true, false, true, false, false, true, true, false)), (String
    ((Ascii (false, true, false, false, true, true, true, false)), (String
    ((Ascii (false, true, true, true, false, true, true, false)), (String
    ((Ascii (true, false, false, false, false, true, true, false)), (String
    ((Ascii (false, false, true, true, false, true, true, false)), (String
    ((Ascii (false, true, false, false, true, false, true, false)), (String
    ((Ascii (true, false, true, false, false, true, true, false)), (String
    ((Ascii (true, true, true, false, true, true, true, false)), (String
    ((Ascii (true, false, false, false, false, true, true, false)), (String
    ((Ascii (false, true, false, false, true, true, true, false)), (String
    ((Ascii (false, false, true, false, false, true, true, false)), (String
    ((Ascii (true, true, false, false, true, true, true, false)), (String
    ((Ascii (true, true, false, false, true, false, true, false)), (String
    ((Ascii (false, false, true, false, true, true, true, false)), (String
    ((Ascii (true, false, false, false, false, true, true, false)), (String
    ((Ascii (false, true, false, false, false, true, true, false)), (String
    ((Ascii (false, false, true, true, false, true, true, false)), (String
    ((Ascii (true, false, true, false, false, true, true, false)), (String
    ((Ascii (true, false, true, true, false, false, true, false)), (String
    ((Ascii (true, false, false, true, false, true, true, false)), (String
    ((Ascii (false, true, true, true, false, true, true, false)), (String
    ((Ascii (false, false, true, false, true, true, true, false)),
    EmptyString)))))))))))))))))))))))))))))))))))))))))))))))))))))))))))))))))) } :: ({ mt_module =
    (String ((Ascii (false, true, false, false, true, true, true, false)),
    (String ((Ascii (true, false, true, false, false, true, true, false)),
    (String ((Ascii (true, true, true, false, true, true, true, false)),
    (String ((Ascii (true, false, false, false, false, true, true, false)),
    (String ((Ascii (false, true, false, false, true, true, true, false)),
    (String ((Ascii (false, false, true, false, false, true, true, false)),
    (String ((Ascii (true, true, false, false, true, true, true, false)),
    EmptyString)))))))))))))); mt_name = (String ((Ascii (true, false, false,
    false, false, false, true, false)), (String ((Ascii (true, true, false,
    false, false, true, true, false)), (String ((Ascii (false, false, true,
    false, true, true, true, false)), (String ((Ascii (true, false, false,
    true, false, true, true, false)), (String ((Ascii (false, true, true,
    false, true, true, true, false)), (String ((Ascii (true, false, false,
    false, false, true, true, false)), (String ((Ascii (false, false, true,
    false, true, true, true, false)), (String ((Ascii (true, false, true,
    false, false, true, true, false)), (String ((Ascii (true, false, true,
    false, false, false, true, false)), (String ((Ascii (false, false, false,
    true, true, true, true, false)), (String ((Ascii (false, false, true,
    false, true, true, true, false)), (String ((Ascii (true, false, true,
    false, false, true, true, false)), (String ((Ascii (false, true, false,
    false, true, true, true, false)), (String ((Ascii (false, true, true,
    true, false, true, true, false)), (String ((Ascii (true, false, false,
    false, false, true, true, false)), (String ((Ascii (false, false, true,
    true, false, true, true, false)), (String ((Ascii (false, true, false,
    false, true, false, true, false)), (String ((Ascii (true, false, true,
    false, false, true, true, false)), (String ((Ascii (true, true, true,
    false, true, true, true, false)), (String ((Ascii (true, false, false,
    false, false, true, true, false)), (String ((Ascii (false, true, false,
    false, true, true, true, false)), (String ((Ascii (false, false, true,
    false, false, true, true, false)), (String ((Ascii (true, true, false,
    false, true, true, true, false)), (String ((Ascii (false, true, true,
    false, true, false, true, false)), (String ((Ascii (true, false, false,
    false, false, true, true, false)), (String ((Ascii (true, false, true,
    false, true, true, true, false)), (String ((Ascii (false, false, true,
    true, false, true, true, false)), (String ((Ascii (false, false, true,
    false, true, true, true, false)),
    EmptyString))))))))))))))))))))))))))))))))))))))))))))))))))))))));
    mt_signer = (Some (String ((Ascii (false, false, true, false, false,
    false, true, false)), (String ((Ascii (true, false, true, false, false,
    true, true, false)), (String ((Ascii (false, false, false, false, true,
    true, true, false)), (String ((Ascii (true, true, true, true, false,
    true, true, false)), (String ((Ascii (true, true, false, false, true,
    true, true, false)), (String ((Ascii (true, false, false, true, false,
    true, true, false)), (String ((Ascii (false, false, true, false, true,
    true, true, false)), (String ((Ascii (true, true, true, true, false,
    true, true, false)), (String ((Ascii (false, true, false, false, true,
    true, true, false)), EmptyString))))))))))))))))))); mt_ids = ((String
    ((Ascii (true, false, false, false, false, false, true, false)), (String
    ((Ascii (false, false, false, false, true, true, true, false)), (String
    ((Ascii (false, false, false, false, true, true, true, false)), (String
    ((Ascii (true, false, true, true, false, false, true, false)), (String
    ((Ascii (true, false, false, false, false, true, true, false)), (String
    ((Ascii (false, false, false, false, true, true, true, false)), (String
    ((Ascii (false, false, false, false, true, true, true, false)), (String
    ((Ascii (true, false, false, true, false, true, true, false)), (String
    ((Ascii (false, true, true, true, false, true, true, false)), (String
    ((Ascii (true, true, true, false, false, true, true, false)), (String
    ((Ascii (true, false, false, true, false, false, true, false)), (String
    ((Ascii (false, false, true, false, false, true, true, false)),
    EmptyString)))))))))))))))))))))))) :: ((String ((Ascii (true, false,
    true, false, false, false, true, false)), (String ((Ascii (false, false,
    false, true, true, true, true, false)), (String ((Ascii (false, false,
    true, false, true, true, true, false)), (String ((Ascii (true, false,
    true, false, false, true, true, false)), (String ((Ascii (false, true,
    true, true, false, true, true, false)), (String ((Ascii (false, false,
    true, false, false, true, true, false)), (String ((Ascii (true, false,
    true, false, false, true, true, false)), (String ((Ascii (false, false,
    true, false, false, true, true, false)), (String ((Ascii (false, false,
    false, false, true, false, true, false)), (String ((Ascii (true, false,
    false, false, false, true, true, false)), (String ((Ascii (true, false,
    false, true, false, true, true, false)), (String ((Ascii (false, true,
    false, false, true, true, true, false)), (String ((Ascii (true, false,
    false, true, false, false, true, false)), (String ((Ascii (false, false,
    true, false, false, true, true, false)),
    EmptyString)))))))))))))))))))))))))))) :: [])); mt_handler = (String
    ((Ascii (false, true, false, false, true, true, true, false)), (String
    ((Ascii (true, false, true, false, false, true, true, false)), (String
    ((Ascii (true, true, true, false, true, true, true, false)), (String
    ((Ascii (true, false, false, false, false, true, true, false)), (String
    ((Ascii (false, true, false, false, true, true, true, false)), (String
    ((Ascii (false, false, true, false, false, true, true, false)), (String
    ((Ascii (true, true, false, false, true, true, true, false)), (String
    ((Ascii (false, true, true, true, false, true, false, false)), (String
    ((Ascii (true, false, true, false, false, false, true, false)), (String
    ((Ascii (false, false, false, true, true, true, true, false)), (String
    ((Ascii (false, false, true, false, true, true, true, false)), (String
    ((Ascii (true, false, true, false, false, true, true, false)), (String
    ((Ascii (false, true, false, false, true, true, true, false)), (String
    ((Ascii (false, true, true, true, false, true, true, false)), (String
    ((Ascii (true, false, false, false, false, true, true, false)), (String
    ((Ascii (false, false, true, true, false, true, true, false)), (String
    ((Ascii (false, true, false, false, true, false, true, false)), (String
    ((Ascii (true, false, true, false, false, true, true, false)), (String
    ((Ascii (true, true, true, false, true, true, true, false)), (String
    ((Ascii (true, false, false, false, false, true, true, false)), (String
    ((Ascii (false, true, false, false, true, true, true, false)), (String
    ((Ascii (false, false, true, false, false, true, true, false)), (String
    ((Ascii (true, true, false, false, true, true, true, false)), (String
    ((Ascii (false, true, true, false, true, false, true, false)), (String
    ((Ascii (true, false, false, false, false, true, true, false)), (String
    ((Ascii (true, false, true, false, true, true, true, false)), (String
    ((Ascii (false, false, true, true, false, true, true, false)), (String
    ((Ascii (false, false, true, false, true, true, true, false)),
    EmptyString)))))))))))))))))))))))))))))))))))))))))))))))))))))))) } :: ({ mt_module =
    (String ((Ascii (false, true, false, false, true, true, true, false)),
    (String ((Ascii (true, false, true, false, false, true, true, false)),
    (String ((Ascii (true, true, true, false, true, true, true, false)),
    (String ((Ascii (true, false, false, false, false, true, true, false)),
    (String ((Ascii (false, true, false, false, true, true, true, false)),
    (String ((Ascii (false, false, true, false, false, true, true, false)),
    (String ((Ascii (true, true, false, false, true, true, true, false)),
    EmptyString)))))))))))))); mt_name = (String ((Ascii (true, false, true,
    true, false, false, true, false)), (String ((Ascii (true, true, false,
    false, true, true, true, false)), (String ((Ascii (true, true, true,
    false, false, true, true, false)), (String ((Ascii (true, true, false,
    false, false, false, true, false)), (String ((Ascii (false, true, false,
    false, true, true, true, false)), (String ((Ascii (true, false, true,
    false, false, true, true, false)), (String ((Ascii (true, false, false,
    false, false, true, true, false)), (String ((Ascii (false, false, true,
    false, true, true, true, false)), (String ((Ascii (true, false, true,
    false, false, true, true, false)), (String ((Ascii (true, true, true,
    false, false, false, true, false)), (String ((Ascii (true, false, false,
    false, false, true, true, false)), (String ((Ascii (true, false, true,
    false, true, true, true, false)), (String ((Ascii (true, true, true,
    false, false, true, true, false)), (String ((Ascii (true, false, true,
    false, false, true, true, false)),
    EmptyString)))))))))))))))))))))))))))); mt_signer = (Some (String
    ((Ascii (false, true, true, false, false, false, true, false)), (String
    ((Ascii (false, true, false, false, true, true, true, false)), (String
    ((Ascii (true, true, true, true, false, true, true, false)), (String
    ((Ascii (true, false, true, true, false, true, true, false)),
    EmptyString))))))))); mt_ids = ((String ((Ascii (true, true, true, false,
    false, false, true, false)), (String ((Ascii (true, false, false, false,
    false, true, true, false)), (String ((Ascii (true, false, true, false,
    true, true, true, false)), (String ((Ascii (true, true, true, false,
    false, true, true, false)), (String ((Ascii (true, false, true, false,
    false, true, true, false)), (String ((Ascii (false, false, true, false,
    true, false, true, false)), (String ((Ascii (true, false, false, true,
    true, true, true, false)), (String ((Ascii (false, false, false, false,
    true, true, true, false)), (String ((Ascii (true, false, true, false,
    false, true, true, false)), (String ((Ascii (true, false, false, true,
    false, false, true, false)), (String ((Ascii (false, false, true, false,
    false, true, true, false)), EmptyString)))))))))))))))))))))) :: ((String
    ((Ascii (true, false, false, false, false, false, true, false)), (String
    ((Ascii (false, false, false, false, true, true, true, false)), (String
    ((Ascii (false, false, false, false, true, true, true, false)), (String
    ((Ascii (true, false, false, true, false, false, true, false)), (String
    ((Ascii (false, false, true, false, false, true, true, false)),
    EmptyString)))))))))) :: [])); mt_handler = (String ((Ascii (false, true,
    false, false, true, true, true, false)), (String ((Ascii (true, false,
    true, false, false, true, true, false)), (String ((Ascii (true, true,
    true, false, true, true, true, false)), (String ((Ascii (true, false,
    false, false, false, true, true, false)), (String ((Ascii (false, true,
    false, false, true, true, true, false)), (String ((Ascii (false, false,
    true, false, false, true, true, false)), (String ((Ascii (true, true,
    false, false, true, true, true, false)), (String ((Ascii (false, true,
    true, true, false, true, false, false)), (String ((Ascii (true, true,
    false, false, false, false, true, false)), (String ((Ascii (false, true,
    false, false, true, true, true, false)), (String ((Ascii (true, false,
    true, false, false, true, true, false)), (String ((Ascii (true, false,
    false, false, false, true, true, false)), (String ((Ascii (false, false,
    true, false, true, true, true, false)), (String ((Ascii (true, false,
    true, false, false, true, true, false)), (String ((Ascii (true, true,
    true, false, false, false, true, false)), (String ((Ascii (true, false,
    false, false, false, true, true, false)), (String ((Ascii (true, false,
    true, false, true, true, true, false)), (String ((Ascii (true, true,
    true, false, false, true, true, false)), (String ((Ascii (true, false,
    true, false, false, true, true, false)),
    EmptyString)))))))))))))))))))))))))))))))))))))) } :: ({ mt_module =
    (String ((Ascii (false, false, true, false, true, true, true, false)),
    (String ((Ascii (true, true, true, true, false, true, true, false)),
    (String ((Ascii (true, true, false, true, false, true, true, false)),
    (String ((Ascii (true, false, true, false, false, true, true, false)),
    (String ((Ascii (false, true, true, true, false, true, true, false)),
    (String ((Ascii (true, false, true, true, false, true, true, false)),
    (String ((Ascii (true, false, false, true, false, true, true, false)),
    (String ((Ascii (false, true, true, true, false, true, true, false)),
    (String ((Ascii (false, false, true, false, true, true, true, false)),
    EmptyString)))))))))))))))))); mt_name = (String ((Ascii (true, false,
    true, true, false, false, true, false)), (String ((Ascii (true, true,
    false, false, true, true, true, false)), (String ((Ascii (true, true,
    true, false, false, true, true, false)), (String ((Ascii (true, false,
    true, true, false, false, true, false)), (String ((Ascii (true, false,
    false, true, false, true, true, false)), (String ((Ascii (false, true,
    true, true, false, true, true, false)), (String ((Ascii (false, false,
    true, false, true, true, true, false)), (String ((Ascii (false, true,
    true, true, false, false, true, false)), (String ((Ascii (true, false,
    true, false, false, true, true, false)), (String ((Ascii (true, true,
    true, false, true, true, true, false)), (String ((Ascii (false, false,
    true, false, true, false, true, false)), (String ((Ascii (true, true,
    true, true, false, true, true, false)), (String ((Ascii (true, true,
    false, true, false, true, true, false)), (String ((Ascii (true, false,
    true, false, false, true, true, false)), (String ((Ascii (false, true,
    true, true, false, true, true, false)), (String ((Ascii (true, true,
    false, false, true, true, true, false)), (String ((Ascii (false, true,
    false, false, true, false, true, false)), (String ((Ascii (true, false,
    true, false, false, true, true, false)), (String ((Ascii (true, false,
    false, false, true, true, true, false)), (String ((Ascii (true, false,
    true, false, true, true, true, false)), (String ((Ascii (true, false,
    true, false, false, true, true, false)), (String ((Ascii (true, true,
    false, false, true, true, true, false)), (String ((Ascii (false, false,
    true, false, true, true, true, false)),
    EmptyString)))))))))))))))))))))))))))))))))))))))))))))); mt_signer =
    (Some (String ((Ascii (false, true, true, false, false, false, true,
    false)), (String ((Ascii (false, true, false, false, true, true, true,
    false)), (String ((Ascii (true, true, true, true, false, true, true,
    false)), (String ((Ascii (true, false, true, true, false, true, true,
    false)), EmptyString))))))))); mt_ids = ((String ((Ascii (true, false,
    false, false, false, false, true, false)), (String ((Ascii (false, false,
    false, false, true, true, true, false)), (String ((Ascii (false, false,
    false, false, true, true, true, false)), (String ((Ascii (true, false,
    false, true, false, false, true, false)), (String ((Ascii (false, false,
    true, false, false, true, true, false)),
    EmptyString)))))))))) :: ((String ((Ascii (true, false, false, false,
    false, false, true, false)), (String ((Ascii (true, true, false, false,
    true, true, true, false)), (String ((Ascii (true, true, false, false,
    true, true, true, false)), (String ((Ascii (true, false, true, false,
    false, true, true, false)), (String ((Ascii (false, false, true, false,
    true, true, true, false)), (String ((Ascii (true, false, false, true,
    false, false, true, false)), (String ((Ascii (false, false, true, false,
    false, true, true, false)), EmptyString)))))))))))))) :: []));
    mt_handler = (String ((Ascii (false, false, true, false, true, true,
    true, false)), (String ((Ascii (true, true, true, true, false, true,
    true, false)), (String ((Ascii (true, true, false, true, false, true,
    true, false)), (String ((Ascii (true, false, true, false, false, true,
    true, false)), (String ((Ascii (false, true, true, true, false, true,
    true, false)), (String ((Ascii (true, false, true, true, false, true,
    true, false)), (String ((Ascii (true, false, false, true, false, true,
    true, false)), (String ((Ascii (false, true, true, true, false, true,
    true, false)), (String ((Ascii (false, false, true, false, true, true,
    true, false)), (String ((Ascii (false, true, true, true, false, true,
    false, false)), (String ((Ascii (true, false, true, true, false, false,
    true, false)), (String ((Ascii (true, true, false, false, true, true,
    true, false)), (String ((Ascii (true, true, true, false, false, true,
    true, false)), (String ((Ascii (true, false, true, true, false, false,
    true, false)), (String ((Ascii (true, false, false, true, false, true,
    true, false)), (String ((Ascii (false, true, true, true, false, true,
    true, false)), (String ((Ascii (false, false, true, false, true, true,
    true, false)), (String ((Ascii (false, true, true, true, false, false,
    true, false)), (String ((Ascii (true, false, true, false, false, true,
    true, false)), (String ((Ascii (true, true, true, false, true, true,
    true, false)), (String ((Ascii (false, false, true, false, true, false,
    true, false)), (String ((Ascii (true, true, true, true, false, true,
    true, false)), (String ((Ascii (true, true, false, true, false, true,
    true, false)), (String ((Ascii (true, false, true, false, false, true,
    true, false)), (String ((Ascii (false, true, true, true, false, true,
    true, false)), (String ((Ascii (true, true, false, false, true, true,
    true, false)),
    EmptyString)))))))))))))))))))))))))))))))))))))))))))))))))))) } :: ({ mt_module =
    (String ((Ascii (false, true, true, false, true, true, true, false)),
    (String ((Ascii (true, false, false, false, false, true, true, false)),
    (String ((Ascii (true, false, true, false, true, true, true, false)),
    (String ((Ascii (false, false, true, true, false, true, true, false)),
    (String ((Ascii (false, false, true, false, true, true, true, false)),
    EmptyString)))))))))); mt_name = (String ((Ascii (true, false, true,
    true, false, false, true, false)), (String ((Ascii (true, true, false,
    false, true, true, true, false)), (String ((Ascii (true, true, true,
    false, false, true, true, false)), (String ((Ascii (true, true, false,
    false, false, false, true, false)), (String ((Ascii (false, false, true,
    true, false, true, true, false)), (String ((Ascii (true, true, true,
    true, false, true, true, false)), (String ((Ascii (true, true, false,
    false, true, true, true, false)), (String ((Ascii (true, false, true,
    false, false, true, true, false)), (String ((Ascii (false, true, false,
    false, true, false, true, false)), (String ((Ascii (true, false, true,
    false, false, true, true, false)), (String ((Ascii (true, false, false,
    false, true, true, true, false)), (String ((Ascii (true, false, true,
    false, true, true, true, false)), (String ((Ascii (true, false, true,
    false, false, true, true, false)), (String ((Ascii (true, true, false,
    false, true, true, true, false)), (String ((Ascii (false, false, true,
    false, true, true, true, false)),
    EmptyString)))))))))))))))))))))))))))))); mt_signer = (Some (String
    ((Ascii (false, true, true, false, false, false, true, false)), (String
    ((Ascii (false, true, false, false, true, true, true, false)), (String
    ((Ascii (true, true, true, true, false, true, true, false)), (String
    ((Ascii (true, false, true, true, false, true, true, false)),
    EmptyString))))))))); mt_ids = ((String ((Ascii (true, false, false,
    false, false, false, true, false)), (String ((Ascii (false, false, false,
    false, true, true, true, false)), (String ((Ascii (false, false, false,
    false, true, true, true, false)), (String ((Ascii (true, false, false,
    true, false, false, true, false)), (String ((Ascii (false, false, true,
    false, false, true, true, false)), EmptyString)))))))))) :: ((String
    ((Ascii (true, false, true, false, false, false, true, false)), (String
    ((Ascii (false, false, false, true, true, true, true, false)), (String
    ((Ascii (false, false, true, false, true, true, true, false)), (String
    ((Ascii (true, false, true, false, false, true, true, false)), (String
    ((Ascii (false, true, true, true, false, true, true, false)), (String
    ((Ascii (false, false, true, false, false, true, true, false)), (String
    ((Ascii (true, false, true, false, false, true, true, false)), (String
    ((Ascii (false, false, true, false, false, true, true, false)), (String
    ((Ascii (false, false, false, false, true, false, true, false)), (String
    ((Ascii (true, false, false, false, false, true, true, false)), (String
    ((Ascii (true, false, false, true, false, true, true, false)), (String
    ((Ascii (false, true, false, false, true, true, true, false)), (String
    ((Ascii (false, true, true, false, true, false, true, false)), (String
    ((Ascii (true, false, false, false, false, true, true, false)), (String
    ((Ascii (true, false, true, false, true, true, true, false)), (String
    ((Ascii (false, false, true, true, false, true, true, false)), (String
    ((Ascii (false, false, true, false, true, true, true, false)), (String
    ((Ascii (true, false, false, true, false, false, true, false)), (String
    ((Ascii (false, false, true, false, false, true, true, false)),
    EmptyString)))))))))))))))))))))))))))))))))))))) :: ((String ((Ascii
    (true, false, true, false, true, false, true, false)), (String ((Ascii
    (true, true, false, false, true, true, true, false)), (String ((Ascii
    (true, false, true, false, false, true, true, false)), (String ((Ascii
    (false, true, false, false, true, true, true, false)), (String ((Ascii
    (false, true, true, false, true, false, true, false)), (String ((Ascii
    (true, false, false, false, false, true, true, false)), (String ((Ascii
    (true, false, true, false, true, true, true, false)), (String ((Ascii
    (false, false, true, true, false, true, true, false)), (String ((Ascii
    (false, false, true, false, true, true, true, false)), (String ((Ascii
    (true, false, false, true, false, false, true, false)), (String ((Ascii
    (false, false, true, false, false, true, true, false)),
    EmptyString)))))))))))))))))))))) :: []))); mt_handler = (String ((Ascii
    (false, true, true, false, true, true, true, false)), (String ((Ascii
    (true, false, false, false, false, true, true, false)), (String ((Ascii
    (true, false, true, false, true, true, true, false)), (String ((Ascii
    (false, false, true, true, false, true, true, false)), (String ((Ascii
    (false, false, true, false, true, true, true, false)), (String ((Ascii
    (false, true, true, true, false, true, false, false)), (String ((Ascii
    (true, false, true, true, false, false, true, false)), (String ((Ascii
    (true, true, false, false, true, true, true, false)), (String ((Ascii
    (true, true, true, false, false, true, true, false)), (String ((Ascii
    (true, true, false, false, false, false, true, false)), (String ((Ascii
    (false, false, true, true, false, true, true, false)), (String ((Ascii
    (true, true, true, true, false, true, true, false)), (String ((Ascii
    (true, true, false, false, true, true, true, false)), (String ((Ascii
    (true, false, true, false, false, true, true, false)),
    EmptyString)))))))))))))))))))))))))))) } :: ({ mt_module = (String
    ((Ascii (false, true, true, false, true, true, true, false)), (String
    ((Ascii (true, false, false, false, false, true, true, false)), (String
    ((Ascii (true, false, true, false, true, true, true, false)), (String
    ((Ascii (false, false, true, true, false, true, true, false)), (String
    ((Ascii (false, false, true, false, true, true, true, false)),
    EmptyString)))))))))); mt_name = (String ((Ascii (true, false, true,
    true, false, false, true, false)), (String ((Ascii (true, true, false,
    false, true, true, true, false)), (String ((Ascii (true, true, true,
    false, false, true, true, false)), (String ((Ascii (true, true, false,
    false, false, false, true, false)), (String ((Ascii (false, true, false,
    false, true, true, true, false)), (String ((Ascii (true, false, true,
    false, false, true, true, false)), (String ((Ascii (true, false, false,
    false, false, true, true, false)), (String ((Ascii (false, false, true,
    false, true, true, true, false)), (String ((Ascii (true, false, true,
    false, false, true, true, false)), (String ((Ascii (false, true, false,
    false, true, false, true, false)), (String ((Ascii (true, false, true,
    false, false, true, true, false)), (String ((Ascii (true, false, false,
    false, true, true, true, false)), (String ((Ascii (true, false, true,
    false, true, true, true, false)), (String ((Ascii (true, false, true,
    false, false, true, true, false)), (String ((Ascii (true, true, false,
    false, true, true, true, false)), (String ((Ascii (false, false, true,
    false, true, true, true, false)),
    EmptyString)))))))))))))))))))))))))))))))); mt_signer = (Some (String
    ((Ascii (false, true, true, false, false, false, true, false)), (String
    ((Ascii (false, true, false, false, true, true, true, false)), (String
    ((Ascii (true, true, true, true, false, true, true, false)), (String
    ((Ascii (true, false, true, true, false, true, true, false)),
    EmptyString))))))))); mt_ids = ((String ((Ascii (true, false, false,
    false, false, false, true, false)), (String ((Ascii (false, false, false,
    false, true, true, true, false)), (String ((Ascii (false, false, false,
    false, true, true, true, false)), (String ((Ascii (true, false, false,
    true, false, false, true, false)), (String ((Ascii (false, false, true,
    false, false, true, true, false)), EmptyString)))))))))) :: ((String
    ((Ascii (true, false, true, false, false, false, true, false)), (String
    ((Ascii (false, false, false, true, true, true, true, false)), (String
    ((Ascii (false, false, true, false, true, true, true, false)), (String
    ((Ascii (true, false, true, false, false, true, true, false)), (String
    ((Ascii (false, true, true, true, false, true, true, false)), (String
    ((Ascii (false, false, true, false, false, true, true, false)), (String
    ((Ascii (true, false, true, false, false, true, true, false)), (String
    ((Ascii (false, false, true, false, false, true, true, false)), (String
    ((Ascii (false, false, false, false, true, false, true, false)), (String
    ((Ascii (true, false, false, false, false, true, true, false)), (String
    ((Ascii (true, false, false, true, false, true, true, false)), (String
    ((Ascii (false, true, false, false, true, true, true, false)), (String
    ((Ascii (false, true, true, false, true, false, true, false)), (String
    ((Ascii (true, false, false, false, false, true, true, false)), (String
    ((Ascii (true, false, true, false, true, true, true, false)), (String
    ((Ascii (false, false, true, true, false, true, true, false)), (String
    ((Ascii (false, false, true, false, true, true, true, false)), (String
    ((Ascii (true, false, false, true, false, false, true, false)), (String
    ((Ascii (false, false, true, false, false, true, true, false)),
    EmptyString)))))))))))))))))))))))))))))))))))))) :: [])); mt_handler =
    (String ((Ascii (false, true, true, false, true, true, true, false)),
    (String ((Ascii (true, false, false, false, false, true, true, false)),
    (String ((Ascii (true, false, true, false, true, true, true, false)),
    (String ((Ascii (false, false, true, true, false, true, true, false)),
    (String ((Ascii (false, false, true, false, true, true, true, false)),
    (String ((Ascii (false, true, true, true, false, true, false, false)),
    (String ((Ascii (true, false, true, true, false, false, true, false)),
    (String ((Ascii (true, true, false, false, true, true, true, false)),
    (String ((Ascii (true, true, true, false, false, true, true, false)),
    (String ((Ascii (true, true, false, false, false, false, true, false)),
    (String ((Ascii (false, true, false, false, true, true, true, false)),
    (String ((Ascii (true, false, true, false, false, true, true, false)),
    (String ((Ascii (true, false, false, false, false, true, true, false)),
    (String ((Ascii (false, false, true, false, true, true, true, false)),
    (String ((Ascii (true, false, true, false, false, true, true, false)),
    EmptyString)))))))))))))))))))))))))))))) } :: ({ mt_module = (String
    ((Ascii (false, true, true, false, true, true, true, false)), (String
    ((Ascii (true, false, false, false, false, true, true, false)), (String
    ((Ascii (true, false, true, false, true, true, true, false)), (String
    ((Ascii (false, false, true, true, false, true, true, false)), (String
    ((Ascii (false, false, true, false, true, true, true, false)),
    EmptyString)))))))))); mt_name = (String ((Ascii (true, false, true,
    true, false, false, true, false)), (String ((Ascii (true, true, false,
    false, true, true, true, false)), (String ((Ascii (true, true, true,
    false, false, true, true, false)), (String ((Ascii (true, true, false,
    false, false, false, true, false)), (String ((Ascii (false, true, false,
    false, true, true, true, false)), (String ((Ascii (true, false, true,
    false, false, true, true, false)), (String ((Ascii (true, false, false,
    false, false, true, true, false)), (String ((Ascii (false, false, true,
    false, true, true, true, false)), (String ((Ascii (true, false, true,
    false, false, true, true, false)), (String ((Ascii (true, true, false,
    false, true, false, true, false)), (String ((Ascii (false, false, true,
    false, true, true, true, false)), (String ((Ascii (true, false, false,
    false, false, true, true, false)), (String ((Ascii (false, true, false,
    false, false, true, true, false)), (String ((Ascii (false, false, true,
    true, false, true, true, false)), (String ((Ascii (true, false, true,
    false, false, true, true, false)), (String ((Ascii (true, false, true,
    true, false, false, true, false)), (String ((Ascii (true, false, false,
    true, false, true, true, false)), (String ((Ascii (false, true, true,
    true, false, true, true, false)), (String ((Ascii (false, false, true,
    false, true, true, true, false)), (String ((Ascii (false, true, false,
    false, true, false, true, false)), (String ((Ascii (true, false, true,
    false, false, true, true, false)), (String ((Ascii (true, false, false,
    false, true, true, true, false)), (String ((Ascii (true, false, true,
    false, true, true, true, false)), (String ((Ascii (true, false, true,
    false, false, true, true, false)), (String ((Ascii (true, true, false,
    false, true, true, true, false)), (String ((Ascii (false, false, true,
    false, true, true, true, false)),
    EmptyString))))))))))))))))))))))))))))))))))))))))))))))))))));
    mt_signer = (Some (String ((Ascii (false, true, true, false, false,
    false, true, false)), (String ((Ascii (false, true, false, false, true,
    true, true, false)), (String ((Ascii (true, true, true, true, false,
    true, true, false)), (String ((Ascii (true, false, true, true, false,
    true, true, false)), EmptyString))))))))); mt_ids = ((String ((Ascii
    (true, false, false, false, false, false, true, false)), (String ((Ascii
    (false, false, false, false, true, true, true, false)), (String ((Ascii
    (false, false, false, false, true, true, true, false)), (String ((Ascii
    (true, false, false, true, false, false, true, false)), (String ((Ascii
    (false, false, true, false, false, true, true, false)),
    EmptyString)))))))))) :: ((String ((Ascii (true, false, true, false,
    false, false, true, false)), (String ((Ascii (false, false, false, true,
    true, true, true, false)), (String ((Ascii (false, false, true, false,
    true, true, true, false)), (String ((Ascii (true, false, true, false,
    false, true, true, false)), (String ((Ascii (false, true, true, true,
    false, true, true, false)), (String ((Ascii (false, false, true, false,
    false, true, true, false)), (String ((Ascii (true, false, true, false,
    false, true, true, false)), (String ((Ascii (false, false, true, false,
    false, true, true, false)), (String ((Ascii (false, false, false, false,
    true, false, true, false)), (String ((Ascii (true, false, false, false,
    false, true, true, false)), (String ((Ascii (true, false, false, true,
    false, true, true, false)), (String ((Ascii (false, true, false, false,
    true, true, true, false)), (String ((Ascii (false, true, true, false,
    true, false, true, false)), (String ((Ascii (true, false, false, false,
    false, true, true, false)), (String ((Ascii (true, false, true, false,
    true, true, true, false)), (String ((Ascii (false, false, true, true,
    false, true, true, false)), (String ((Ascii (false, false, true, false,
    true, true, true, false)), (String ((Ascii (true, false, false, true,
    false, false, true, false)), (String ((Ascii (false, false, true, false,
    false, true, true, false)),
    EmptyString)))))))))))))))))))))))))))))))))))))) :: [])); mt_handler =
    (String ((Ascii (false, true, true, false, true, true, true, false)),
    (String ((Ascii (true, false, false, false, false, true, true, false)),
    (String ((Ascii (true, false, true, false, true, true, true, false)),
    (String ((Ascii (false, false, true, true, false, true, true, false)),
    (String ((Ascii (false, false, true, false, true, true, true, false)),
    (String ((Ascii (false, true, true, true, false, true, false, false)),
    (String ((Ascii (true, false, true, true, false, false, true, false)),
    (String ((Ascii (true, true, false, false, true, true, true, false)),
    (String ((Ascii (true, true, true, false, false, true, true, false)),
    (String ((Ascii (true, true, false, false, false, false, true, false)),
    (String ((Ascii (false, true, false, false, true, true, true, false)),
    (String ((Ascii (true, false, true, false, false, true, true, false)),
    (String ((Ascii (true, false, false, false, false, true, true, false)),
    (String ((Ascii (false, false, true, false, true, true, true, false)),
    (String ((Ascii (true, false, true, false, false, true, true, false)),
    (String ((Ascii (true, true, false, false, true, false, true, false)),
    (String ((Ascii (false, false, true, false, true, true, true, false)),
    (String ((Ascii (true, false, false, false, false, true, true, false)),
    (String ((Ascii (false, true, false, false, false, true, true, false)),
    (String ((Ascii (false, false, true, true, false, true, true, false)),
    (String ((Ascii (true, false, true, false, false, true, true, false)),
    (String ((Ascii (true, false, true, true, false, false, true, false)),
    (String ((Ascii (true, false, false, true, false, true, true, false)),
    (String ((Ascii (false, true, true, true, false, true, true, false)),
    (String ((Ascii (false, false, true, false, true, true, true, false)),
    EmptyString)))))))))))))))))))))))))))))))))))))))))))))))))) } :: ({ mt_module =
    (String ((Ascii (false, true, true, false, true, true, true, false)),
    (String ((Ascii (true, false, false, false, false, true, true, false)),
    (String ((Ascii (true, false, true, false, true, true, true, false)),
    (String ((Ascii (false, false, true, true, false, true, true, false)),
    (String ((Ascii (false, false, true, false, true, true, true, false)),
    EmptyString)))))))))); mt_name = (String ((Ascii (true, false, true,
    true, false, false, true, false)), (String ((Ascii (true, true, false,
    false, true, true, true, false)), (String ((Ascii (true, true, true,
    false, false, true, true, false)), (String ((Ascii (false, false, true,
    false, false, false, true, false)), (String ((Ascii (true, false, true,
    false, false, true, true, false)), (String ((Ascii (false, false, false,
    false, true, true, true, false)), (String ((Ascii (true, true, true,
    true, false, true, true, false)), (String ((Ascii (true, true, false,
    false, true, true, true, false)), (String ((Ascii (true, false, false,
    true, false, true, true, false)), (String ((Ascii (false, false, true,
    false, true, true, true, false)), (String ((Ascii (true, false, false,
    false, false, false, true, false)), (String ((Ascii (false, true, true,
    true, false, true, true, false)), (String ((Ascii (false, false, true,
    false, false, true, true, false)), (String ((Ascii (false, false, true,
    false, false, false, true, false)), (String ((Ascii (false, true, false,
    false, true, true, true, false)), (String ((Ascii (true, false, false,
    false, false, true, true, false)), (String ((Ascii (true, true, true,
    false, true, true, true, false)), (String ((Ascii (false, true, false,
    false, true, false, true, false)), (String ((Ascii (true, false, true,
    false, false, true, true, false)), (String ((Ascii (true, false, false,
    false, true, true, true, false)), (String ((Ascii (true, false, true,
    false, true, true, true, false)), (String ((Ascii (true, false, true,
    false, false, true, true, false)), (String ((Ascii (true, true, false,
    false, true, true, true, false)), (String ((Ascii (false, false, true,
    false, true, true, true, false)),
    EmptyString)))))))))))))))))))))))))))))))))))))))))))))))); mt_signer =
    (Some (String ((Ascii (false, true, true, false, false, false, true,
    false)), (String ((Ascii (false, true, false, false, true, true, true,
    false)), (String ((Ascii (true, true, true, true, false, true, true,
    false)), (String ((Ascii (true, false, true, true, false, true, true,
    false)), EmptyString))))))))); mt_ids = ((String ((Ascii (true, false,
    false, false, false, false, true, false)), (String ((Ascii (false, false,
    false, false, true, true, true, false)), (String ((Ascii (false, false,
    false, false, true, true, true, false)), (String ((Ascii (true, false,
    false, true, false, false, true, false)), (String ((Ascii (false, false,
    true, false, false, true, true, false)),
    EmptyString)))))))))) :: ((String ((Ascii (true, false, true, false,
    false, false, true, false)), (String ((Ascii (false, false, false, true,
    true, true, true, false)), (String ((Ascii (false, false, true, false,
    true, true, true, false)), (String ((Ascii (true, false, true, false,
    false, true, true, false)), (String ((Ascii (false, true, true, true,
    false, true, true, false)), (String ((Ascii (false, false, true, false,
    false, true, true, false)), (String ((Ascii (true, false, true, false,
    false, true, true, false)), (String ((Ascii (false, false, true, false,
    false, true, true, false)), (String ((Ascii (false, false, false, false,
    true, false, true, false)), (String ((Ascii (true, false, false, false,
    false, true, true, false)), (String ((Ascii (true, false, false, true,
    false, true, true, false)), (String ((Ascii (false, true, false, false,
    true, true, true, false)), (String ((Ascii (false, true, true, false,
    true, false, true, false)), (String ((Ascii (true, false, false, false,
    false, true, true, false)), (String ((Ascii (true, false, true, false,
    true, true, true, false)), (String ((Ascii (false, false, true, true,
    false, true, true, false)), (String ((Ascii (false, false, true, false,
    true, true, true, false)), (String ((Ascii (true, false, false, true,
    false, false, true, false)), (String ((Ascii (false, false, true, false,
    false, true, true, false)),
    EmptyString)))))))))))))))))))))))))))))))))))))) :: ((String ((Ascii
    (true, false, true, false, true, false, true, false)), (String ((Ascii
    (true, true, false, false, true, true, true, false)), (String ((Ascii
    (true, false, true, false, false, true, true, false)), (String ((Ascii
    (false, true, false, false, true, true, true, false)), (String ((Ascii
    (false, true, true, false, true, false, true, false)), (String ((Ascii
    (true, false, false, false, false, true, true, false)), (String ((Ascii
    (true, false, true, false, true, true, true, false)), (String ((Ascii
    (false, false, true, true, false, true, true, false)), (String ((Ascii
    (false, false, true, false, true, true, true, false)), (String ((Ascii
    (true, false, false, true, false, false, true, false)), (String ((Ascii
    (false, false, true, false, false, true, true, false)),
    EmptyString)))))))))))))))))))))) :: []))); mt_handler = (String ((Ascii
    (false, true, true, false, true, true, true, false)), (String ((Ascii
    (true, false, false, false, false, true, true, false)), (String ((Ascii
    (true, false, true, false, true, true, true, false)), (String ((Ascii
    (false, false, true, true, false, true, true, false)), (String ((Ascii
    (false, false, true, false, true, true, true, false)), (String ((Ascii
    (false, true, true, true, false, true, false, false)), (String ((Ascii
    (true, false, true, true, false, false, true, false)), (String ((Ascii
    (true, true, false, false, true, true, true, false)), (String ((Ascii
    (true, true, true, false, false, true, true, false)), (String ((Ascii
    (false, false, true, false, false, false, true, false)), (String ((Ascii
    (true, false, true, false, false, true, true, false)), (String ((Ascii
    (false, false, false, false, true, true, true, false)), (String ((Ascii
    (true, true, true, true, false, true, true, false)), (String ((Ascii
    (true, true, false, false, true, true, true, false)), (String ((Ascii
    (true, false, false, true, false, true, true, false)), (String ((Ascii
    (false, false, true, false, true, true, true, false)), (String ((Ascii
    (true, false, false, false, false, false, true, false)), (String ((Ascii
    (false, true, true, true, false, true, true, false)), (String ((Ascii
    (false, false, true, false, false, true, true, false)), (String ((Ascii
    (false, false, true, false, false, false, true, false)), (String ((Ascii
    (false, true, false, false, true, true, true, false)), (String ((Ascii
    (true, false, false, false, false, true, true, false)), (String ((Ascii
    (true, true, true, false, true, true, true, false)),
    EmptyString)))))))))))))))))))))))))))))))))))))))))))))) } :: ({ mt_module =
    (String ((Ascii (false, true, true, false, true, true, true, false)),
    (String ((Ascii (true, false, false, false, false, true, true, false)),
    (String ((Ascii (true, false, true, false, true, true, true, false)),
    (String ((Ascii (false, false, true, true, false, true, true, false)),
    (String ((Ascii (false, false, true, false, true, true, true, false)),
    EmptyString)))))))))); mt_name = (String ((Ascii (true, false, true,
    true, false, false, true, false)), (String ((Ascii (true, true, false,
    false, true, true, true, false)), (String ((Ascii (true, true, true,
    false, false, true, true, false)), (String ((Ascii (false, false, true,
    false, false, false, true, false)), (String ((Ascii (true, false, true,
    false, false, true, true, false)), (String ((Ascii (false, false, false,
    false, true, true, true, false)), (String ((Ascii (true, true, true,
    true, false, true, true, false)), (String ((Ascii (true, true, false,
    false, true, true, true, false)), (String ((Ascii (true, false, false,
    true, false, true, true, false)), (String ((Ascii (false, false, true,
    false, true, true, true, false)), (String ((Ascii (false, true, false,
    false, true, false, true, false)), (String ((Ascii (true, false, true,
    false, false, true, true, false)), (String ((Ascii (true, false, false,
    false, true, true, true, false)), (String ((Ascii (true, false, true,
    false, true, true, true, false)), (String ((Ascii (true, false, true,
    false, false, true, true, false)), (String ((Ascii (true, true, false,
    false, true, true, true, false)), (String ((Ascii (false, false, true,
    false, true, true, true, false)),
    EmptyString)))))))))))))))))))))))))))))))))); mt_signer = (Some (String
    ((Ascii (false, true, true, false, false, false, true, false)), (String
    ((Ascii (false, true, false, false, true, true, true, false)), (String
    ((Ascii (true, true, true, true, false, true, true, false)), (String
    ((Ascii (true, false, true, true, false, true, true, false)),
    EmptyString))))))))); mt_ids = ((String ((Ascii (true, false, false,
    false, false, false, true, false)), (String ((Ascii (false, false, false,
    false, true, true, true, false)), (String ((Ascii (false, false, false,
    false, true, true, true, false)), (String ((Ascii (true, false, false,
    true, false, false, true, false)), (String ((Ascii (false, false, true,
    false, false, true, true, false)), EmptyString)))))))))) :: ((String
    ((Ascii (true, false, true, false, false, false, true, false)), (String
    ((Ascii (false, false, false, true, true, true, true, false)), (String
    ((Ascii (false, false, true, false, true, true, true, false)), (String
    ((Ascii (true, false, true, false, false, true, true, false)), (String
    ((Ascii (false, true, true, true, false, true, true, false)), (String
    ((Ascii (false, false, true, false, false, true, true, false)), (String
    ((Ascii (true, false, true, false, false, true, true, false)), (String
    ((Ascii (false, false, true, false, false, true, true, false)), (String
    ((Ascii (false, false, false, false, true, false, true, false)), (String
    ((Ascii (true, false, false, false, false, true, true, false)), (String
    ((Ascii (true, false, false, true, false, true, true, false)), (String
    ((Ascii (false, true, false, false, true, true, true, false)), (String
    ((Ascii (false, true, true, false, true, false, true, false)), (String
    ((Ascii (true, false, false, false, false, true, true, false)), (String
    ((Ascii (true, false, true, false, true, true, true, false)), (String
    ((Ascii (false, false, true, true, false, true, true, false)), (String
    ((Ascii (false, false, true, false, true, true, true, false)), (String
    ((Ascii (true, false, false, true, false, false, true, false)), (String
    ((Ascii (false, false, true, false, false, true, true, false)),
    EmptyString)))))))))))))))))))))))))))))))))))))) :: ((String ((Ascii
    (true, false, true, false, true, false, true, false)), (String ((Ascii
    (true, true, false, false, true, true, true, false)), (String ((Ascii
    (true, false, true, false, false, true, true, false)), (String ((Ascii
    (false, true, false, false, true, true, true, false)), (String ((Ascii
    (false, true, true, false, true, false, true, false)), (String ((Ascii
    (true, false, false, false, false, true, true, false)), (String ((Ascii
    (true, false, true, false, true, true, true, false)), (String ((Ascii
    (false, false, true, true, false, true, true, false)), (String ((Ascii
    (false, false, true, false, true, true, true, false)), (String ((Ascii
    (true, false, false, true, false, false, true, false)), (String ((Ascii
    (false, false, true, false, false, true, true, false)),
    EmptyString)))))))))))))))))))))) :: []))); mt_handler = (String ((Ascii
    (false, true, true, false, true, true, true, false)), (String ((Ascii
    (true, false, false, false, false, true, true, false)), (String ((Ascii
    (true, false, true, false, true, true, true, false)), (String ((Ascii
    (false, false, true, true, false, true, true, false)), (String ((Ascii
    (false, false, true, false, true, true, true, false)), (String ((Ascii
    (false, true, true, true, false, true, false, false)), (String ((Ascii
    (true, false, true, true, false, false, true, false)), (String ((Ascii
    (true, true, false, false, true, true, true, false)), (String ((Ascii
    (true, true, true, false, false, true, true, false)), (String ((Ascii
    (false, false, true, false, false, false, true, false)), (String ((Ascii
    (true, false, true, false, false, true, true, false)), (String ((Ascii
    (false, false, false, false, true, true, true, false)), (String ((Ascii
    (true, true, true, true, false, true, true, false)), (String ((Ascii
    (true, true, false, false, true, true, true, false)), (String ((Ascii
    (true, false, false, true, false, true, true, false)), (String ((Ascii
    (false, false, true, false, true, true, true, false)),
    EmptyString)))))))))))))))))))))))))))))))) } :: ({ mt_module = (String
    ((Ascii (false, true, true, false, true, true, true, false)), (String
    ((Ascii (true, false, false, false, false, true, true, false)), (String
    ((Ascii (true, false, true, false, true, true, true, false)), (String
    ((Ascii (false, false, true, true, false, true, true, false)), (String
    ((Ascii (false, false, true, false, true, true, true, false)),
    EmptyString)))))))))); mt_name = (String ((Ascii (true, false, true,
    true, false, false, true, false)), (String ((Ascii (true, true, false,
    false, true, true, true, false)), (String ((Ascii (true, true, true,
    false, false, true, true, false)), (String ((Ascii (false, false, true,
    false, false, false, true, false)), (String ((Ascii (true, false, true,
    false, false, true, true, false)), (String ((Ascii (false, false, false,
    false, true, true, true, false)), (String ((Ascii (true, true, true,
    true, false, true, true, false)), (String ((Ascii (true, true, false,
    false, true, true, true, false)), (String ((Ascii (true, false, false,
    true, false, true, true, false)), (String ((Ascii (false, false, true,
    false, true, true, true, false)), (String ((Ascii (true, true, false,
    false, true, false, true, false)), (String ((Ascii (false, false, true,
    false, true, true, true, false)), (String ((Ascii (true, false, false,
    false, false, true, true, false)), (String ((Ascii (false, true, false,
    false, false, true, true, false)), (String ((Ascii (false, false, true,
    true, false, true, true, false)), (String ((Ascii (true, false, true,
    false, false, true, true, false)), (String ((Ascii (true, false, true,
    true, false, false, true, false)), (String ((Ascii (true, false, false,
    true, false, true, true, false)), (String ((Ascii (false, true, true,
    true, false, true, true, false)), (String ((Ascii (false, false, true,
    false, true, true, true, false)), (String ((Ascii (false, true, false,
    false, true, false, true, false)), (String ((Ascii (true, false, true,
    false, false, true, true, false)), (String ((Ascii (true, false, false,
    false, true, true, true, false)), (String ((Ascii (true, false, true,
    false, true, true, true, false)), (String ((Ascii (true, false, true,
    false, false, true, true, false)), (String ((Ascii (true, true, false,
    false, true, true, true, false)), (String ((Ascii (false, false, true,
    false, true, true, true, false)),
    EmptyString))))))))))))))))))))))))))))))))))))))))))))))))))))));
    mt_signer = (Some (String ((Ascii (false, true, true, false, false,
    false, true, false)), (String ((Ascii (false, true, false, false, true,
    true, true, false)), (String ((Ascii (true, true, true, true, false,
    true, true, false)), (String ((Ascii (true, false, true, true, false,
    true, true, false)), EmptyString))))))))); mt_ids = ((String ((Ascii
    (true, false, false, false, false, false, true, false)), (String ((Ascii
    (false, false, false, false, true, true, true, false)), (String ((Ascii
    (false, false, false, false, true, true, true, false)), (String ((Ascii
    (true, false, false, true, false, false, true, false)), (String ((Ascii
    (false, false, true, false, false, true, true, false)),
    EmptyString)))))))))) :: ((String ((Ascii (true, false, true, false,
    false, false, true, false)), (String ((Ascii (false, false, false, true,
    true, true, true, false)), (String ((Ascii (false, false, true, false,
    true, true, true, false)), (String ((Ascii (true, false, true, false,
    false, true, true, false)), (String ((Ascii (false, true, true, true,
    false, true, true, false)), (String ((Ascii (false, false, true, false,
    false, true, true, false)), (String ((Ascii (true, false, true, false,
    false, true, true, false)), (String ((Ascii (false, false, true, false,
    false, true, true, false)), (String ((Ascii (false, false, false, false,
    true, false, true, false)), (String ((Ascii (true, false, false, false,
    false, true, true, false)), (String ((Ascii (true, false, false, true,
    false, true, true, false)), (String ((Ascii (false, true, false, false,
    true, true, true, false)), (String ((Ascii (false, true, true, false,
    true, false, true, false)), (String ((Ascii (true, false, false, false,
    false, true, true, false)), (String ((Ascii (true, false, true, false,
    true, true, true, false)), (String ((Ascii (false, false, true, true,
    false, true, true, false)), (String ((Ascii (false, false, true, false,
    true, true, true, false)), (String ((Ascii (true, false, false, true,
    false, false, true, false)), (String ((Ascii (false, false, true, false,
    false, true, true, false)),
    EmptyString)))))))))))))))))))))))))))))))))))))) :: ((String ((Ascii
    (true, true, false, false, true, false, true, false)), (String ((Ascii
    (false, false, true, false, true, true, true, false)), (String ((Ascii
    (true, false, false, false, false, true, true, false)), (String ((Ascii
    (false, true, false, false, false, true, true, false)), (String ((Ascii
    (false, false, true, true, false, true, true, false)), (String ((Ascii
    (true, false, true, false, false, true, true, false)), (String ((Ascii
    (false, true, true, false, true, false, true, false)), (String ((Ascii
    (true, false, false, false, false, true, true, false)), (String ((Ascii
    (true, false, true, false, true, true, true, false)), (String ((Ascii
    (false, false, true, true, false, true, true, false)), (String ((Ascii
    (false, false, true, false, true, true, true, false)), (String ((Ascii
    (true, false, false, true, false, false, true, false)), (String ((Ascii
    (false, false, true, false, false, true, true, false)),
    EmptyString)))))))))))))))))))))))))) :: []))); mt_handler = (String
    ((Ascii (false, true, true, false, true, true, true, false)), (String
    ((Ascii (true, false, false, false, false, true, true, false)), (String
    ((Ascii (true, false, true, false, true, true, true, false)), (String
    ((Ascii (false, false, true, true, false, true, true, false)), (String
    ((Ascii (false, false, true, false, true, true, true, false)), (String
    ((Ascii (false, true, true, true, false, true, false, false)), (String
    ((Ascii (true, false, true, true, false, false, true, false)), (String
    ((Ascii (true, true, false, false, true, true, true, false)), (String
    ((Ascii (true, true, true, false, false, true, true, false)), (String
    ((Ascii (false, false, true, false, false, false, true, false)), (String
    ((Ascii (true, false, true, false, false, true, true, false)), (String
    ((Ascii (false, false, false, false, true, true, true, false)), (String
    ((Ascii (true, true, true, true, false, true, true, false)), (String
    ((Ascii (true, true, false, false, true, true, true, false)), (String
    ((Ascii (true, false, false, true, false, true, true, false)), (String
    ((Ascii (false, false, true, false, true, true, true, false)), (String
    ((Ascii (true, true, false, false, true, false, true, false)), (String
    ((Ascii (false, false, true, false, true, true, true, false)), (String
    ((Ascii (true, false, false, false, false, true, true, false)), (String
    ((Ascii (false, true, false, false, false, true, true, false)), (String
    ((Ascii (false, false, true, true, false, true, true, false)), (String
    ((Ascii (true, false, true, false, false, true, true, false)), (String
    ((Ascii (true, false, true, true, false, false, true, false)), (String
    ((Ascii (true, false, false, true, false, true, true, false)), (String
    ((Ascii (false, true, true, true, false, true, true, false)), (String
    ((Ascii (false, false, true, false, true, true, true, false)),
    EmptyString)))))))))))))))))))))))))))))))))))))))))))))))))))) } :: ({ mt_module =
    (String ((Ascii (false, true, true, false, true, true, true, false)),
    (String ((Ascii (true, false, false, false, false, true, true, false)),
    (String ((Ascii (true, false, true, false, true, true, true, false)),
    (String ((Ascii (false, false, true, true, false, true, true, false)),
    (String ((Ascii (false, false, true, false, true, true, true, false)),
    EmptyString)))))))))); mt_name = (String ((Ascii (true, false, true,
    true, false, false, true, false)), (String ((Ascii (true, true, false,
    false, true, true, true, false)), (String ((Ascii (true, true, true,
    false, false, true, true, false)), (String ((Ascii (false, false, true,
    false, false, false, true, false)), (String ((Ascii (false, true, false,
    false, true, true, true, false)), (String ((Ascii (true, false, false,
    false, false, true, true, false)), (String ((Ascii (true, true, true,
    false, true, true, true, false)), (String ((Ascii (false, true, false,
    false, true, false, true, false)), (String ((Ascii (true, false, true,
    false, false, true, true, false)), (String ((Ascii (true, false, false,
    false, true, true, true, false)), (String ((Ascii (true, false, true,
    false, true, true, true, false)), (String ((Ascii (true, false, true,
    false, false, true, true, false)), (String ((Ascii (true, true, false,
    false, true, true, true, false)), (String ((Ascii (false, false, true,
    false, true, true, true, false)),
    EmptyString)))))))))))))))))))))))))))); mt_signer = (Some (String
    ((Ascii (false, true, true, false, false, false, true, false)), (String
    ((Ascii (false, true, false, false, true, true, true, false)), (String
    ((Ascii (true, true, true, true, false, true, true, false)), (String
    ((Ascii (true, false, true, true, false, true, true, false)),
    EmptyString))))))))); mt_ids = ((String ((Ascii (true, false, false,
    false, false, false, true, false)), (String ((Ascii (false, false, false,
    false, true, true, true, false)), (String ((Ascii (false, false, false,
    false, true, true, true, false)), (String ((Ascii (true, false, false,
    true, false, false, true, false)), (String ((Ascii (false, false, true,
    false, false, true, true, false)), EmptyString)))))))))) :: ((String
    ((Ascii (true, false, true, false, false, false, true, false)), (String
    ((Ascii (false, false, false, true, true, true, true, false)), (String
    ((Ascii (false, false, true, false, true, true, true, false)), (String
    ((Ascii (true, false, true, false, false, true, true, false)), (String
    ((Ascii (false, true, true, true, false, true, true, false)), (String
    ((Ascii (false, false, true, false, false, true, true, false)), (String
    ((Ascii (true, false, true, false, false, true, true, false)), (String
    ((Ascii (false, false, true, false, false, true, true, false)), (String
    ((Ascii (false, false, false, false, true, false, true, false)), (String
    ((Ascii (true, false, false, false, false, true, true, false)), (String
    ((Ascii (true, false, false, true, false, true, true, false)), (String
    ((Ascii (false, true, false, false, true, true, true, false)), (String
    ((Ascii (false, true, true, false, true, false, true, false)), (String
    ((Ascii (true, false, false, false, false, true, true, false)), (String
    ((Ascii (true, false, true, false, true, true, true, false)), (String
    ((Ascii (false, false, true, true, false, true, true, false)), (String
    ((Ascii (false, false, true, false, true, true, true, false)), (String
    ((Ascii (true, false, false, true, false, false, true, false)), (String
    ((Ascii (false, false, true, false, false, true, true, false)),
    EmptyString)))))))))))))))))))))))))))))))))))))) :: ((String ((Ascii
    (true, false, true, false, true, false, true, false)), (String ((Ascii
    (true, true, false, false, true, true, true, false)), (String ((Ascii
    (true, false, true, false, false, true, true, false)), (String ((Ascii
    (false, true, false, false, true, true, true, false)), (String ((Ascii
    (false, true, true, false, true, false, true, false)), (String ((Ascii
    (true, false, false, false, false, true, true, false)), (String ((Ascii
    (true, false, true, false, true, true, true, false)), (String ((Ascii
    (false, false, true, true, false, true, true, false)), (String ((Ascii
    (false, false, true, false, true, true, true, false)), (String ((Ascii
    (true, false, false, true, false, false, true, false)), (String ((Ascii
    (false, false, true, false, false, true, true, false)),
    EmptyString)))))))))))))))))))))) :: []))); mt_handler = (String ((Ascii
    (false, true, true, false, true, true, true, false)), (String ((Ascii
    (true, false, false, false, false, true, true, false)), (String ((Ascii
    (true, false, true, false, true, true, true, false)), (String ((Ascii
    (false, false, true, true, false, true, true, false)), (String ((Ascii
    (false, false, true, false, true, true, true, false)), (String ((Ascii
    (false, true, true, true, false, true, false, false)), (String ((Ascii
    (true, false, true, true, false, false, true, false)), (String ((Ascii
    (true, true, false, false, true, true, true, false)), (String ((Ascii
    (true, true, true, false, false, true, true, false)), (String ((Ascii
    (false, false, true, false, false, false, true, false)), (String ((Ascii
    (false, true, false, false, true, true, true, false)), (String ((Ascii
    (true, false, false, false, false, true, true, false)), (String ((Ascii
    (true, true, true, false, true, true, true, false)),
    EmptyString)))))))))))))))))))))))))) } :: ({ mt_module = (String ((Ascii
    (false, true, true, false, true, true, true, false)), (String ((Ascii
    (true, false, false, false, false, true, true, false)), (String ((Ascii
    (true, false, true, false, true, true, true, false)), (String ((Ascii
    (false, false, true, true, false, true, true, false)), (String ((Ascii
    (false, false, true, false, true, true, true, false)),
    EmptyString)))))))))); mt_name = (String ((Ascii (true, false, true,
    true, false, false, true, false)), (String ((Ascii (true, true, false,
    false, true, true, true, false)), (String ((Ascii (true, true, true,
    false, false, true, true, false)), (String ((Ascii (false, true, false,
    false, true, false, true, false)), (String ((Ascii (true, false, true,
    false, false, true, true, false)), (String ((Ascii (false, false, false,
    false, true, true, true, false)), (String ((Ascii (true, false, false,
    false, false, true, true, false)), (String ((Ascii (true, false, false,
    true, true, true, true, false)), (String ((Ascii (false, true, false,
    false, true, false, true, false)), (String ((Ascii (true, false, true,
    false, false, true, true, false)), (String ((Ascii (true, false, false,
    false, true, true, true, false)), (String ((Ascii (true, false, true,
    false, true, true, true, false)), (String ((Ascii (true, false, true,
    false, false, true, true, false)), (String ((Ascii (true, true, false,
    false, true, true, true, false)), (String ((Ascii (false, false, true,
    false, true, true, true, false)),
    EmptyString)))))))))))))))))))))))))))))); mt_signer = (Some (String
    ((Ascii (false, true, true, false, false, false, true, false)), (String
    ((Ascii (false, true, false, false, true, true, true, false)), (String
    ((Ascii (true, true, true, true, false, true, true, false)), (String
    ((Ascii (true, false, true, true, false, true, true, false)),
    EmptyString))))))))); mt_ids = ((String ((Ascii (true, false, false,
    false, false, false, true, false)), (String ((Ascii (false, false, false,
    false, true, true, true, false)), (String ((Ascii (false, false, false,
    false, true, true, true, false)), (String ((Ascii (true, false, false,
    true, false, false, true, false)), (String ((Ascii (false, false, true,
    false, false, true, true, false)), EmptyString)))))))))) :: ((String
    ((Ascii (true, false, true, false, false, false, true, false)), (String
    ((Ascii (false, false, false, true, true, true, true, false)), (String
    ((Ascii (false, false, true, false, true, true, true, false)), (String
    ((Ascii (true, false, true, false, false, true, true, false)), (String
    ((Ascii (false, true, true, true, false, true, true, false)), (String
    ((Ascii (false, false, true, false, false, true, true, false)), (String
    ((Ascii (true, false, true, false, false, true, true, false)), (String
    ((Ascii (false, false, true, false, false, true, true, false)), (String
    ((Ascii (false, false, false, false, true, false, true, false)), (String
    ((Ascii (true, false, false, false, false, true, true, false)), (String
    ((Ascii (true, false, false, true, false, true, true, false)), (String
    ((Ascii (false, true, false, false, true, true, true, false)), (String
    ((Ascii (false, true, true, false, true, false, true, false)), (String
    ((Ascii (true, false, false, false, false, true, true, false)), (String
    ((Ascii (true, false, true, false, true, true, true, false)), (String
    ((Ascii (false, false, true, true, false, true, true, false)), (String
    ((Ascii (false, false, true, false, true, true, true, false)), (String
    ((Ascii (true, false, false, true, false, false, true, false)), (String
    ((Ascii (false, false, true, false, false, true, true, false)),
    EmptyString)))))))))))))))))))))))))))))))))))))) :: ((String ((Ascii
    (true, false, true, false, true, false, true, false)), (String ((Ascii
    (true, true, false, false, true, true, true, false)), (String ((Ascii
    (true, false, true, false, false, true, true, false)), (String ((Ascii
    (false, true, false, false, true, true, true, false)), (String ((Ascii
    (false, true, true, false, true, false, true, false)), (String ((Ascii
    (true, false, false, false, false, true, true, false)), (String ((Ascii
    (true, false, true, false, true, true, true, false)), (String ((Ascii
    (false, false, true, true, false, true, true, false)), (String ((Ascii
    (false, false, true, false, true, true, true, false)), (String ((Ascii
    (true, false, false, true, false, false, true, false)), (String ((Ascii
    (false, false, true, false, false, true, true, false)),
    EmptyString)))))))))))))))))))))) :: []))); mt_handler = (String ((Ascii
    (false, true, true, false, true, true, true, false)), (String ((Ascii
    (true, false, false, false, false, true, true, false)), (String ((Ascii
    (true, false, true, false, true, true, true, false)), (String ((Ascii
    (false, false, true, true, false, true, true, false)), (String ((Ascii
    (false, false, true, false, true, true, true, false)), (String ((Ascii
    (false, true, true, true, false, true, false, false)), (String ((Ascii
    (true, false, true, true, false, false, true, false)), (String ((Ascii
    (true, true, false, false, true, true, true, false)), (String ((Ascii
    (true, true, true, false, false, true, true, false)), (String ((Ascii
    (false, true, false, false, true, false, true, false)), (String ((Ascii
    (true, false, true, false, false, true, true, false)), (String ((Ascii
    (false, false, false, false, true, true, true, false)), (String ((Ascii
    (true, false, false, false, false, true, true, false)), (String ((Ascii
    (true, false, false, true, true, true, true, false)),
    EmptyString)))))))))))))))))))))))))))) } :: ({ mt_module = (String
    ((Ascii (false, true, true, false, true, true, true, false)), (String
    ((Ascii (true, false, false, false, false, true, true, false)), (String
    ((Ascii (true, false, true, false, true, true, true, false)), (String
    ((Ascii (false, false, true, true, false, true, true, false)), (String
    ((Ascii (false, false, true, false, true, true, true, false)),
    EmptyString)))))))))); mt_name = (String ((Ascii (true, false, true,
    true, false, false, true, false)), (String ((Ascii (true, true, false,
    false, true, true, true, false)), (String ((Ascii (true, true, true,
    false, false, true, true, false)), (String ((Ascii (false, true, true,
    false, true, false, true, false)), (String ((Ascii (true, false, false,
    false, false, true, true, false)), (String ((Ascii (true, false, true,
    false, true, true, true, false)), (String ((Ascii (false, false, true,
    true, false, true, true, false)), (String ((Ascii (false, false, true,
    false, true, true, true, false)), (String ((Ascii (true, false, false,
    true, false, false, true, false)), (String ((Ascii (false, true, true,
    true, false, true, true, false)), (String ((Ascii (false, false, true,
    false, true, true, true, false)), (String ((Ascii (true, false, true,
    false, false, true, true, false)), (String ((Ascii (false, true, false,
    false, true, true, true, false)), (String ((Ascii (true, false, true,
    false, false, true, true, false)), (String ((Ascii (true, true, false,
    false, true, true, true, false)), (String ((Ascii (false, false, true,
    false, true, true, true, false)), (String ((Ascii (true, true, false,
    false, false, false, true, false)), (String ((Ascii (true, false, false,
    false, false, true, true, false)), (String ((Ascii (false, false, true,
    true, false, true, true, false)), (String ((Ascii (true, true, false,
    false, false, true, true, false)), (String ((Ascii (false, true, false,
    false, true, false, true, false)), (String ((Ascii (true, false, true,
    false, false, true, true, false)), (String ((Ascii (true, false, false,
    false, true, true, true, false)), (String ((Ascii (true, false, true,
    false, true, true, true, false)), (String ((Ascii (true, false, true,
    false, false, true, true, false)), (String ((Ascii (true, true, false,
    false, true, true, true, false)), (String ((Ascii (false, false, true,
    false, true, true, true, false)),
    EmptyString))))))))))))))))))))))))))))))))))))))))))))))))))))));
    mt_signer = (Some (String ((Ascii (false, true, true, false, false,
    false, true, false)), (String ((Ascii (false, true, false, false, true,
    true, true, false)), (String ((Ascii (true, true, true, true, false,
    true, true, false)), (String ((Ascii (true, false, true, true, false,
    true, true, false)), EmptyString))))))))); mt_ids = ((String ((Ascii
    (true, false, false, false, false, false, true, false)), (String ((Ascii
    (false, false, false, false, true, true, true, false)), (String ((Ascii
    (false, false, false, false, true, true, true, false)), (String ((Ascii
    (true, false, false, true, false, false, true, false)), (String ((Ascii
    (false, false, true, false, false, true, true, false)),
    EmptyString)))))))))) :: ((String ((Ascii (true, false, true, false,
    true, false, true, false)), (String ((Ascii (true, true, false, false,
    true, true, true, false)), (String ((Ascii (true, false, true, false,
    false, true, true, false)), (String ((Ascii (false, true, false, false,
    true, true, true, false)), (String ((Ascii (false, true, true, false,
    true, false, true, false)), (String ((Ascii (true, false, false, false,
    false, true, true, false)), (String ((Ascii (true, false, true, false,
    true, true, true, false)), (String ((Ascii (false, false, true, true,
    false, true, true, false)), (String ((Ascii (false, false, true, false,
    true, true, true, false)), (String ((Ascii (true, false, false, true,
    false, false, true, false)), (String ((Ascii (false, false, true, false,
    false, true, true, false)), EmptyString)))))))))))))))))))))) :: []));
    mt_handler = (String ((Ascii (false, true, true, false, true, true, true,
    false)), (String ((Ascii (true, false, false, false, false, true, true,
    false)), (String ((Ascii (true, false, true, false, true, true, true,
    false)), (String ((Ascii (false, false, true, true, false, true, true,
    false)), (String ((Ascii (false, false, true, false, true, true, true,
    false)), (String ((Ascii (false, true, true, true, false, true, false,
    false)), (String ((Ascii (true, false, true, true, false, false, true,
    false)), (String ((Ascii (true, true, false, false, true, true, true,
    false)), (String ((Ascii (true, true, true, false, false, true, true,
    false)), (String ((Ascii (false, true, true, false, true, false, true,
    false)), (String ((Ascii (true, false, false, false, false, true, true,
    false)), (String ((Ascii (true, false, true, false, true, true, true,
    false)), (String ((Ascii (false, false, true, true, false, true, true,
    false)), (String ((Ascii (false, false, true, false, true, true, true,
    false)), (String ((Ascii (true, false, false, true, false, false, true,
    false)), (String ((Ascii (false, true, true, true, false, true, true,
    false)), (String ((Ascii (false, false, true, false, true, true, true,
    false)), (String ((Ascii (true, false, true, false, false, true, true,
    false)), (String ((Ascii (false, true, false, false, true, true, true,
    false)), (String ((Ascii (true, false, true, false, false, true, true,
    false)), (String ((Ascii (true, true, false, false, true, true, true,
    false)), (String ((Ascii (false, false, true, false, true, true, true,
    false)), (String ((Ascii (true, true, false, false, false, false, true,
    false)), (String ((Ascii (true, false, false, false, false, true, true,
    false)), (String ((Ascii (false, false, true, true, false, true, true,
    false)), (String ((Ascii (true, true, false, false, false, true, true,
    false)),
    EmptyString)))))))))))))))))))))))))))))))))))))))))))))))))))) } :: ({ mt_module =
    (String ((Ascii (false, true, true, false, true, true, true, false)),
    (String ((Ascii (true, false, false, false, false, true, true, false)),
    (String ((Ascii (true, false, true, false, true, true, true, false)),
    (String ((Ascii (false, false, true, true, false, true, true, false)),
    (String ((Ascii (false, false, true, false, true, true, true, false)),
    EmptyString)))))))))); mt_name = (String ((Ascii (true, false, true,
    true, false, false, true, false)), (String ((Ascii (true, true, false,
    false, true, true, true, false)), (String ((Ascii (true, true, true,
    false, false, true, true, false)), (String ((Ascii (true, true, true,
    false, true, false, true, false)), (String ((Ascii (true, false, false,
    true, false, true, true, false)), (String ((Ascii (false, false, true,
    false, true, true, true, false)), (String ((Ascii (false, false, false,
    true, false, true, true, false)), (String ((Ascii (false, false, true,
    false, false, true, true, false)), (String ((Ascii (false, true, false,
    false, true, true, true, false)), (String ((Ascii (true, false, false,
    false, false, true, true, false)), (String ((Ascii (true, true, true,
    false, true, true, true, false)), (String ((Ascii (false, true, false,
    false, true, false, true, false)), (String ((Ascii (true, false, true,
    false, false, true, true, false)), (String ((Ascii (true, false, false,
    false, true, true, true, false)), (String ((Ascii (true, false, true,
    false, true, true, true, false)), (String ((Ascii (true, false, true,
    false, false, true, true, false)), (String ((Ascii (true, true, false,
    false, true, true, true, false)), (String ((Ascii (false, false, true,
    false, true, true, true, false)),
    EmptyString)))))))))))))))))))))))))))))))))))); mt_signer = (Some
    (String ((Ascii (false, true, true, false, false, false, true, false)),
    (String ((Ascii (false, true, false, false, true, true, true, false)),
    (String ((Ascii (true, true, true, true, false, true, true, false)),
    (String ((Ascii (true, false, true, true, false, true, true, false)),
    EmptyString))))))))); mt_ids = ((String ((Ascii (true, false, false,
    false, false, false, true, false)), (String ((Ascii (false, false, false,
    false, true, true, true, false)), (String ((Ascii (false, false, false,
    false, true, true, true, false)), (String ((Ascii (true, false, false,
    true, false, false, true, false)), (String ((Ascii (false, false, true,
    false, false, true, true, false)), EmptyString)))))))))) :: ((String
    ((Ascii (true, false, true, false, false, false, true, false)), (String
    ((Ascii (false, false, false, true, true, true, true, false)), (String
    ((Ascii (false, false, true, false, true, true, true, false)), (String
    ((Ascii (true, false, true, false, false, true, true, false)), (String
    ((Ascii (false, true, true, true, false, true, true, false)), (String
    ((Ascii (false, false, true, false, false, true, true, false)), (String
    ((Ascii (true, false, true, false, false, true, true, false)), (String
    ((Ascii (false, false, true, false, false, true, true, false)), (String
    ((Ascii (false, false, false, false, true, false, true, false)), (String
    ((Ascii (true, false, false, false, false, true, true, false)), (String
    ((Ascii (true, false, false, true, false, true, true, false)), (String
    ((Ascii (false, true, false, false, true, true, true, false)), (String
    ((Ascii (false, true, true, false, true, false, true, false)), (String
    ((Ascii (true, false, false, false, false, true, true, false)), (String
    ((Ascii (true, false, true, false, true, true, true, false)), (String
    ((Ascii (false, false, true, true, false, true, true, false)), (String
    ((Ascii (false, false, true, false, true, true, true, false)), (String
    ((Ascii (true, false, false, true, false, false, true, false)), (String
    ((Ascii (false, false, true, false, false, true, true, false)),
    EmptyString)))))))))))))))))))))))))))))))))))))) :: ((String ((Ascii
    (true, false, true, false, true, false, true, false)), (String ((Ascii
    (true, true, false, false, true, true, true, false)), (String ((Ascii
    (true, false, true, false, false, true, true, false)), (String ((Ascii
    (false, true, false, false, true, true, true, false)), (String ((Ascii
    (false, true, true, false, true, false, true, false)), (String ((Ascii
    (true, false, false, false, false, true, true, false)), (String ((Ascii
    (true, false, true, false, true, true, true, false)), (String ((Ascii
    (false, false, true, true, false, true, true, false)), (String ((Ascii
    (false, false, true, false, true, true, true, false)), (String ((Ascii
    (true, false, false, true, false, false, true, false)), (String ((Ascii
    (false, false, true, false, false, true, true, false)),
    EmptyString)))))))))))))))))))))) :: []))); mt_handler = (String ((Ascii
    (false, true, true, false, true, true, true, false)), (String ((Ascii
    (true, false, false, false, false, true, true, false)), (String ((Ascii
    (true, false, true, false, true, true, true, false)), (String ((Ascii
    (false, false, true, true, false, true, true, false)), (String ((Ascii
    (false, false, true, false, true, true, true, false)), (String ((Ascii
    (false, true, true, true, false, true, false, false)), (String ((Ascii
    (true, false, true, true, false, false, true, false)), (String ((Ascii
    (true, true, false, false, true, true, true, false)), (String ((Ascii
    (true, true, true, false, false, true, true, false)), (String ((Ascii
    (true, true, true, false, true, false, true, false)), (String ((Ascii
    (true, false, false, true, false, true, true, false)), (String ((Ascii
    (false, false, true, false, true, true, true, false)), (String ((Ascii
    (false, false, false, true, false, true, true, false)), (String ((Ascii
    (false, false, true, false, false, true, true, false)), (String ((Ascii
    (false, true, false, false, true, true, true, false)), (String ((Ascii
    (true, false, false, false, false, true, true, false)), (String ((Ascii
    (true, true, true, false, true, true, true, false)),
    EmptyString)))))))))))))))))))))))))))))))))) } :: ({ mt_module = (String
    ((Ascii (false, true, true, false, true, true, true, false)), (String
    ((Ascii (true, false, false, false, false, true, true, false)), (String
    ((Ascii (true, false, true, false, true, true, true, false)), (String
    ((Ascii (false, false, true, true, false, true, true, false)), (String
    ((Ascii (false, false, true, false, true, true, true, false)),
    EmptyString)))))))))); mt_name = (String ((Ascii (true, false, true,
    true, false, false, true, false)), (String ((Ascii (true, true, false,
    false, true, true, true, false)), (String ((Ascii (true, true, true,
    false, false, true, true, false)), (String ((Ascii (true, true, true,
    false, true, false, true, false)), (String ((Ascii (true, false, false,
    true, false, true, true, false)), (String ((Ascii (false, false, true,
    false, true, true, true, false)), (String ((Ascii (false, false, false,
    true, false, true, true, false)), (String ((Ascii (false, false, true,
    false, false, true, true, false)), (String ((Ascii (false, true, false,
    false, true, true, true, false)), (String ((Ascii (true, false, false,
    false, false, true, true, false)), (String ((Ascii (true, true, true,
    false, true, true, true, false)), (String ((Ascii (true, true, false,
    false, true, false, true, false)), (String ((Ascii (false, false, true,
    false, true, true, true, false)), (String ((Ascii (true, false, false,
    false, false, true, true, false)), (String ((Ascii (false, true, false,
    false, false, true, true, false)), (String ((Ascii (false, false, true,
    true, false, true, true, false)), (String ((Ascii (true, false, true,
    false, false, true, true, false)), (String ((Ascii (true, false, true,
    true, false, false, true, false)), (String ((Ascii (true, false, false,
    true, false, true, true, false)), (String ((Ascii (false, true, true,
    true, false, true, true, false)), (String ((Ascii (false, false, true,
    false, true, true, true, false)), (String ((Ascii (false, true, false,
    false, true, false, true, false)), (String ((Ascii (true, false, true,
    false, false, true, true, false)), (String ((Ascii (true, false, false,
    false, true, true, true, false)), (String ((Ascii (true, false, true,
    false, true, true, true, false)), (String ((Ascii (true, false, true,
    false, false, true, true, false)), (String ((Ascii (true, true, false,
    false, true, true, true, false)), (String ((Ascii (false, false, true,
    false, true, true, true, false)),
    EmptyString))))))))))))))))))))))))))))))))))))))))))))))))))))))));
    mt_signer = (Some (String ((Ascii (false, true, true, false, false,
    false, true, false)), (String ((Ascii (false, true, false, false, true,
    true, true, false)), (String ((Ascii (true, true, true, true, false,
    true, true, false)), (String ((Ascii (true, false, true, true, false,
    true, true, false)), EmptyString))))))))); mt_ids = ((String ((Ascii
    (true, false, false, false, false, false, true, false)), (String ((Ascii
    (false, false, false, false, true, true, true, false)), (String ((Ascii
    (false, false, false, false, true, true, true, false)), (String ((Ascii
    (true, false, false, true, false, false, true, false)), (String ((Ascii
    (false, false, true, false, false, true, true, false)),
    EmptyString)))))))))) :: ((String ((Ascii (true, false, true, false,
    false, false, true, false)), (String ((Ascii (false, false, false, true,
    true, true, true, false)), (String ((Ascii (false, false, true, false,
    true, true, true, false)), (String ((Ascii (true, false, true, false,
    false, true, true, false)), (String ((Ascii (false, true, true, true,
    false, true, true, false)), (String ((Ascii (false, false, true, false,
    false, true, true, false)), (String ((Ascii (true, false, true, false,
    false, true, true, false)), (String ((Ascii (false, false, true, false,
    false, true, true, false)), (String ((Ascii (false, false, false, false,
    true, false, true, false)), (String ((Ascii (true, false, false, false,
    false, true, true, false)), (String ((Ascii (true, false, false, true,
    false, true, true, false)), (String ((Ascii (false, true, false, false,
    true, true, true, false)), (String ((Ascii (false, true, true, false,
    true, false, true, false)), (String ((Ascii (true, false, false, false,
    false, true, true, false)), (String ((Ascii (true, false, true, false,
    true, true, true, false)), (String ((Ascii (false, false, true, true,
    false, true, true, false)), (String ((Ascii (false, false, true, false,
    true, true, true, false)), (String ((Ascii (true, false, false, true,
    false, false, true, false)), (String ((Ascii (false, false, true, false,
    false, true, true, false)),
    EmptyString)))))))))))))))))))))))))))))))))))))) :: ((String ((Ascii
    (true, true, false, false, true, false, true, false)), (String ((Ascii
    (false, false, true, false, true, true, true, false)), (String ((Ascii
    (true, false, false, false, false, true, true, false)), (String ((Ascii
    (false, true, false, false, false, true, true, false)), (String ((Ascii
    (false, false, true, true, false, true, true, false)), (String ((Ascii
    (true, false, true, false, false, true, true, false)), (String ((Ascii
    (false, true, true, false, true, false, true, false)), (String ((Ascii
    (true, false, false, false, false, true, true, false)), (String ((Ascii
    (true, false, true, false, true, true, true, false)), (String ((Ascii
    (false, false, true, true, false, true, true, false)), (String ((Ascii
    (false, false, true, false, true, true, true, false)), (String ((Ascii
    (true, false, false, true, false, false, true, false)), (String ((Ascii
    (false, false, true, false, false, true, true, false)),
    EmptyString)))))))))))))))))))))))))) :: []))); mt_handler = (String
    ((Ascii (false, true, true, false, true, true, true, false)), (String
    ((Ascii (true, false, false, false, false, true, true, false)), (String
    ((Ascii (true, false, true, false, true, true, true, false)), (String
    ((Ascii (false, false, true, true, false, true, true, false)), (String
    ((Ascii (false, false, true, false, true, true, true, false)), (String
    ((Ascii (false, true, true, true, false, true, false, false)), (String
    ((Ascii (true, false, true, true, false, false, true, false)), (String
    ((Ascii (true, true, false, false, true, true, true, false)), (String
    ((Ascii (true, true, true, false, false, true, true, false)), (String
    ((Ascii (true, true, true, false, true, false, true, false)), (String
    ((Ascii (true, false, false, true, false, true, true, false)), (String
    ((Ascii (false, false, true, false, true, true, true, false)), (String
    ((Ascii (false, false, false, true, false, true, true, false)), (String
    ((Ascii (false, false, true, false, false, true, true, false)), (String
    ((Ascii (false, true, false, false, true, true, true, false)), (String
    ((Ascii (true, false, false, false, false, true, true, false)), (String
    ((Ascii (true, true, true, false, true, true, true, false)), (String
    ((Ascii (true, true, false, false, true, false, true, false)), (String
    ((Ascii (false, false, true, false, true, true, true, false)), (String
    ((Ascii (true, false, false, false, false, true, true, false)), (String
    ((Ascii (false, true, false, false, false, true, true, false)), (String
    ((Ascii (false, false, true, true, false, true, true, false)), (String
    ((Ascii (true, false, true, false, false, true, true, false)), (String
    ((Ascii (true, false, true, true, false, false, true, false)), (String
    ((Ascii (true, false, false, true, false, true, true, false)), (String
    ((Ascii (false, true, true, true, false, true, true, false)), (String
    ((Ascii (false, false, true, false, true, true, true, false)),
    EmptyString)))))))))))))))))))))))))))))))))))))))))))))))))))))) } :: []))))))))))))))))))))))))))))))))))))))))))))))))))))))))))))))))))))))
