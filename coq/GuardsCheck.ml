open Ascii
open Atomic
open BinInt
open BinNums
open Datatypes
open GuardTable
open Guards
open List
open MsgTypes
open String
open SweepGuards
open WasmTable

(** val mem : string -> string list -> bool **)

let mem x l =
  existsb (eqb x) l

(** val find_handler : string -> handler option **)

let find_handler n =
  find (fun h -> eqb h.h_name n) handlers

(** val mt_qname : msg_type -> string **)

let mt_qname m =
  append m.mt_module
    (append (String ((Ascii (false, true, true, true, false, true, false,
      false)), EmptyString)) m.mt_name)

(** val position_id_fields : string list **)

let position_id_fields =
  (String ((Ascii (true, false, true, false, true, false, true, false)),
    (String ((Ascii (true, true, false, false, true, true, true, false)),
    (String ((Ascii (true, false, true, false, false, true, true, false)),
    (String ((Ascii (false, true, false, false, true, true, true, false)),
    (String ((Ascii (false, true, true, false, true, false, true, false)),
    (String ((Ascii (true, false, false, false, false, true, true, false)),
    (String ((Ascii (true, false, true, false, true, true, true, false)),
    (String ((Ascii (false, false, true, true, false, true, true, false)),
    (String ((Ascii (false, false, true, false, true, true, true, false)),
    (String ((Ascii (true, false, false, true, false, false, true, false)),
    (String ((Ascii (false, false, true, false, false, true, true, false)),
    EmptyString)))))))))))))))))))))) :: ((String ((Ascii (true, true, false,
    false, true, false, true, false)), (String ((Ascii (false, false, true,
    false, true, true, true, false)), (String ((Ascii (true, false, false,
    false, false, true, true, false)), (String ((Ascii (false, true, false,
    false, false, true, true, false)), (String ((Ascii (false, false, true,
    true, false, true, true, false)), (String ((Ascii (true, false, true,
    false, false, true, true, false)), (String ((Ascii (false, true, true,
    false, true, false, true, false)), (String ((Ascii (true, false, false,
    false, false, true, true, false)), (String ((Ascii (true, false, true,
    false, true, true, true, false)), (String ((Ascii (false, false, true,
    true, false, true, true, false)), (String ((Ascii (false, false, true,
    false, true, true, true, false)), (String ((Ascii (true, false, false,
    true, false, false, true, false)), (String ((Ascii (false, false, true,
    false, false, true, true, false)),
    EmptyString)))))))))))))))))))))))))) :: ((String ((Ascii (false, false,
    true, true, false, false, true, false)), (String ((Ascii (true, true,
    true, true, false, true, true, false)), (String ((Ascii (true, true,
    false, false, false, true, true, false)), (String ((Ascii (true, true,
    false, true, false, true, true, false)), (String ((Ascii (true, false,
    true, false, false, true, true, false)), (String ((Ascii (false, true,
    false, false, true, true, true, false)), (String ((Ascii (true, false,
    false, true, false, false, true, false)), (String ((Ascii (false, false,
    true, false, false, true, true, false)),
    EmptyString)))))))))))))))) :: ((String ((Ascii (false, false, true,
    true, false, false, true, false)), (String ((Ascii (true, false, true,
    false, false, true, true, false)), (String ((Ascii (false, true, true,
    true, false, true, true, false)), (String ((Ascii (false, false, true,
    false, false, true, true, false)), (String ((Ascii (true, false, false,
    true, false, false, true, false)), (String ((Ascii (false, false, true,
    false, false, true, true, false)), EmptyString)))))))))))) :: ((String
    ((Ascii (false, true, false, false, false, false, true, false)), (String
    ((Ascii (true, true, true, true, false, true, true, false)), (String
    ((Ascii (false, true, false, false, true, true, true, false)), (String
    ((Ascii (false, true, false, false, true, true, true, false)), (String
    ((Ascii (true, true, true, true, false, true, true, false)), (String
    ((Ascii (true, true, true, false, true, true, true, false)), (String
    ((Ascii (true, false, false, true, false, false, true, false)), (String
    ((Ascii (false, false, true, false, false, true, true, false)),
    EmptyString)))))))))))))))) :: ((String ((Ascii (true, true, true, true,
    false, false, true, false)), (String ((Ascii (false, true, false, false,
    true, true, true, false)), (String ((Ascii (false, false, true, false,
    false, true, true, false)), (String ((Ascii (true, false, true, false,
    false, true, true, false)), (String ((Ascii (false, true, false, false,
    true, true, true, false)), (String ((Ascii (true, false, false, true,
    false, false, true, false)), (String ((Ascii (false, false, true, false,
    false, true, true, false)), EmptyString)))))))))))))) :: ((String ((Ascii
    (false, true, true, false, true, false, true, false)), (String ((Ascii
    (true, false, false, false, false, true, true, false)), (String ((Ascii
    (true, false, true, false, true, true, true, false)), (String ((Ascii
    (false, false, true, true, false, true, true, false)), (String ((Ascii
    (false, false, true, false, true, true, true, false)), (String ((Ascii
    (true, false, false, true, false, false, true, false)), (String ((Ascii
    (false, false, true, false, false, true, true, false)),
    EmptyString)))))))))))))) :: ((String ((Ascii (true, false, false, true,
    false, false, true, false)), (String ((Ascii (false, false, true, false,
    false, true, true, false)), EmptyString)))) :: [])))))))

(** val signer_keyed_msgs : string list **)

let signer_keyed_msgs =
  (String ((Ascii (false, false, true, true, false, true, true, false)),
    (String ((Ascii (true, false, false, true, false, true, true, false)),
    (String ((Ascii (true, false, false, false, true, true, true, false)),
    (String ((Ascii (true, false, true, false, true, true, true, false)),
    (String ((Ascii (true, false, false, true, false, true, true, false)),
    (String ((Ascii (false, false, true, false, false, true, true, false)),
    (String ((Ascii (true, false, false, true, false, true, true, false)),
    (String ((Ascii (false, false, true, false, true, true, true, false)),
    (String ((Ascii (true, false, false, true, true, true, true, false)),
    (String ((Ascii (false, true, true, true, false, true, false, false)),
    (String ((Ascii (true, false, true, true, false, false, true, false)),
    (String ((Ascii (true, true, false, false, true, true, true, false)),
    (String ((Ascii (true, true, true, false, false, true, true, false)),
    (String ((Ascii (true, false, true, false, true, false, true, false)),
    (String ((Ascii (false, true, true, true, false, true, true, false)),
    (String ((Ascii (false, true, true, false, false, true, true, false)),
    (String ((Ascii (true, false, false, false, false, true, true, false)),
    (String ((Ascii (false, true, false, false, true, true, true, false)),
    (String ((Ascii (true, false, true, true, false, true, true, false)),
    EmptyString)))))))))))))))))))))))))))))))))))))) :: ((String ((Ascii
    (false, false, true, true, false, true, true, false)), (String ((Ascii
    (true, false, false, true, false, true, true, false)), (String ((Ascii
    (true, false, false, false, true, true, true, false)), (String ((Ascii
    (true, false, true, false, true, true, true, false)), (String ((Ascii
    (true, false, false, true, false, true, true, false)), (String ((Ascii
    (false, false, true, false, false, true, true, false)), (String ((Ascii
    (true, false, false, true, false, true, true, false)), (String ((Ascii
    (false, false, true, false, true, true, true, false)), (String ((Ascii
    (true, false, false, true, true, true, true, false)), (String ((Ascii
    (false, true, true, true, false, true, false, false)), (String ((Ascii
    (true, false, true, true, false, false, true, false)), (String ((Ascii
    (true, true, false, false, true, true, true, false)), (String ((Ascii
    (true, true, true, false, false, true, true, false)), (String ((Ascii
    (true, false, true, false, true, false, true, false)), (String ((Ascii
    (false, true, true, true, false, true, true, false)), (String ((Ascii
    (false, true, true, false, false, true, true, false)), (String ((Ascii
    (true, false, false, false, false, true, true, false)), (String ((Ascii
    (false, true, false, false, true, true, true, false)), (String ((Ascii
    (true, false, true, true, false, true, true, false)), (String ((Ascii
    (true, false, false, false, false, false, true, false)), (String ((Ascii
    (false, true, true, true, false, true, true, false)), (String ((Ascii
    (false, false, true, false, false, true, true, false)), (String ((Ascii
    (true, true, true, false, true, false, true, false)), (String ((Ascii
    (true, false, false, true, false, true, true, false)), (String ((Ascii
    (false, false, true, false, true, true, true, false)), (String ((Ascii
    (false, false, false, true, false, true, true, false)), (String ((Ascii
    (false, false, true, false, false, true, true, false)), (String ((Ascii
    (false, true, false, false, true, true, true, false)), (String ((Ascii
    (true, false, false, false, false, true, true, false)), (String ((Ascii
    (true, true, true, false, true, true, true, false)),
    EmptyString)))))))))))))))))))))))))))))))))))))))))))))))))))))))))))) :: ((String
    ((Ascii (false, false, true, true, false, true, true, false)), (String
    ((Ascii (true, false, false, true, false, true, true, false)), (String
    ((Ascii (true, false, false, false, true, true, true, false)), (String
    ((Ascii (true, false, true, false, true, true, true, false)), (String
    ((Ascii (true, false, false, true, false, true, true, false)), (String
    ((Ascii (false, false, true, false, false, true, true, false)), (String
    ((Ascii (true, false, false, true, false, true, true, false)), (String
    ((Ascii (false, false, true, false, true, true, true, false)), (String
    ((Ascii (true, false, false, true, true, true, true, false)), (String
    ((Ascii (false, true, true, true, false, true, false, false)), (String
    ((Ascii (true, false, true, true, false, false, true, false)), (String
    ((Ascii (true, true, false, false, true, true, true, false)), (String
    ((Ascii (true, true, true, false, false, true, true, false)), (String
    ((Ascii (true, true, false, false, false, false, true, false)), (String
    ((Ascii (true, false, false, false, false, true, true, false)), (String
    ((Ascii (false, true, true, true, false, true, true, false)), (String
    ((Ascii (true, true, false, false, false, true, true, false)), (String
    ((Ascii (true, false, true, false, false, true, true, false)), (String
    ((Ascii (false, false, true, true, false, true, true, false)), (String
    ((Ascii (true, false, false, false, false, false, true, false)), (String
    ((Ascii (false, false, true, true, false, true, true, false)), (String
    ((Ascii (false, false, true, true, false, true, true, false)), (String
    ((Ascii (true, true, true, true, false, false, true, false)), (String
    ((Ascii (false, true, false, false, true, true, true, false)), (String
    ((Ascii (false, false, true, false, false, true, true, false)), (String
    ((Ascii (true, false, true, false, false, true, true, false)), (String
    ((Ascii (false, true, false, false, true, true, true, false)), (String
    ((Ascii (true, true, false, false, true, true, true, false)),
    EmptyString)))))))))))))))))))))))))))))))))))))))))))))))))))))))) :: ((String
    ((Ascii (false, false, true, true, false, true, true, false)), (String
    ((Ascii (true, false, false, true, false, true, true, false)), (String
    ((Ascii (true, false, false, false, true, true, true, false)), (String
    ((Ascii (true, false, true, false, true, true, true, false)), (String
    ((Ascii (true, false, false, true, false, true, true, false)), (String
    ((Ascii (false, false, true, false, false, true, true, false)), (String
    ((Ascii (true, false, false, true, false, true, true, false)), (String
    ((Ascii (false, false, true, false, true, true, true, false)), (String
    ((Ascii (true, false, false, true, true, true, true, false)), (String
    ((Ascii (false, true, true, true, false, true, false, false)), (String
    ((Ascii (true, false, true, true, false, false, true, false)), (String
    ((Ascii (true, true, false, false, true, true, true, false)), (String
    ((Ascii (true, true, true, false, false, true, true, false)), (String
    ((Ascii (true, true, false, false, false, false, true, false)), (String
    ((Ascii (true, false, false, false, false, true, true, false)), (String
    ((Ascii (false, true, true, true, false, true, true, false)), (String
    ((Ascii (true, true, false, false, false, true, true, false)), (String
    ((Ascii (true, false, true, false, false, true, true, false)), (String
    ((Ascii (false, false, true, true, false, true, true, false)), (String
    ((Ascii (true, false, true, true, false, false, true, false)), (String
    ((Ascii (true, false, true, true, false, false, true, false)), (String
    ((Ascii (true, true, true, true, false, false, true, false)), (String
    ((Ascii (false, true, false, false, true, true, true, false)), (String
    ((Ascii (false, false, true, false, false, true, true, false)), (String
    ((Ascii (true, false, true, false, false, true, true, false)), (String
    ((Ascii (false, true, false, false, true, true, true, false)),
    EmptyString)))))))))))))))))))))))))))))))))))))))))))))))))))) :: ((String
    ((Ascii (true, false, false, false, false, true, true, false)), (String
    ((Ascii (true, false, true, false, true, true, true, false)), (String
    ((Ascii (true, true, false, false, false, true, true, false)), (String
    ((Ascii (false, false, true, false, true, true, true, false)), (String
    ((Ascii (true, false, false, true, false, true, true, false)), (String
    ((Ascii (true, true, true, true, false, true, true, false)), (String
    ((Ascii (false, true, true, true, false, true, true, false)), (String
    ((Ascii (true, true, false, false, true, true, true, false)), (String
    ((Ascii (false, true, true, false, true, false, true, false)), (String
    ((Ascii (false, true, false, false, true, true, false, false)), (String
    ((Ascii (false, true, true, true, false, true, false, false)), (String
    ((Ascii (true, false, true, true, false, false, true, false)), (String
    ((Ascii (true, true, false, false, true, true, true, false)), (String
    ((Ascii (true, true, true, false, false, true, true, false)), (String
    ((Ascii (true, true, false, false, false, false, true, false)), (String
    ((Ascii (true, false, false, false, false, true, true, false)), (String
    ((Ascii (false, true, true, true, false, true, true, false)), (String
    ((Ascii (true, true, false, false, false, true, true, false)), (String
    ((Ascii (true, false, true, false, false, true, true, false)), (String
    ((Ascii (false, false, true, true, false, true, true, false)), (String
    ((Ascii (false, false, true, true, false, false, true, false)), (String
    ((Ascii (true, false, false, true, false, true, true, false)), (String
    ((Ascii (true, false, true, true, false, true, true, false)), (String
    ((Ascii (true, false, false, true, false, true, true, false)), (String
    ((Ascii (false, false, true, false, true, true, true, false)), (String
    ((Ascii (false, true, false, false, false, false, true, false)), (String
    ((Ascii (true, false, false, true, false, true, true, false)), (String
    ((Ascii (false, false, true, false, false, true, true, false)), (String
    ((Ascii (false, true, false, false, true, false, true, false)), (String
    ((Ascii (true, false, true, false, false, true, true, false)), (String
    ((Ascii (true, false, false, false, true, true, true, false)), (String
    ((Ascii (true, false, true, false, true, true, true, false)), (String
    ((Ascii (true, false, true, false, false, true, true, false)), (String
    ((Ascii (true, true, false, false, true, true, true, false)), (String
    ((Ascii (false, false, true, false, true, true, true, false)),
    EmptyString)))))))))))))))))))))))))))))))))))))))))))))))))))))))))))))))))))))) :: ((String
    ((Ascii (true, false, false, false, false, true, true, false)), (String
    ((Ascii (true, false, true, false, true, true, true, false)), (String
    ((Ascii (true, true, false, false, false, true, true, false)), (String
    ((Ascii (false, false, true, false, true, true, true, false)), (String
    ((Ascii (true, false, false, true, false, true, true, false)), (String
    ((Ascii (true, true, true, true, false, true, true, false)), (String
    ((Ascii (false, true, true, true, false, true, true, false)), (String
    ((Ascii (true, true, false, false, true, true, true, false)), (String
    ((Ascii (false, true, true, false, true, false, true, false)), (String
    ((Ascii (false, true, false, false, true, true, false, false)), (String
    ((Ascii (false, true, true, true, false, true, false, false)), (String
    ((Ascii (true, false, true, true, false, false, true, false)), (String
    ((Ascii (true, true, false, false, true, true, true, false)), (String
    ((Ascii (true, true, true, false, false, true, true, false)), (String
    ((Ascii (true, true, true, false, true, false, true, false)), (String
    ((Ascii (true, false, false, true, false, true, true, false)), (String
    ((Ascii (false, false, true, false, true, true, true, false)), (String
    ((Ascii (false, false, false, true, false, true, true, false)), (String
    ((Ascii (false, false, true, false, false, true, true, false)), (String
    ((Ascii (false, true, false, false, true, true, true, false)), (String
    ((Ascii (true, false, false, false, false, true, true, false)), (String
    ((Ascii (true, true, true, false, true, true, true, false)), (String
    ((Ascii (false, false, true, true, false, false, true, false)), (String
    ((Ascii (true, false, false, true, false, true, true, false)), (String
    ((Ascii (true, false, true, true, false, true, true, false)), (String
    ((Ascii (true, false, false, true, false, true, true, false)), (String
    ((Ascii (false, false, true, false, true, true, true, false)), (String
    ((Ascii (false, true, false, false, false, false, true, false)), (String
    ((Ascii (true, false, false, true, false, true, true, false)), (String
    ((Ascii (false, false, true, false, false, true, true, false)), (String
    ((Ascii (false, true, false, false, true, false, true, false)), (String
    ((Ascii (true, false, true, false, false, true, true, false)), (String
    ((Ascii (true, false, false, false, true, true, true, false)), (String
    ((Ascii (true, false, true, false, true, true, true, false)), (String
    ((Ascii (true, false, true, false, false, true, true, false)), (String
    ((Ascii (true, true, false, false, true, true, true, false)), (String
    ((Ascii (false, false, true, false, true, true, true, false)),
    EmptyString)))))))))))))))))))))))))))))))))))))))))))))))))))))))))))))))))))))))))) :: [])))))

(** val owner_exempt : (string * string) list **)

let owner_exempt =
  ((String ((Ascii (false, true, true, false, true, true, true, false)),
    (String ((Ascii (true, false, false, false, false, true, true, false)),
    (String ((Ascii (true, false, true, false, true, true, true, false)),
    (String ((Ascii (false, false, true, true, false, true, true, false)),
    (String ((Ascii (false, false, true, false, true, true, true, false)),
    (String ((Ascii (false, true, true, true, false, true, false, false)),
    (String ((Ascii (true, false, true, true, false, false, true, false)),
    (String ((Ascii (true, true, false, false, true, true, true, false)),
    (String ((Ascii (true, true, true, false, false, true, true, false)),
    (String ((Ascii (false, false, true, false, false, false, true, false)),
    (String ((Ascii (true, false, true, false, false, true, true, false)),
    (String ((Ascii (false, false, false, false, true, true, true, false)),
    (String ((Ascii (true, true, true, true, false, true, true, false)),
    (String ((Ascii (true, true, false, false, true, true, true, false)),
    (String ((Ascii (true, false, false, true, false, true, true, false)),
    (String ((Ascii (false, false, true, false, true, true, true, false)),
    (String ((Ascii (true, true, false, false, true, false, true, false)),
    (String ((Ascii (false, false, true, false, true, true, true, false)),
    (String ((Ascii (true, false, false, false, false, true, true, false)),
    (String ((Ascii (false, true, false, false, false, true, true, false)),
    (String ((Ascii (false, false, true, true, false, true, true, false)),
    (String ((Ascii (true, false, true, false, false, true, true, false)),
    (String ((Ascii (true, false, true, true, false, false, true, false)),
    (String ((Ascii (true, false, false, true, false, true, true, false)),
    (String ((Ascii (false, true, true, true, false, true, true, false)),
    (String ((Ascii (false, false, true, false, true, true, true, false)),
    (String ((Ascii (false, true, false, false, true, false, true, false)),
    (String ((Ascii (true, false, true, false, false, true, true, false)),
    (String ((Ascii (true, false, false, false, true, true, true, false)),
    (String ((Ascii (true, false, true, false, true, true, true, false)),
    (String ((Ascii (true, false, true, false, false, true, true, false)),
    (String ((Ascii (true, true, false, false, true, true, true, false)),
    (String ((Ascii (false, false, true, false, true, true, true, false)),
    EmptyString)))))))))))))))))))))))))))))))))))))))))))))))))))))))))))))))))),
    (String ((Ascii (true, true, false, false, true, true, true, false)),
    (String ((Ascii (false, false, true, false, true, true, true, false)),
    (String ((Ascii (true, false, false, false, false, true, true, false)),
    (String ((Ascii (false, true, false, false, false, true, true, false)),
    (String ((Ascii (false, false, true, true, false, true, true, false)),
    (String ((Ascii (true, false, true, false, false, true, true, false)),
    (String ((Ascii (true, false, true, true, false, true, false, false)),
    (String ((Ascii (true, false, true, true, false, true, true, false)),
    (String ((Ascii (true, false, false, true, false, true, true, false)),
    (String ((Ascii (false, true, true, true, false, true, true, false)),
    (String ((Ascii (false, false, true, false, true, true, true, false)),
    (String ((Ascii (false, false, false, false, false, true, false, false)),
    (String ((Ascii (false, true, true, false, true, true, true, false)),
    (String ((Ascii (true, false, false, false, false, true, true, false)),
    (String ((Ascii (true, false, true, false, true, true, true, false)),
    (String ((Ascii (false, false, true, true, false, true, true, false)),
    (String ((Ascii (false, false, true, false, true, true, true, false)),
    (String ((Ascii (false, false, false, false, false, true, false, false)),
    (String ((Ascii (true, false, true, true, true, true, false, false)),
    (String ((Ascii (false, false, false, false, false, true, false, false)),
    (String ((Ascii (true, true, false, false, true, true, true, false)),
    (String ((Ascii (false, false, false, true, false, true, true, false)),
    (String ((Ascii (true, false, false, false, false, true, true, false)),
    (String ((Ascii (false, true, false, false, true, true, true, false)),
    (String ((Ascii (true, false, true, false, false, true, true, false)),
    (String ((Ascii (false, false, true, false, false, true, true, false)),
    (String ((Ascii (false, false, false, false, false, true, false, false)),
    (String ((Ascii (false, false, false, false, true, true, true, false)),
    (String ((Ascii (true, false, true, false, false, true, true, false)),
    (String ((Ascii (true, true, true, false, false, true, true, false)),
    (String ((Ascii (true, false, true, true, false, true, false, false)),
    (String ((Ascii (true, true, false, false, true, true, true, false)),
    (String ((Ascii (false, false, true, false, true, true, true, false)),
    (String ((Ascii (true, false, false, false, false, true, true, false)),
    (String ((Ascii (false, true, false, false, false, true, true, false)),
    (String ((Ascii (true, false, false, true, false, true, true, false)),
    (String ((Ascii (false, false, true, true, false, true, true, false)),
    (String ((Ascii (true, false, false, true, false, true, true, false)),
    (String ((Ascii (false, false, true, false, true, true, true, false)),
    (String ((Ascii (true, false, false, true, true, true, true, false)),
    (String ((Ascii (false, false, false, false, false, true, false, false)),
    (String ((Ascii (false, false, false, false, true, true, true, false)),
    (String ((Ascii (true, true, true, true, false, true, true, false)),
    (String ((Ascii (true, true, true, true, false, true, true, false)),
    (String ((Ascii (false, false, true, true, false, true, true, false)),
    (String ((Ascii (false, false, false, false, false, true, false, false)),
    (String ((Ascii (true, true, true, true, false, true, true, false)),
    (String ((Ascii (false, true, true, false, false, true, true, false)),
    (String ((Ascii (false, false, false, false, false, true, false, false)),
    (String ((Ascii (false, false, true, false, true, true, true, false)),
    (String ((Ascii (false, false, false, true, false, true, true, false)),
    (String ((Ascii (true, false, true, false, false, true, true, false)),
    (String ((Ascii (false, false, false, false, false, true, false, false)),
    (String ((Ascii (true, false, false, false, false, true, true, false)),
    (String ((Ascii (false, false, false, false, true, true, true, false)),
    (String ((Ascii (false, false, false, false, true, true, true, false)),
    (String ((Ascii (false, true, false, true, true, true, false, false)),
    (String ((Ascii (false, false, false, false, false, true, false, false)),
    (String ((Ascii (true, true, false, false, true, false, true, false)),
    (String ((Ascii (false, false, true, false, true, true, true, false)),
    (String ((Ascii (true, false, false, false, false, true, true, false)),
    (String ((Ascii (false, true, false, false, false, true, true, false)),
    (String ((Ascii (false, false, true, true, false, true, true, false)),
    (String ((Ascii (true, false, true, false, false, true, true, false)),
    (String ((Ascii (false, true, true, false, true, false, true, false)),
    (String ((Ascii (true, false, false, false, false, true, true, false)),
    (String ((Ascii (true, false, true, false, true, true, true, false)),
    (String ((Ascii (false, false, true, true, false, true, true, false)),
    (String ((Ascii (false, false, true, false, true, true, true, false)),
    (String ((Ascii (true, false, false, true, false, false, true, false)),
    (String ((Ascii (false, false, true, false, false, true, true, false)),
    (String ((Ascii (false, false, false, false, false, true, false, false)),
    (String ((Ascii (false, true, true, true, false, true, true, false)),
    (String ((Ascii (true, false, false, false, false, true, true, false)),
    (String ((Ascii (true, false, true, true, false, true, true, false)),
    (String ((Ascii (true, false, true, false, false, true, true, false)),
    (String ((Ascii (true, true, false, false, true, true, true, false)),
    (String ((Ascii (false, false, false, false, false, true, false, false)),
    (String ((Ascii (false, false, true, false, true, true, true, false)),
    (String ((Ascii (false, false, false, true, false, true, true, false)),
    (String ((Ascii (true, false, true, false, false, true, true, false)),
    (String ((Ascii (false, false, false, false, false, true, false, false)),
    (String ((Ascii (false, false, false, false, true, true, true, false)),
    (String ((Ascii (true, true, true, true, false, true, true, false)),
    (String ((Ascii (true, true, true, true, false, true, true, false)),
    (String ((Ascii (false, false, true, true, false, true, true, false)),
    (String ((Ascii (false, false, true, true, false, true, false, false)),
    (String ((Ascii (false, false, false, false, false, true, false, false)),
    (String ((Ascii (true, false, true, false, false, true, true, false)),
    (String ((Ascii (false, true, true, false, true, true, true, false)),
    (String ((Ascii (true, false, true, false, false, true, true, false)),
    (String ((Ascii (false, true, false, false, true, true, true, false)),
    (String ((Ascii (true, false, false, true, true, true, true, false)),
    (String ((Ascii (false, false, false, false, false, true, false, false)),
    (String ((Ascii (true, false, false, false, false, true, true, false)),
    (String ((Ascii (true, true, false, false, false, true, true, false)),
    (String ((Ascii (true, true, false, false, false, true, true, false)),
    (String ((Ascii (true, true, true, true, false, true, true, false)),
    (String ((Ascii (true, false, true, false, true, true, true, false)),
    (String ((Ascii (false, true, true, true, false, true, true, false)),
    (String ((Ascii (false, false, true, false, true, true, true, false)),
    (String ((Ascii (false, false, false, false, false, true, false, false)),
    (String ((Ascii (true, false, true, true, false, true, true, false)),
    (String ((Ascii (true, false, false, false, false, true, true, false)),
    (String ((Ascii (true, false, false, true, true, true, true, false)),
    (String ((Ascii (false, false, false, false, false, true, false, false)),
    (String ((Ascii (true, true, false, false, true, true, true, false)),
    (String ((Ascii (true, true, true, false, true, true, true, false)),
    (String ((Ascii (true, false, false, false, false, true, true, false)),
    (String ((Ascii (false, false, false, false, true, true, true, false)),
    (String ((Ascii (false, false, false, false, false, true, false, false)),
    (String ((Ascii (true, false, false, true, false, true, true, false)),
    (String ((Ascii (false, true, true, true, false, true, true, false)),
    EmptyString))))))))))))))))))))))))))))))))))))))))))))))))))))))))))))))))))))))))))))))))))))))))))))))))))))))))))))))))))))))))))))))))))))))))))))))))))))))))))))))))))))))))))))))))))))))))))))))))))))))))))))))))))))))))))))))))))) :: (((String
    ((Ascii (false, true, true, false, true, true, true, false)), (String
    ((Ascii (true, false, false, false, false, true, true, false)), (String
    ((Ascii (true, false, true, false, true, true, true, false)), (String
    ((Ascii (false, false, true, true, false, true, true, false)), (String
    ((Ascii (false, false, true, false, true, true, true, false)), (String
    ((Ascii (false, true, true, true, false, true, false, false)), (String
    ((Ascii (true, false, true, true, false, false, true, false)), (String
    ((Ascii (true, true, false, false, true, true, true, false)), (String
    ((Ascii (true, true, true, false, false, true, true, false)), (String
    ((Ascii (true, true, true, false, true, false, true, false)), (String
    ((Ascii (true, false, false, true, false, true, true, false)), (String
    ((Ascii (false, false, true, false, true, true, true, false)), (String
    ((Ascii (false, false, false, true, false, true, true, false)), (String
    ((Ascii (false, false, true, false, false, true, true, false)), (String
    ((Ascii (false, true, false, false, true, true, true, false)), (String
    ((Ascii (true, false, false, false, false, true, true, false)), (String
    ((Ascii (true, true, true, false, true, true, true, false)), (String
    ((Ascii (true, true, false, false, true, false, true, false)), (String
    ((Ascii (false, false, true, false, true, true, true, false)), (String
    ((Ascii (true, false, false, false, false, true, true, false)), (String
    ((Ascii (false, true, false, false, false, true, true, false)), (String
    ((Ascii (false, false, true, true, false, true, true, false)), (String
    ((Ascii (true, false, true, false, false, true, true, false)), (String
    ((Ascii (true, false, true, true, false, false, true, false)), (String
    ((Ascii (true, false, false, true, false, true, true, false)), (String
    ((Ascii (false, true, true, true, false, true, true, false)), (String
    ((Ascii (false, false, true, false, true, true, true, false)), (String
    ((Ascii (false, true, false, false, true, false, true, false)), (String
    ((Ascii (true, false, true, false, false, true, true, false)), (String
    ((Ascii (true, false, false, false, true, true, true, false)), (String
    ((Ascii (true, false, true, false, true, true, true, false)), (String
    ((Ascii (true, false, true, false, false, true, true, false)), (String
    ((Ascii (true, true, false, false, true, true, true, false)), (String
    ((Ascii (false, false, true, false, true, true, true, false)),
    EmptyString)))))))))))))))))))))))))))))))))))))))))))))))))))))))))))))))))))),
    (String ((Ascii (true, true, false, false, true, true, true, false)),
    (String ((Ascii (false, false, true, false, true, true, true, false)),
    (String ((Ascii (true, false, false, false, false, true, true, false)),
    (String ((Ascii (false, true, false, false, false, true, true, false)),
    (String ((Ascii (false, false, true, true, false, true, true, false)),
    (String ((Ascii (true, false, true, false, false, true, true, false)),
    (String ((Ascii (true, false, true, true, false, true, false, false)),
    (String ((Ascii (true, false, true, true, false, true, true, false)),
    (String ((Ascii (true, false, false, true, false, true, true, false)),
    (String ((Ascii (false, true, true, true, false, true, true, false)),
    (String ((Ascii (false, false, true, false, true, true, true, false)),
    (String ((Ascii (false, false, false, false, false, true, false, false)),
    (String ((Ascii (false, true, true, false, true, true, true, false)),
    (String ((Ascii (true, false, false, false, false, true, true, false)),
    (String ((Ascii (true, false, true, false, true, true, true, false)),
    (String ((Ascii (false, false, true, true, false, true, true, false)),
    (String ((Ascii (false, false, true, false, true, true, true, false)),
    (String ((Ascii (false, false, false, false, false, true, false, false)),
    (String ((Ascii (true, false, true, true, true, true, false, false)),
    (String ((Ascii (false, false, false, false, false, true, false, false)),
    (String ((Ascii (true, true, false, false, true, true, true, false)),
    (String ((Ascii (false, false, false, true, false, true, true, false)),
    (String ((Ascii (true, false, false, false, false, true, true, false)),
    (String ((Ascii (false, true, false, false, true, true, true, false)),
    (String ((Ascii (true, false, true, false, false, true, true, false)),
    (String ((Ascii (false, false, true, false, false, true, true, false)),
    (String ((Ascii (false, false, false, false, false, true, false, false)),
    (String ((Ascii (false, false, false, false, true, true, true, false)),
    (String ((Ascii (true, false, true, false, false, true, true, false)),
    (String ((Ascii (true, true, true, false, false, true, true, false)),
    (String ((Ascii (true, false, true, true, false, true, false, false)),
    (String ((Ascii (true, true, false, false, true, true, true, false)),
    (String ((Ascii (false, false, true, false, true, true, true, false)),
    (String ((Ascii (true, false, false, false, false, true, true, false)),
    (String ((Ascii (false, true, false, false, false, true, true, false)),
    (String ((Ascii (true, false, false, true, false, true, true, false)),
    (String ((Ascii (false, false, true, true, false, true, true, false)),
    (String ((Ascii (true, false, false, true, false, true, true, false)),
    (String ((Ascii (false, false, true, false, true, true, true, false)),
    (String ((Ascii (true, false, false, true, true, true, true, false)),
    (String ((Ascii (false, false, false, false, false, true, false, false)),
    (String ((Ascii (false, false, false, false, true, true, true, false)),
    (String ((Ascii (true, true, true, true, false, true, true, false)),
    (String ((Ascii (true, true, true, true, false, true, true, false)),
    (String ((Ascii (false, false, true, true, false, true, true, false)),
    (String ((Ascii (false, false, false, false, false, true, false, false)),
    (String ((Ascii (true, true, true, true, false, true, true, false)),
    (String ((Ascii (false, true, true, false, false, true, true, false)),
    (String ((Ascii (false, false, false, false, false, true, false, false)),
    (String ((Ascii (false, false, true, false, true, true, true, false)),
    (String ((Ascii (false, false, false, true, false, true, true, false)),
    (String ((Ascii (true, false, true, false, false, true, true, false)),
    (String ((Ascii (false, false, false, false, false, true, false, false)),
    (String ((Ascii (true, false, false, false, false, true, true, false)),
    (String ((Ascii (false, false, false, false, true, true, true, false)),
    (String ((Ascii (false, false, false, false, true, true, true, false)),
    (String ((Ascii (false, true, false, true, true, true, false, false)),
    (String ((Ascii (false, false, false, false, false, true, false, false)),
    (String ((Ascii (true, false, true, false, false, true, true, false)),
    (String ((Ascii (false, true, true, false, true, true, true, false)),
    (String ((Ascii (true, false, true, false, false, true, true, false)),
    (String ((Ascii (false, true, false, false, true, true, true, false)),
    (String ((Ascii (true, false, false, true, true, true, true, false)),
    (String ((Ascii (false, false, false, false, false, true, false, false)),
    (String ((Ascii (true, false, false, false, false, true, true, false)),
    (String ((Ascii (true, true, false, false, false, true, true, false)),
    (String ((Ascii (true, true, false, false, false, true, true, false)),
    (String ((Ascii (true, true, true, true, false, true, true, false)),
    (String ((Ascii (true, false, true, false, true, true, true, false)),
    (String ((Ascii (false, true, true, true, false, true, true, false)),
    (String ((Ascii (false, false, true, false, true, true, true, false)),
    (String ((Ascii (false, false, false, false, false, true, false, false)),
    (String ((Ascii (true, false, true, true, false, true, true, false)),
    (String ((Ascii (true, false, false, false, false, true, true, false)),
    (String ((Ascii (true, false, false, true, true, true, true, false)),
    (String ((Ascii (false, false, false, false, false, true, false, false)),
    (String ((Ascii (true, true, false, false, true, true, true, false)),
    (String ((Ascii (true, true, true, false, true, true, true, false)),
    (String ((Ascii (true, false, false, false, false, true, true, false)),
    (String ((Ascii (false, false, false, false, true, true, true, false)),
    (String ((Ascii (false, false, false, false, false, true, false, false)),
    (String ((Ascii (true, false, false, true, false, true, true, false)),
    (String ((Ascii (false, false, true, false, true, true, true, false)),
    (String ((Ascii (true, true, false, false, true, true, true, false)),
    (String ((Ascii (false, false, false, false, false, true, false, false)),
    (String ((Ascii (true, true, false, false, true, true, true, false)),
    (String ((Ascii (false, false, true, false, true, true, true, false)),
    (String ((Ascii (true, false, false, false, false, true, true, false)),
    (String ((Ascii (false, true, false, false, false, true, true, false)),
    (String ((Ascii (false, false, true, true, false, true, true, false)),
    (String ((Ascii (true, false, true, false, false, true, true, false)),
    (String ((Ascii (true, true, false, false, false, true, true, false)),
    (String ((Ascii (true, true, true, true, false, true, true, false)),
    (String ((Ascii (true, false, false, true, false, true, true, false)),
    (String ((Ascii (false, true, true, true, false, true, true, false)),
    (String ((Ascii (false, false, false, false, false, true, false, false)),
    (String ((Ascii (false, true, false, false, false, true, true, false)),
    (String ((Ascii (true, false, false, false, false, true, true, false)),
    (String ((Ascii (true, true, false, false, false, true, true, false)),
    (String ((Ascii (true, true, false, true, false, true, true, false)),
    (String ((Ascii (false, false, false, false, false, true, false, false)),
    (String ((Ascii (true, true, true, true, false, true, true, false)),
    (String ((Ascii (true, false, true, false, true, true, true, false)),
    (String ((Ascii (false, false, true, false, true, true, true, false)),
    EmptyString))))))))))))))))))))))))))))))))))))))))))))))))))))))))))))))))))))))))))))))))))))))))))))))))))))))))))))))))))))))))))))))))))))))))))))))))))))))))))))))))))))))))))))))))))))))))))))))))))))))))))))))))) :: (((String
    ((Ascii (false, true, true, false, true, true, true, false)), (String
    ((Ascii (true, false, false, false, false, true, true, false)), (String
    ((Ascii (true, false, true, false, true, true, true, false)), (String
    ((Ascii (false, false, true, true, false, true, true, false)), (String
    ((Ascii (false, false, true, false, true, true, true, false)), (String
    ((Ascii (false, true, true, true, false, true, false, false)), (String
    ((Ascii (true, false, true, true, false, false, true, false)), (String
    ((Ascii (true, true, false, false, true, true, true, false)), (String
    ((Ascii (true, true, true, false, false, true, true, false)), (String
    ((Ascii (false, true, true, false, true, false, true, false)), (String
    ((Ascii (true, false, false, false, false, true, true, false)), (String
    ((Ascii (true, false, true, false, true, true, true, false)), (String
    ((Ascii (false, false, true, true, false, true, true, false)), (String
    ((Ascii (false, false, true, false, true, true, true, false)), (String
    ((Ascii (true, false, false, true, false, false, true, false)), (String
    ((Ascii (false, true, true, true, false, true, true, false)), (String
    ((Ascii (false, false, true, false, true, true, true, false)), (String
    ((Ascii (true, false, true, false, false, true, true, false)), (String
    ((Ascii (false, true, false, false, true, true, true, false)), (String
    ((Ascii (true, false, true, false, false, true, true, false)), (String
    ((Ascii (true, true, false, false, true, true, true, false)), (String
    ((Ascii (false, false, true, false, true, true, true, false)), (String
    ((Ascii (true, true, false, false, false, false, true, false)), (String
    ((Ascii (true, false, false, false, false, true, true, false)), (String
    ((Ascii (false, false, true, true, false, true, true, false)), (String
    ((Ascii (true, true, false, false, false, true, true, false)), (String
    ((Ascii (false, true, false, false, true, false, true, false)), (String
    ((Ascii (true, false, true, false, false, true, true, false)), (String
    ((Ascii (true, false, false, false, true, true, true, false)), (String
    ((Ascii (true, false, true, false, true, true, true, false)), (String
    ((Ascii (true, false, true, false, false, true, true, false)), (String
    ((Ascii (true, true, false, false, true, true, true, false)), (String
    ((Ascii (false, false, true, false, true, true, true, false)),
    EmptyString)))))))))))))))))))))))))))))))))))))))))))))))))))))))))))))))))),
    (String ((Ascii (true, true, true, true, false, true, true, false)),
    (String ((Ascii (false, true, true, true, false, true, true, false)),
    (String ((Ascii (false, false, true, true, false, true, true, false)),
    (String ((Ascii (true, false, false, true, true, true, true, false)),
    (String ((Ascii (false, false, false, false, false, true, false, false)),
    (String ((Ascii (true, false, false, false, false, true, true, false)),
    (String ((Ascii (true, true, false, false, false, true, true, false)),
    (String ((Ascii (true, true, false, false, false, true, true, false)),
    (String ((Ascii (false, true, false, false, true, true, true, false)),
    (String ((Ascii (true, false, true, false, true, true, true, false)),
    (String ((Ascii (true, false, true, false, false, true, true, false)),
    (String ((Ascii (true, true, false, false, true, true, true, false)),
    (String ((Ascii (false, false, false, false, false, true, false, false)),
    (String ((Ascii (true, false, false, true, false, true, true, false)),
    (String ((Ascii (false, true, true, true, false, true, true, false)),
    (String ((Ascii (false, false, true, false, true, true, true, false)),
    (String ((Ascii (true, false, true, false, false, true, true, false)),
    (String ((Ascii (false, true, false, false, true, true, true, false)),
    (String ((Ascii (true, false, true, false, false, true, true, false)),
    (String ((Ascii (true, true, false, false, true, true, true, false)),
    (String ((Ascii (false, false, true, false, true, true, true, false)),
    (String ((Ascii (false, false, false, false, false, true, false, false)),
    (String ((Ascii (true, true, true, true, false, true, true, false)),
    (String ((Ascii (false, true, true, true, false, true, true, false)),
    (String ((Ascii (false, false, false, false, false, true, false, false)),
    (String ((Ascii (false, false, true, false, true, true, true, false)),
    (String ((Ascii (false, false, false, true, false, true, true, false)),
    (String ((Ascii (true, false, true, false, false, true, true, false)),
    (String ((Ascii (false, false, false, false, false, true, false, false)),
    (String ((Ascii (false, true, true, true, false, true, true, false)),
    (String ((Ascii (true, false, false, false, false, true, true, false)),
    (String ((Ascii (true, false, true, true, false, true, true, false)),
    (String ((Ascii (true, false, true, false, false, true, true, false)),
    (String ((Ascii (false, false, true, false, false, true, true, false)),
    (String ((Ascii (false, false, false, false, false, true, false, false)),
    (String ((Ascii (false, true, true, false, true, true, true, false)),
    (String ((Ascii (true, false, false, false, false, true, true, false)),
    (String ((Ascii (true, false, true, false, true, true, true, false)),
    (String ((Ascii (false, false, true, true, false, true, true, false)),
    (String ((Ascii (false, false, true, false, true, true, true, false)),
    (String ((Ascii (true, true, false, true, true, true, false, false)),
    (String ((Ascii (false, false, false, false, false, true, false, false)),
    (String ((Ascii (true, false, true, true, false, true, true, false)),
    (String ((Ascii (true, true, true, true, false, true, true, false)),
    (String ((Ascii (false, true, true, false, true, true, true, false)),
    (String ((Ascii (true, false, true, false, false, true, true, false)),
    (String ((Ascii (true, true, false, false, true, true, true, false)),
    (String ((Ascii (false, false, true, true, false, true, false, false)),
    (String ((Ascii (false, false, false, false, false, true, false, false)),
    (String ((Ascii (false, true, false, false, true, true, true, false)),
    (String ((Ascii (true, false, true, false, false, true, true, false)),
    (String ((Ascii (false, false, true, false, false, true, true, false)),
    (String ((Ascii (true, false, true, false, true, true, true, false)),
    (String ((Ascii (true, true, false, false, false, true, true, false)),
    (String ((Ascii (true, false, true, false, false, true, true, false)),
    (String ((Ascii (true, true, false, false, true, true, true, false)),
    (String ((Ascii (false, false, true, true, false, true, false, false)),
    (String ((Ascii (false, false, false, false, false, true, false, false)),
    (String ((Ascii (true, true, false, false, false, true, true, false)),
    (String ((Ascii (false, false, true, true, false, true, true, false)),
    (String ((Ascii (true, true, true, true, false, true, true, false)),
    (String ((Ascii (true, true, false, false, true, true, true, false)),
    (String ((Ascii (true, false, true, false, false, true, true, false)),
    (String ((Ascii (true, true, false, false, true, true, true, false)),
    (String ((Ascii (false, false, false, false, false, true, false, false)),
    (String ((Ascii (false, true, true, true, false, true, true, false)),
    (String ((Ascii (true, true, true, true, false, true, true, false)),
    (String ((Ascii (false, false, true, false, true, true, true, false)),
    (String ((Ascii (false, false, false, true, false, true, true, false)),
    (String ((Ascii (true, false, false, true, false, true, true, false)),
    (String ((Ascii (false, true, true, true, false, true, true, false)),
    (String ((Ascii (true, true, true, false, false, true, true, false)),
    EmptyString))))))))))))))))))))))))))))))))))))))))))))))))))))))))))))))))))))))))))))))))))))))))))))))))))))))))))))))))))))))))))))))))))))))))))))))))) :: (((String
    ((Ascii (false, false, true, true, false, true, true, false)), (String
    ((Ascii (true, true, true, true, false, true, true, false)), (String
    ((Ascii (true, true, false, false, false, true, true, false)), (String
    ((Ascii (true, true, false, true, false, true, true, false)), (String
    ((Ascii (true, false, true, false, false, true, true, false)), (String
    ((Ascii (false, true, false, false, true, true, true, false)), (String
    ((Ascii (false, true, true, true, false, true, false, false)), (String
    ((Ascii (true, false, true, true, false, false, true, false)), (String
    ((Ascii (true, true, false, false, true, true, true, false)), (String
    ((Ascii (true, true, true, false, false, true, true, false)), (String
    ((Ascii (false, false, true, true, false, false, true, false)), (String
    ((Ascii (true, true, true, true, false, true, true, false)), (String
    ((Ascii (true, true, false, false, false, true, true, false)), (String
    ((Ascii (true, true, false, true, false, true, true, false)), (String
    ((Ascii (true, false, true, false, false, true, true, false)), (String
    ((Ascii (false, true, false, false, true, true, true, false)), (String
    ((Ascii (false, true, false, false, true, false, true, false)), (String
    ((Ascii (true, false, true, false, false, true, true, false)), (String
    ((Ascii (true, true, true, false, true, true, true, false)), (String
    ((Ascii (true, false, false, false, false, true, true, false)), (String
    ((Ascii (false, true, false, false, true, true, true, false)), (String
    ((Ascii (false, false, true, false, false, true, true, false)), (String
    ((Ascii (true, true, false, false, false, false, true, false)), (String
    ((Ascii (true, false, false, false, false, true, true, false)), (String
    ((Ascii (false, false, true, true, false, true, true, false)), (String
    ((Ascii (true, true, false, false, false, true, true, false)), (String
    ((Ascii (false, true, false, false, true, false, true, false)), (String
    ((Ascii (true, false, true, false, false, true, true, false)), (String
    ((Ascii (true, false, false, false, true, true, true, false)), (String
    ((Ascii (true, false, true, false, true, true, true, false)), (String
    ((Ascii (true, false, true, false, false, true, true, false)), (String
    ((Ascii (true, true, false, false, true, true, true, false)), (String
    ((Ascii (false, false, true, false, true, true, true, false)),
    EmptyString)))))))))))))))))))))))))))))))))))))))))))))))))))))))))))))))))),
    (String ((Ascii (true, true, true, true, false, true, true, false)),
    (String ((Ascii (false, true, true, true, false, true, true, false)),
    (String ((Ascii (false, false, true, true, false, true, true, false)),
    (String ((Ascii (true, false, false, true, true, true, true, false)),
    (String ((Ascii (false, false, false, false, false, true, false, false)),
    (String ((Ascii (true, false, false, false, false, true, true, false)),
    (String ((Ascii (true, true, false, false, false, true, true, false)),
    (String ((Ascii (true, true, false, false, false, true, true, false)),
    (String ((Ascii (false, true, false, false, true, true, true, false)),
    (String ((Ascii (true, false, true, false, true, true, true, false)),
    (String ((Ascii (true, false, true, false, false, true, true, false)),
    (String ((Ascii (true, true, false, false, true, true, true, false)),
    (String ((Ascii (false, false, false, false, false, true, false, false)),
    (String ((Ascii (false, true, false, false, true, true, true, false)),
    (String ((Ascii (true, false, true, false, false, true, true, false)),
    (String ((Ascii (true, true, true, false, true, true, true, false)),
    (String ((Ascii (true, false, false, false, false, true, true, false)),
    (String ((Ascii (false, true, false, false, true, true, true, false)),
    (String ((Ascii (false, false, true, false, false, true, true, false)),
    (String ((Ascii (true, true, false, false, true, true, true, false)),
    (String ((Ascii (false, false, false, false, false, true, false, false)),
    (String ((Ascii (true, true, true, true, false, true, true, false)),
    (String ((Ascii (false, true, true, true, false, true, true, false)),
    (String ((Ascii (false, false, false, false, false, true, false, false)),
    (String ((Ascii (false, false, true, false, true, true, true, false)),
    (String ((Ascii (false, false, false, true, false, true, true, false)),
    (String ((Ascii (true, false, true, false, false, true, true, false)),
    (String ((Ascii (false, false, false, false, false, true, false, false)),
    (String ((Ascii (false, true, true, true, false, true, true, false)),
    (String ((Ascii (true, false, false, false, false, true, true, false)),
    (String ((Ascii (true, false, true, true, false, true, true, false)),
    (String ((Ascii (true, false, true, false, false, true, true, false)),
    (String ((Ascii (false, false, true, false, false, true, true, false)),
    (String ((Ascii (false, false, false, false, false, true, false, false)),
    (String ((Ascii (false, false, true, true, false, true, true, false)),
    (String ((Ascii (true, true, true, true, false, true, true, false)),
    (String ((Ascii (true, true, false, false, false, true, true, false)),
    (String ((Ascii (true, true, false, true, false, true, true, false)),
    (String ((Ascii (true, false, true, false, false, true, true, false)),
    (String ((Ascii (false, true, false, false, true, true, true, false)),
    EmptyString))))))))))))))))))))))))))))))))))))))))))))))))))))))))))))))))))))))))))))))))) :: (((String
    ((Ascii (false, false, true, true, false, true, true, false)), (String
    ((Ascii (true, false, false, true, false, true, true, false)), (String
    ((Ascii (true, false, false, false, true, true, true, false)), (String
    ((Ascii (true, false, true, false, true, true, true, false)), (String
    ((Ascii (true, false, false, true, false, true, true, false)), (String
    ((Ascii (false, false, true, false, false, true, true, false)), (String
    ((Ascii (true, false, false, false, false, true, true, false)), (String
    ((Ascii (false, false, true, false, true, true, true, false)), (String
    ((Ascii (true, false, false, true, false, true, true, false)), (String
    ((Ascii (true, true, true, true, false, true, true, false)), (String
    ((Ascii (false, true, true, true, false, true, true, false)), (String
    ((Ascii (false, true, true, true, false, true, false, false)), (String
    ((Ascii (true, false, true, true, false, false, true, false)), (String
    ((Ascii (true, true, false, false, true, true, true, false)), (String
    ((Ascii (true, true, true, false, false, true, true, false)), (String
    ((Ascii (false, false, true, true, false, false, true, false)), (String
    ((Ascii (true, false, false, true, false, true, true, false)), (String
    ((Ascii (true, false, false, false, true, true, true, false)), (String
    ((Ascii (true, false, true, false, true, true, true, false)), (String
    ((Ascii (true, false, false, true, false, true, true, false)), (String
    ((Ascii (false, false, true, false, false, true, true, false)), (String
    ((Ascii (true, false, false, false, false, true, true, false)), (String
    ((Ascii (false, false, true, false, true, true, true, false)), (String
    ((Ascii (true, false, true, false, false, true, true, false)), (String
    ((Ascii (false, true, true, false, true, false, true, false)), (String
    ((Ascii (true, false, false, false, false, true, true, false)), (String
    ((Ascii (true, false, true, false, true, true, true, false)), (String
    ((Ascii (false, false, true, true, false, true, true, false)), (String
    ((Ascii (false, false, true, false, true, true, true, false)), (String
    ((Ascii (false, true, false, false, true, false, true, false)), (String
    ((Ascii (true, false, true, false, false, true, true, false)), (String
    ((Ascii (true, false, false, false, true, true, true, false)), (String
    ((Ascii (true, false, true, false, true, true, true, false)), (String
    ((Ascii (true, false, true, false, false, true, true, false)), (String
    ((Ascii (true, true, false, false, true, true, true, false)), (String
    ((Ascii (false, false, true, false, true, true, true, false)),
    EmptyString)))))))))))))))))))))))))))))))))))))))))))))))))))))))))))))))))))))))),
    (String ((Ascii (false, false, true, true, false, true, true, false)),
    (String ((Ascii (true, false, false, true, false, true, true, false)),
    (String ((Ascii (true, false, false, false, true, true, true, false)),
    (String ((Ascii (true, false, true, false, true, true, true, false)),
    (String ((Ascii (true, false, false, true, false, true, true, false)),
    (String ((Ascii (false, false, true, false, false, true, true, false)),
    (String ((Ascii (true, false, false, false, false, true, true, false)),
    (String ((Ascii (false, false, true, false, true, true, true, false)),
    (String ((Ascii (true, false, false, true, false, true, true, false)),
    (String ((Ascii (true, true, true, true, false, true, true, false)),
    (String ((Ascii (false, true, true, true, false, true, true, false)),
    (String ((Ascii (false, false, false, false, false, true, false, false)),
    (String ((Ascii (true, true, true, true, false, true, true, false)),
    (String ((Ascii (false, true, true, false, false, true, true, false)),
    (String ((Ascii (false, false, false, false, false, true, false, false)),
    (String ((Ascii (true, false, false, false, false, true, true, false)),
    (String ((Ascii (false, true, true, true, false, true, true, false)),
    (String ((Ascii (false, false, false, false, false, true, false, false)),
    (String ((Ascii (true, false, true, false, true, true, true, false)),
    (String ((Ascii (false, true, true, true, false, true, true, false)),
    (String ((Ascii (false, false, false, true, false, true, true, false)),
    (String ((Ascii (true, false, true, false, false, true, true, false)),
    (String ((Ascii (true, false, false, false, false, true, true, false)),
    (String ((Ascii (false, false, true, true, false, true, true, false)),
    (String ((Ascii (false, false, true, false, true, true, true, false)),
    (String ((Ascii (false, false, false, true, false, true, true, false)),
    (String ((Ascii (true, false, false, true, true, true, true, false)),
    (String ((Ascii (false, false, false, false, false, true, false, false)),
    (String ((Ascii (false, true, true, false, true, true, true, false)),
    (String ((Ascii (true, false, false, false, false, true, true, false)),
    (String ((Ascii (true, false, true, false, true, true, true, false)),
    (String ((Ascii (false, false, true, true, false, true, true, false)),
    (String ((Ascii (false, false, true, false, true, true, true, false)),
    (String ((Ascii (false, false, false, false, false, true, false, false)),
    (String ((Ascii (true, false, false, true, false, true, true, false)),
    (String ((Ascii (true, true, false, false, true, true, true, false)),
    (String ((Ascii (false, false, false, false, false, true, false, false)),
    (String ((Ascii (false, false, false, false, true, true, true, false)),
    (String ((Ascii (true, false, true, false, false, true, true, false)),
    (String ((Ascii (false, true, false, false, true, true, true, false)),
    (String ((Ascii (true, false, true, true, false, true, true, false)),
    (String ((Ascii (true, false, false, true, false, true, true, false)),
    (String ((Ascii (true, true, false, false, true, true, true, false)),
    (String ((Ascii (true, true, false, false, true, true, true, false)),
    (String ((Ascii (true, false, false, true, false, true, true, false)),
    (String ((Ascii (true, true, true, true, false, true, true, false)),
    (String ((Ascii (false, true, true, true, false, true, true, false)),
    (String ((Ascii (false, false, true, true, false, true, true, false)),
    (String ((Ascii (true, false, true, false, false, true, true, false)),
    (String ((Ascii (true, true, false, false, true, true, true, false)),
    (String ((Ascii (true, true, false, false, true, true, true, false)),
    (String ((Ascii (false, false, false, false, false, true, false, false)),
    (String ((Ascii (false, true, false, false, false, true, true, false)),
    (String ((Ascii (true, false, false, true, true, true, true, false)),
    (String ((Ascii (false, false, false, false, false, true, false, false)),
    (String ((Ascii (false, false, true, false, false, true, true, false)),
    (String ((Ascii (true, false, true, false, false, true, true, false)),
    (String ((Ascii (true, true, false, false, true, true, true, false)),
    (String ((Ascii (true, false, false, true, false, true, true, false)),
    (String ((Ascii (true, true, true, false, false, true, true, false)),
    (String ((Ascii (false, true, true, true, false, true, true, false)),
    (String ((Ascii (false, false, false, false, false, true, false, false)),
    (String ((Ascii (false, false, false, true, false, true, false, false)),
    (String ((Ascii (true, false, true, false, false, true, true, false)),
    (String ((Ascii (false, false, true, true, false, true, true, false)),
    (String ((Ascii (true, false, false, true, false, true, true, false)),
    (String ((Ascii (true, true, true, false, false, true, true, false)),
    (String ((Ascii (true, false, false, true, false, true, true, false)),
    (String ((Ascii (false, true, false, false, false, true, true, false)),
    (String ((Ascii (true, false, false, true, false, true, true, false)),
    (String ((Ascii (false, false, true, true, false, true, true, false)),
    (String ((Ascii (true, false, false, true, false, true, true, false)),
    (String ((Ascii (false, false, true, false, true, true, true, false)),
    (String ((Ascii (true, false, false, true, true, true, true, false)),
    (String ((Ascii (false, false, false, false, false, true, false, false)),
    (String ((Ascii (true, false, false, true, false, true, true, false)),
    (String ((Ascii (true, true, false, false, true, true, true, false)),
    (String ((Ascii (false, false, false, false, false, true, false, false)),
    (String ((Ascii (true, true, false, false, false, false, true, false)),
    (String ((Ascii (false, false, false, false, true, true, false, false)),
    (String ((Ascii (true, false, false, true, true, true, false, false)),
    (String ((Ascii (true, false, false, true, false, true, false, false)),
    EmptyString))))))))))))))))))))))))))))))))))))))))))))))))))))))))))))))))))))))))))))))))))))))))))))))))))))))))))))))))))))))))))))))))))))))))))))))))))))))))))))))))))))) :: (((String
    ((Ascii (false, false, true, true, false, true, true, false)), (String
    ((Ascii (true, false, false, true, false, true, true, false)), (String
    ((Ascii (true, false, false, false, true, true, true, false)), (String
    ((Ascii (true, false, true, false, true, true, true, false)), (String
    ((Ascii (true, false, false, true, false, true, true, false)), (String
    ((Ascii (false, false, true, false, false, true, true, false)), (String
    ((Ascii (true, false, false, false, false, true, true, false)), (String
    ((Ascii (false, false, true, false, true, true, true, false)), (String
    ((Ascii (true, false, false, true, false, true, true, false)), (String
    ((Ascii (true, true, true, true, false, true, true, false)), (String
    ((Ascii (false, true, true, true, false, true, true, false)), (String
    ((Ascii (false, true, true, true, false, true, false, false)), (String
    ((Ascii (true, false, true, true, false, false, true, false)), (String
    ((Ascii (true, true, false, false, true, true, true, false)), (String
    ((Ascii (true, true, true, false, false, true, true, false)), (String
    ((Ascii (false, false, true, true, false, false, true, false)), (String
    ((Ascii (true, false, false, true, false, true, true, false)), (String
    ((Ascii (true, false, false, false, true, true, true, false)), (String
    ((Ascii (true, false, true, false, true, true, true, false)), (String
    ((Ascii (true, false, false, true, false, true, true, false)), (String
    ((Ascii (false, false, true, false, false, true, true, false)), (String
    ((Ascii (true, false, false, false, false, true, true, false)), (String
    ((Ascii (false, false, true, false, true, true, true, false)), (String
    ((Ascii (true, false, true, false, false, true, true, false)), (String
    ((Ascii (false, true, false, false, false, false, true, false)), (String
    ((Ascii (true, true, true, true, false, true, true, false)), (String
    ((Ascii (false, true, false, false, true, true, true, false)), (String
    ((Ascii (false, true, false, false, true, true, true, false)), (String
    ((Ascii (true, true, true, true, false, true, true, false)), (String
    ((Ascii (true, true, true, false, true, true, true, false)), (String
    ((Ascii (false, true, false, false, true, false, true, false)), (String
    ((Ascii (true, false, true, false, false, true, true, false)), (String
    ((Ascii (true, false, false, false, true, true, true, false)), (String
    ((Ascii (true, false, true, false, true, true, true, false)), (String
    ((Ascii (true, false, true, false, false, true, true, false)), (String
    ((Ascii (true, true, false, false, true, true, true, false)), (String
    ((Ascii (false, false, true, false, true, true, true, false)),
    EmptyString)))))))))))))))))))))))))))))))))))))))))))))))))))))))))))))))))))))))))),
    (String ((Ascii (false, false, true, true, false, true, true, false)),
    (String ((Ascii (true, false, false, true, false, true, true, false)),
    (String ((Ascii (true, false, false, false, true, true, true, false)),
    (String ((Ascii (true, false, true, false, true, true, true, false)),
    (String ((Ascii (true, false, false, true, false, true, true, false)),
    (String ((Ascii (false, false, true, false, false, true, true, false)),
    (String ((Ascii (true, false, false, false, false, true, true, false)),
    (String ((Ascii (false, false, true, false, true, true, true, false)),
    (String ((Ascii (true, false, false, true, false, true, true, false)),
    (String ((Ascii (true, true, true, true, false, true, true, false)),
    (String ((Ascii (false, true, true, true, false, true, true, false)),
    (String ((Ascii (false, false, false, false, false, true, false, false)),
    (String ((Ascii (true, true, true, true, false, true, true, false)),
    (String ((Ascii (false, true, true, false, false, true, true, false)),
    (String ((Ascii (false, false, false, false, false, true, false, false)),
    (String ((Ascii (true, false, false, false, false, true, true, false)),
    (String ((Ascii (false, true, true, true, false, true, true, false)),
    (String ((Ascii (false, false, false, false, false, true, false, false)),
    (String ((Ascii (true, false, true, false, true, true, true, false)),
    (String ((Ascii (false, true, true, true, false, true, true, false)),
    (String ((Ascii (false, false, false, true, false, true, true, false)),
    (String ((Ascii (true, false, true, false, false, true, true, false)),
    (String ((Ascii (true, false, false, false, false, true, true, false)),
    (String ((Ascii (false, false, true, true, false, true, true, false)),
    (String ((Ascii (false, false, true, false, true, true, true, false)),
    (String ((Ascii (false, false, false, true, false, true, true, false)),
    (String ((Ascii (true, false, false, true, true, true, true, false)),
    (String ((Ascii (false, false, false, false, false, true, false, false)),
    (String ((Ascii (false, true, false, false, false, true, true, false)),
    (String ((Ascii (true, true, true, true, false, true, true, false)),
    (String ((Ascii (false, true, false, false, true, true, true, false)),
    (String ((Ascii (false, true, false, false, true, true, true, false)),
    (String ((Ascii (true, true, true, true, false, true, true, false)),
    (String ((Ascii (true, true, true, false, true, true, true, false)),
    (String ((Ascii (false, false, false, false, false, true, false, false)),
    (String ((Ascii (true, false, false, true, false, true, true, false)),
    (String ((Ascii (true, true, false, false, true, true, true, false)),
    (String ((Ascii (false, false, false, false, false, true, false, false)),
    (String ((Ascii (false, false, false, false, true, true, true, false)),
    (String ((Ascii (true, false, true, false, false, true, true, false)),
    (String ((Ascii (false, true, false, false, true, true, true, false)),
    (String ((Ascii (true, false, true, true, false, true, true, false)),
    (String ((Ascii (true, false, false, true, false, true, true, false)),
    (String ((Ascii (true, true, false, false, true, true, true, false)),
    (String ((Ascii (true, true, false, false, true, true, true, false)),
    (String ((Ascii (true, false, false, true, false, true, true, false)),
    (String ((Ascii (true, true, true, true, false, true, true, false)),
    (String ((Ascii (false, true, true, true, false, true, true, false)),
    (String ((Ascii (false, false, true, true, false, true, true, false)),
    (String ((Ascii (true, false, true, false, false, true, true, false)),
    (String ((Ascii (true, true, false, false, true, true, true, false)),
    (String ((Ascii (true, true, false, false, true, true, true, false)),
    (String ((Ascii (false, false, false, false, false, true, false, false)),
    (String ((Ascii (false, true, false, false, false, true, true, false)),
    (String ((Ascii (true, false, false, true, true, true, true, false)),
    (String ((Ascii (false, false, false, false, false, true, false, false)),
    (String ((Ascii (false, false, true, false, false, true, true, false)),
    (String ((Ascii (true, false, true, false, false, true, true, false)),
    (String ((Ascii (true, true, false, false, true, true, true, false)),
    (String ((Ascii (true, false, false, true, false, true, true, false)),
    (String ((Ascii (true, true, true, false, false, true, true, false)),
    (String ((Ascii (false, true, true, true, false, true, true, false)),
    (String ((Ascii (false, false, false, false, false, true, false, false)),
    (String ((Ascii (false, false, false, true, false, true, false, false)),
    (String ((Ascii (true, false, true, false, false, true, true, false)),
    (String ((Ascii (false, false, true, true, false, true, true, false)),
    (String ((Ascii (true, false, false, true, false, true, true, false)),
    (String ((Ascii (true, true, true, false, false, true, true, false)),
    (String ((Ascii (true, false, false, true, false, true, true, false)),
    (String ((Ascii (false, true, false, false, false, true, true, false)),
    (String ((Ascii (true, false, false, true, false, true, true, false)),
    (String ((Ascii (false, false, true, true, false, true, true, false)),
    (String ((Ascii (true, false, false, true, false, true, true, false)),
    (String ((Ascii (false, false, true, false, true, true, true, false)),
    (String ((Ascii (true, false, false, true, true, true, true, false)),
    (String ((Ascii (false, false, false, false, false, true, false, false)),
    (String ((Ascii (true, false, false, true, false, true, true, false)),
    (String ((Ascii (true, true, false, false, true, true, true, false)),
    (String ((Ascii (false, false, false, false, false, true, false, false)),
    (String ((Ascii (true, true, false, false, false, false, true, false)),
    (String ((Ascii (false, false, false, false, true, true, false, false)),
    (String ((Ascii (true, false, false, true, true, true, false, false)),
    (String ((Ascii (true, false, false, true, false, true, false, false)),
    EmptyString))))))))))))))))))))))))))))))))))))))))))))))))))))))))))))))))))))))))))))))))))))))))))))))))))))))))))))))))))))))))))))))))))))))))))))))))))))))))))))))))))))))) :: (((String
    ((Ascii (false, false, true, true, false, true, true, false)), (String
    ((Ascii (true, false, false, true, false, true, true, false)), (String
    ((Ascii (true, false, false, false, true, true, true, false)), (String
    ((Ascii (true, false, true, false, true, true, true, false)), (String
    ((Ascii (true, false, false, true, false, true, true, false)), (String
    ((Ascii (false, false, true, false, false, true, true, false)), (String
    ((Ascii (true, false, false, false, false, true, true, false)), (String
    ((Ascii (false, false, true, false, true, true, true, false)), (String
    ((Ascii (true, false, false, true, false, true, true, false)), (String
    ((Ascii (true, true, true, true, false, true, true, false)), (String
    ((Ascii (false, true, true, true, false, true, true, false)), (String
    ((Ascii (true, true, false, false, true, true, true, false)), (String
    ((Ascii (false, true, true, false, true, false, true, false)), (String
    ((Ascii (false, true, false, false, true, true, false, false)), (String
    ((Ascii (false, true, true, true, false, true, false, false)), (String
    ((Ascii (true, false, true, true, false, false, true, false)), (String
    ((Ascii (true, true, false, false, true, true, true, false)), (String
    ((Ascii (true, true, true, false, false, true, true, false)), (String
    ((Ascii (false, false, true, true, false, false, true, false)), (String
    ((Ascii (true, false, false, true, false, true, true, false)), (String
    ((Ascii (true, false, false, false, true, true, true, false)), (String
    ((Ascii (true, false, true, false, true, true, true, false)), (String
    ((Ascii (true, false, false, true, false, true, true, false)), (String
    ((Ascii (false, false, true, false, false, true, true, false)), (String
    ((Ascii (true, false, false, false, false, true, true, false)), (String
    ((Ascii (false, false, true, false, true, true, true, false)), (String
    ((Ascii (true, false, true, false, false, true, true, false)), (String
    ((Ascii (true, false, false, true, false, false, true, false)), (String
    ((Ascii (false, true, true, true, false, true, true, false)), (String
    ((Ascii (false, false, true, false, true, true, true, false)), (String
    ((Ascii (true, false, true, false, false, true, true, false)), (String
    ((Ascii (false, true, false, false, true, true, true, false)), (String
    ((Ascii (false, true, true, true, false, true, true, false)), (String
    ((Ascii (true, false, false, false, false, true, true, false)), (String
    ((Ascii (false, false, true, true, false, true, true, false)), (String
    ((Ascii (true, true, false, true, false, false, true, false)), (String
    ((Ascii (true, false, true, false, false, true, true, false)), (String
    ((Ascii (true, false, true, false, false, true, true, false)), (String
    ((Ascii (false, false, false, false, true, true, true, false)), (String
    ((Ascii (true, false, true, false, false, true, true, false)), (String
    ((Ascii (false, true, false, false, true, true, true, false)), (String
    ((Ascii (false, true, false, false, true, false, true, false)), (String
    ((Ascii (true, false, true, false, false, true, true, false)), (String
    ((Ascii (true, false, false, false, true, true, true, false)), (String
    ((Ascii (true, false, true, false, true, true, true, false)), (String
    ((Ascii (true, false, true, false, false, true, true, false)), (String
    ((Ascii (true, true, false, false, true, true, true, false)), (String
    ((Ascii (false, false, true, false, true, true, true, false)),
    EmptyString)))))))))))))))))))))))))))))))))))))))))))))))))))))))))))))))))))))))))))))))))))))))))))))))),
    (String ((Ascii (false, false, true, true, false, true, true, false)),
    (String ((Ascii (true, false, false, true, false, true, true, false)),
    (String ((Ascii (true, false, false, false, true, true, true, false)),
    (String ((Ascii (true, false, true, false, true, true, true, false)),
    (String ((Ascii (true, false, false, true, false, true, true, false)),
    (String ((Ascii (false, false, true, false, false, true, true, false)),
    (String ((Ascii (true, false, false, false, false, true, true, false)),
    (String ((Ascii (false, false, true, false, true, true, true, false)),
    (String ((Ascii (true, false, false, true, false, true, true, false)),
    (String ((Ascii (true, true, true, true, false, true, true, false)),
    (String ((Ascii (false, true, true, true, false, true, true, false)),
    (String ((Ascii (false, false, false, false, false, true, false, false)),
    (String ((Ascii (true, false, false, true, false, true, true, false)),
    (String ((Ascii (true, true, false, false, true, true, true, false)),
    (String ((Ascii (false, false, false, false, false, true, false, false)),
    (String ((Ascii (false, false, false, false, true, true, true, false)),
    (String ((Ascii (true, false, true, false, false, true, true, false)),
    (String ((Ascii (false, true, false, false, true, true, true, false)),
    (String ((Ascii (true, false, true, true, false, true, true, false)),
    (String ((Ascii (true, false, false, true, false, true, true, false)),
    (String ((Ascii (true, true, false, false, true, true, true, false)),
    (String ((Ascii (true, true, false, false, true, true, true, false)),
    (String ((Ascii (true, false, false, true, false, true, true, false)),
    (String ((Ascii (true, true, true, true, false, true, true, false)),
    (String ((Ascii (false, true, true, true, false, true, true, false)),
    (String ((Ascii (false, false, true, true, false, true, true, false)),
    (String ((Ascii (true, false, true, false, false, true, true, false)),
    (String ((Ascii (true, true, false, false, true, true, true, false)),
    (String ((Ascii (true, true, false, false, true, true, true, false)),
    (String ((Ascii (false, false, false, false, false, true, false, false)),
    (String ((Ascii (false, true, false, false, false, true, true, false)),
    (String ((Ascii (true, false, false, true, true, true, true, false)),
    (String ((Ascii (false, false, false, false, false, true, false, false)),
    (String ((Ascii (false, false, true, false, false, true, true, false)),
    (String ((Ascii (true, false, true, false, false, true, true, false)),
    (String ((Ascii (true, true, false, false, true, true, true, false)),
    (String ((Ascii (true, false, false, true, false, true, true, false)),
    (String ((Ascii (true, true, true, false, false, true, true, false)),
    (String ((Ascii (false, true, true, true, false, true, true, false)),
    (String ((Ascii (false, false, false, false, false, true, false, false)),
    (String ((Ascii (false, false, false, true, false, true, false, false)),
    (String ((Ascii (true, false, true, false, false, true, true, false)),
    (String ((Ascii (false, false, true, true, false, true, true, false)),
    (String ((Ascii (true, false, false, true, false, true, true, false)),
    (String ((Ascii (true, true, true, false, false, true, true, false)),
    (String ((Ascii (true, false, false, true, false, true, true, false)),
    (String ((Ascii (false, true, false, false, false, true, true, false)),
    (String ((Ascii (true, false, false, true, false, true, true, false)),
    (String ((Ascii (false, false, true, true, false, true, true, false)),
    (String ((Ascii (true, false, false, true, false, true, true, false)),
    (String ((Ascii (false, false, true, false, true, true, true, false)),
    (String ((Ascii (true, false, false, true, true, true, true, false)),
    (String ((Ascii (false, false, false, false, false, true, false, false)),
    (String ((Ascii (true, false, false, true, false, true, true, false)),
    (String ((Ascii (true, true, false, false, true, true, true, false)),
    (String ((Ascii (false, false, false, false, false, true, false, false)),
    (String ((Ascii (true, true, false, false, false, false, true, false)),
    (String ((Ascii (false, false, false, false, true, true, false, false)),
    (String ((Ascii (true, false, false, true, true, true, false, false)),
    (String ((Ascii (true, false, false, true, false, true, false, false)),
    EmptyString))))))))))))))))))))))))))))))))))))))))))))))))))))))))))))))))))))))))))))))))))))))))))))))))))))))))))))))))))))))))) :: []))))))

(** val names_position : msg_type -> bool **)

let names_position m =
  (||) (existsb (fun f -> mem f position_id_fields) m.mt_ids)
    (mem (mt_qname m) signer_keyed_msgs)

(** val is_exempt : msg_type -> bool **)

let is_exempt m =
  mem (mt_qname m) (map fst owner_exempt)

(** val position_msgs : msg_type list **)

let position_msgs =
  filter (fun m -> (&&) (names_position m) (negb (is_exempt m))) msg_types

(** val has_owner_guard_items : item list -> bool **)

let has_owner_guard_items its =
  scan helper_rows false is_owner_guard scan_fuel its

(** val owner_ok_items : bool -> item list -> bool **)

let owner_ok_items signer_keyed its =
  (||) (has_owner_guard_items its)
    ((&&) signer_keyed (first_write_signer its))

(** val has_owner_guard : msg_type -> bool **)

let has_owner_guard m =
  match m.mt_signer with
  | Some _ ->
    (match find_handler m.mt_handler with
     | Some h -> owner_ok_items (mem (mt_qname m) signer_keyed_msgs) h.h_items
     | None -> false)
  | None -> false

(** val find_wasm : string -> wasm_row option **)

let find_wasm v =
  find (fun w -> eqb w.w_variant v) wasm_table

(** val kill_switch_ok : bool **)

let kill_switch_ok =
  match find_handler (String ((Ascii (true, false, true, false, false, true,
          true, false)), (String ((Ascii (true, true, false, false, true,
          true, true, false)), (String ((Ascii (true, false, true, true,
          false, true, true, false)), (String ((Ascii (false, true, true,
          true, false, true, false, false)), (String ((Ascii (true, false,
          true, true, false, false, true, false)), (String ((Ascii (true,
          true, false, false, true, true, true, false)), (String ((Ascii
          (true, true, true, false, false, true, true, false)), (String
          ((Ascii (true, true, false, true, false, false, true, false)),
          (String ((Ascii (true, false, false, true, false, true, true,
          false)), (String ((Ascii (false, false, true, true, false, true,
          true, false)), (String ((Ascii (false, false, true, true, false,
          true, true, false)), (String ((Ascii (true, true, false, false,
          true, false, true, false)), (String ((Ascii (true, true, true,
          false, true, true, true, false)), (String ((Ascii (true, false,
          false, true, false, true, true, false)), (String ((Ascii (false,
          false, true, false, true, true, true, false)), (String ((Ascii
          (true, true, false, false, false, true, true, false)), (String
          ((Ascii (false, false, false, true, false, true, true, false)),
          EmptyString)))))))))))))))))))))))))))))))))) with
  | Some h -> scan helper_rows true is_admin_guard scan_fuel h.h_items
  | None -> false

(** val breaker_scope : string list **)

let breaker_scope =
  (String ((Ascii (false, true, true, false, true, true, true, false)),
    (String ((Ascii (true, false, false, false, false, true, true, false)),
    (String ((Ascii (true, false, true, false, true, true, true, false)),
    (String ((Ascii (false, false, true, true, false, true, true, false)),
    (String ((Ascii (false, false, true, false, true, true, true, false)),
    (String ((Ascii (false, true, true, true, false, true, false, false)),
    (String ((Ascii (true, false, true, true, false, false, true, false)),
    (String ((Ascii (true, true, false, false, true, true, true, false)),
    (String ((Ascii (true, true, true, false, false, true, true, false)),
    (String ((Ascii (true, true, false, false, false, false, true, false)),
    (String ((Ascii (false, true, false, false, true, true, true, false)),
    (String ((Ascii (true, false, true, false, false, true, true, false)),
    (String ((Ascii (true, false, false, false, false, true, true, false)),
    (String ((Ascii (false, false, true, false, true, true, true, false)),
    (String ((Ascii (true, false, true, false, false, true, true, false)),
    EmptyString)))))))))))))))))))))))))))))) :: ((String ((Ascii (false,
    true, true, false, true, true, true, false)), (String ((Ascii (true,
    false, false, false, false, true, true, false)), (String ((Ascii (true,
    false, true, false, true, true, true, false)), (String ((Ascii (false,
    false, true, true, false, true, true, false)), (String ((Ascii (false,
    false, true, false, true, true, true, false)), (String ((Ascii (false,
    true, true, true, false, true, false, false)), (String ((Ascii (true,
    false, true, true, false, false, true, false)), (String ((Ascii (true,
    true, false, false, true, true, true, false)), (String ((Ascii (true,
    true, true, false, false, true, true, false)), (String ((Ascii (false,
    false, true, false, false, false, true, false)), (String ((Ascii (true,
    false, true, false, false, true, true, false)), (String ((Ascii (false,
    false, false, false, true, true, true, false)), (String ((Ascii (true,
    true, true, true, false, true, true, false)), (String ((Ascii (true,
    true, false, false, true, true, true, false)), (String ((Ascii (true,
    false, false, true, false, true, true, false)), (String ((Ascii (false,
    false, true, false, true, true, true, false)),
    EmptyString)))))))))))))))))))))))))))))))) :: ((String ((Ascii (false,
    true, true, false, true, true, true, false)), (String ((Ascii (true,
    false, false, false, false, true, true, false)), (String ((Ascii (true,
    false, true, false, true, true, true, false)), (String ((Ascii (false,
    false, true, true, false, true, true, false)), (String ((Ascii (false,
    false, true, false, true, true, true, false)), (String ((Ascii (false,
    true, true, true, false, true, false, false)), (String ((Ascii (true,
    false, true, true, false, false, true, false)), (String ((Ascii (true,
    true, false, false, true, true, true, false)), (String ((Ascii (true,
    true, true, false, false, true, true, false)), (String ((Ascii (true,
    true, true, false, true, false, true, false)), (String ((Ascii (true,
    false, false, true, false, true, true, false)), (String ((Ascii (false,
    false, true, false, true, true, true, false)), (String ((Ascii (false,
    false, false, true, false, true, true, false)), (String ((Ascii (false,
    false, true, false, false, true, true, false)), (String ((Ascii (false,
    true, false, false, true, true, true, false)), (String ((Ascii (true,
    false, false, false, false, true, true, false)), (String ((Ascii (true,
    true, true, false, true, true, true, false)),
    EmptyString)))))))))))))))))))))))))))))))))) :: ((String ((Ascii (false,
    true, true, false, true, true, true, false)), (String ((Ascii (true,
    false, false, false, false, true, true, false)), (String ((Ascii (true,
    false, true, false, true, true, true, false)), (String ((Ascii (false,
    false, true, true, false, true, true, false)), (String ((Ascii (false,
    false, true, false, true, true, true, false)), (String ((Ascii (false,
    true, true, true, false, true, false, false)), (String ((Ascii (true,
    false, true, true, false, false, true, false)), (String ((Ascii (true,
    true, false, false, true, true, true, false)), (String ((Ascii (true,
    true, true, false, false, true, true, false)), (String ((Ascii (false,
    false, true, false, false, false, true, false)), (String ((Ascii (false,
    true, false, false, true, true, true, false)), (String ((Ascii (true,
    false, false, false, false, true, true, false)), (String ((Ascii (true,
    true, true, false, true, true, true, false)),
    EmptyString)))))))))))))))))))))))))) :: ((String ((Ascii (false, true,
    true, false, true, true, true, false)), (String ((Ascii (true, false,
    false, false, false, true, true, false)), (String ((Ascii (true, false,
    true, false, true, true, true, false)), (String ((Ascii (false, false,
    true, true, false, true, true, false)), (String ((Ascii (false, false,
    true, false, true, true, true, false)), (String ((Ascii (false, true,
    true, true, false, true, false, false)), (String ((Ascii (true, false,
    true, true, false, false, true, false)), (String ((Ascii (true, true,
    false, false, true, true, true, false)), (String ((Ascii (true, true,
    true, false, false, true, true, false)), (String ((Ascii (false, true,
    false, false, true, false, true, false)), (String ((Ascii (true, false,
    true, false, false, true, true, false)), (String ((Ascii (false, false,
    false, false, true, true, true, false)), (String ((Ascii (true, false,
    false, false, false, true, true, false)), (String ((Ascii (true, false,
    false, true, true, true, true, false)),
    EmptyString)))))))))))))))))))))))))))) :: ((String ((Ascii (false, true,
    true, false, true, true, true, false)), (String ((Ascii (true, false,
    false, false, false, true, true, false)), (String ((Ascii (true, false,
    true, false, true, true, true, false)), (String ((Ascii (false, false,
    true, true, false, true, true, false)), (String ((Ascii (false, false,
    true, false, true, true, true, false)), (String ((Ascii (false, true,
    true, true, false, true, false, false)), (String ((Ascii (true, false,
    true, true, false, false, true, false)), (String ((Ascii (true, true,
    false, false, true, true, true, false)), (String ((Ascii (true, true,
    true, false, false, true, true, false)), (String ((Ascii (true, true,
    false, false, false, false, true, false)), (String ((Ascii (false, false,
    true, true, false, true, true, false)), (String ((Ascii (true, true,
    true, true, false, true, true, false)), (String ((Ascii (true, true,
    false, false, true, true, true, false)), (String ((Ascii (true, false,
    true, false, false, true, true, false)),
    EmptyString)))))))))))))))))))))))))))) :: ((String ((Ascii (false, true,
    true, false, true, true, true, false)), (String ((Ascii (true, false,
    false, false, false, true, true, false)), (String ((Ascii (true, false,
    true, false, true, true, true, false)), (String ((Ascii (false, false,
    true, true, false, true, true, false)), (String ((Ascii (false, false,
    true, false, true, true, true, false)), (String ((Ascii (false, true,
    true, true, false, true, false, false)), (String ((Ascii (true, false,
    true, true, false, false, true, false)), (String ((Ascii (true, true,
    false, false, true, true, true, false)), (String ((Ascii (true, true,
    true, false, false, true, true, false)), (String ((Ascii (false, false,
    true, false, false, false, true, false)), (String ((Ascii (true, false,
    true, false, false, true, true, false)), (String ((Ascii (false, false,
    false, false, true, true, true, false)), (String ((Ascii (true, true,
    true, true, false, true, true, false)), (String ((Ascii (true, true,
    false, false, true, true, true, false)), (String ((Ascii (true, false,
    false, true, false, true, true, false)), (String ((Ascii (false, false,
    true, false, true, true, true, false)), (String ((Ascii (true, false,
    false, false, false, false, true, false)), (String ((Ascii (false, true,
    true, true, false, true, true, false)), (String ((Ascii (false, false,
    true, false, false, true, true, false)), (String ((Ascii (false, false,
    true, false, false, false, true, false)), (String ((Ascii (false, true,
    false, false, true, true, true, false)), (String ((Ascii (true, false,
    false, false, false, true, true, false)), (String ((Ascii (true, true,
    true, false, true, true, true, false)),
    EmptyString)))))))))))))))))))))))))))))))))))))))))))))) :: ((String
    ((Ascii (false, true, true, false, true, true, true, false)), (String
    ((Ascii (true, false, false, false, false, true, true, false)), (String
    ((Ascii (true, false, true, false, true, true, true, false)), (String
    ((Ascii (false, false, true, true, false, true, true, false)), (String
    ((Ascii (false, false, true, false, true, true, true, false)), (String
    ((Ascii (false, true, true, true, false, true, false, false)), (String
    ((Ascii (true, false, true, true, false, false, true, false)), (String
    ((Ascii (true, true, false, false, true, true, true, false)), (String
    ((Ascii (true, true, true, false, false, true, true, false)), (String
    ((Ascii (true, true, false, false, false, false, true, false)), (String
    ((Ascii (false, true, false, false, true, true, true, false)), (String
    ((Ascii (true, false, true, false, false, true, true, false)), (String
    ((Ascii (true, false, false, false, false, true, true, false)), (String
    ((Ascii (false, false, true, false, true, true, true, false)), (String
    ((Ascii (true, false, true, false, false, true, true, false)), (String
    ((Ascii (true, true, false, false, true, false, true, false)), (String
    ((Ascii (false, false, true, false, true, true, true, false)), (String
    ((Ascii (true, false, false, false, false, true, true, false)), (String
    ((Ascii (false, true, false, false, false, true, true, false)), (String
    ((Ascii (false, false, true, true, false, true, true, false)), (String
    ((Ascii (true, false, true, false, false, true, true, false)), (String
    ((Ascii (true, false, true, true, false, false, true, false)), (String
    ((Ascii (true, false, false, true, false, true, true, false)), (String
    ((Ascii (false, true, true, true, false, true, true, false)), (String
    ((Ascii (false, false, true, false, true, true, true, false)),
    EmptyString)))))))))))))))))))))))))))))))))))))))))))))))))) :: ((String
    ((Ascii (false, true, true, false, true, true, true, false)), (String
    ((Ascii (true, false, false, false, false, true, true, false)), (String
    ((Ascii (true, false, true, false, true, true, true, false)), (String
    ((Ascii (false, false, true, true, false, true, true, false)), (String
    ((Ascii (false, false, true, false, true, true, true, false)), (String
    ((Ascii (false, true, true, true, false, true, false, false)), (String
    ((Ascii (true, false, true, true, false, false, true, false)), (String
    ((Ascii (true, true, false, false, true, true, true, false)), (String
    ((Ascii (true, true, true, false, false, true, true, false)), (String
    ((Ascii (false, false, true, false, false, false, true, false)), (String
    ((Ascii (true, false, true, false, false, true, true, false)), (String
    ((Ascii (false, false, false, false, true, true, true, false)), (String
    ((Ascii (true, true, true, true, false, true, true, false)), (String
    ((Ascii (true, true, false, false, true, true, true, false)), (String
    ((Ascii (true, false, false, true, false, true, true, false)), (String
    ((Ascii (false, false, true, false, true, true, true, false)), (String
    ((Ascii (true, true, false, false, true, false, true, false)), (String
    ((Ascii (false, false, true, false, true, true, true, false)), (String
    ((Ascii (true, false, false, false, false, true, true, false)), (String
    ((Ascii (false, true, false, false, false, true, true, false)), (String
    ((Ascii (false, false, true, true, false, true, true, false)), (String
    ((Ascii (true, false, true, false, false, true, true, false)), (String
    ((Ascii (true, false, true, true, false, false, true, false)), (String
    ((Ascii (true, false, false, true, false, true, true, false)), (String
    ((Ascii (false, true, true, true, false, true, true, false)), (String
    ((Ascii (false, false, true, false, true, true, true, false)),
    EmptyString)))))))))))))))))))))))))))))))))))))))))))))))))))) :: ((String
    ((Ascii (false, true, true, false, true, true, true, false)), (String
    ((Ascii (true, false, false, false, false, true, true, false)), (String
    ((Ascii (true, false, true, false, true, true, true, false)), (String
    ((Ascii (false, false, true, true, false, true, true, false)), (String
    ((Ascii (false, false, true, false, true, true, true, false)), (String
    ((Ascii (false, true, true, true, false, true, false, false)), (String
    ((Ascii (true, false, true, true, false, false, true, false)), (String
    ((Ascii (true, true, false, false, true, true, true, false)), (String
    ((Ascii (true, true, true, false, false, true, true, false)), (String
    ((Ascii (true, true, true, false, true, false, true, false)), (String
    ((Ascii (true, false, false, true, false, true, true, false)), (String
    ((Ascii (false, false, true, false, true, true, true, false)), (String
    ((Ascii (false, false, false, true, false, true, true, false)), (String
    ((Ascii (false, false, true, false, false, true, true, false)), (String
    ((Ascii (false, true, false, false, true, true, true, false)), (String
    ((Ascii (true, false, false, false, false, true, true, false)), (String
    ((Ascii (true, true, true, false, true, true, true, false)), (String
    ((Ascii (true, true, false, false, true, false, true, false)), (String
    ((Ascii (false, false, true, false, true, true, true, false)), (String
    ((Ascii (true, false, false, false, false, true, true, false)), (String
    ((Ascii (false, true, false, false, false, true, true, false)), (String
    ((Ascii (false, false, true, true, false, true, true, false)), (String
    ((Ascii (true, false, true, false, false, true, true, false)), (String
    ((Ascii (true, false, true, true, false, false, true, false)), (String
    ((Ascii (true, false, false, true, false, true, true, false)), (String
    ((Ascii (false, true, true, true, false, true, true, false)), (String
    ((Ascii (false, false, true, false, true, true, true, false)),
    EmptyString)))))))))))))))))))))))))))))))))))))))))))))))))))))) :: ((String
    ((Ascii (false, false, true, true, false, true, true, false)), (String
    ((Ascii (true, true, true, true, false, true, true, false)), (String
    ((Ascii (true, true, false, false, false, true, true, false)), (String
    ((Ascii (true, true, false, true, false, true, true, false)), (String
    ((Ascii (true, false, true, false, false, true, true, false)), (String
    ((Ascii (false, true, false, false, true, true, true, false)), (String
    ((Ascii (false, true, true, true, false, true, false, false)), (String
    ((Ascii (true, false, true, true, false, false, true, false)), (String
    ((Ascii (true, true, false, false, true, true, true, false)), (String
    ((Ascii (true, true, true, false, false, true, true, false)), (String
    ((Ascii (true, true, false, false, false, false, true, false)), (String
    ((Ascii (false, true, false, false, true, true, true, false)), (String
    ((Ascii (true, false, true, false, false, true, true, false)), (String
    ((Ascii (true, false, false, false, false, true, true, false)), (String
    ((Ascii (false, false, true, false, true, true, true, false)), (String
    ((Ascii (true, false, true, false, false, true, true, false)), (String
    ((Ascii (false, false, true, true, false, false, true, false)), (String
    ((Ascii (true, true, true, true, false, true, true, false)), (String
    ((Ascii (true, true, false, false, false, true, true, false)), (String
    ((Ascii (true, true, false, true, false, true, true, false)), (String
    ((Ascii (true, false, true, false, false, true, true, false)), (String
    ((Ascii (false, true, false, false, true, true, true, false)),
    EmptyString)))))))))))))))))))))))))))))))))))))))))))) :: ((String
    ((Ascii (false, false, true, true, false, true, true, false)), (String
    ((Ascii (true, true, true, true, false, true, true, false)), (String
    ((Ascii (true, true, false, false, false, true, true, false)), (String
    ((Ascii (true, true, false, true, false, true, true, false)), (String
    ((Ascii (true, false, true, false, false, true, true, false)), (String
    ((Ascii (false, true, false, false, true, true, true, false)), (String
    ((Ascii (false, true, true, true, false, true, false, false)), (String
    ((Ascii (true, false, true, true, false, false, true, false)), (String
    ((Ascii (true, true, false, false, true, true, true, false)), (String
    ((Ascii (true, true, true, false, false, true, true, false)), (String
    ((Ascii (false, false, true, false, false, false, true, false)), (String
    ((Ascii (true, false, true, false, false, true, true, false)), (String
    ((Ascii (false, false, false, false, true, true, true, false)), (String
    ((Ascii (true, true, true, true, false, true, true, false)), (String
    ((Ascii (true, true, false, false, true, true, true, false)), (String
    ((Ascii (true, false, false, true, false, true, true, false)), (String
    ((Ascii (false, false, true, false, true, true, true, false)), (String
    ((Ascii (true, false, false, false, false, false, true, false)), (String
    ((Ascii (true, true, false, false, true, true, true, false)), (String
    ((Ascii (true, true, false, false, true, true, true, false)), (String
    ((Ascii (true, false, true, false, false, true, true, false)), (String
    ((Ascii (false, false, true, false, true, true, true, false)),
    EmptyString)))))))))))))))))))))))))))))))))))))))))))) :: ((String
    ((Ascii (false, false, true, true, false, true, true, false)), (String
    ((Ascii (true, false, true, false, false, true, true, false)), (String
    ((Ascii (false, true, true, true, false, true, true, false)), (String
    ((Ascii (false, false, true, false, false, true, true, false)), (String
    ((Ascii (false, true, true, true, false, true, false, false)), (String
    ((Ascii (false, false, true, true, false, false, true, false)), (String
    ((Ascii (true, false, true, false, false, true, true, false)), (String
    ((Ascii (false, true, true, true, false, true, true, false)), (String
    ((Ascii (false, false, true, false, false, true, true, false)),
    EmptyString)))))))))))))))))) :: ((String ((Ascii (false, false, true,
    true, false, true, true, false)), (String ((Ascii (true, false, true,
    false, false, true, true, false)), (String ((Ascii (false, true, true,
    true, false, true, true, false)), (String ((Ascii (false, false, true,
    false, false, true, true, false)), (String ((Ascii (false, true, true,
    true, false, true, false, false)), (String ((Ascii (false, false, true,
    false, false, false, true, false)), (String ((Ascii (true, false, true,
    false, false, true, true, false)), (String ((Ascii (false, false, false,
    false, true, true, true, false)), (String ((Ascii (true, true, true,
    true, false, true, true, false)), (String ((Ascii (true, true, false,
    false, true, true, true, false)), (String ((Ascii (true, false, false,
    true, false, true, true, false)), (String ((Ascii (false, false, true,
    false, true, true, true, false)),
    EmptyString)))))))))))))))))))))))) :: ((String ((Ascii (false, false,
    true, true, false, true, true, false)), (String ((Ascii (true, false,
    true, false, false, true, true, false)), (String ((Ascii (false, true,
    true, true, false, true, true, false)), (String ((Ascii (false, false,
    true, false, false, true, true, false)), (String ((Ascii (false, true,
    true, true, false, true, false, false)), (String ((Ascii (true, true,
    true, false, true, false, true, false)), (String ((Ascii (true, false,
    false, true, false, true, true, false)), (String ((Ascii (false, false,
    true, false, true, true, true, false)), (String ((Ascii (false, false,
    false, true, false, true, true, false)), (String ((Ascii (false, false,
    true, false, false, true, true, false)), (String ((Ascii (false, true,
    false, false, true, true, true, false)), (String ((Ascii (true, false,
    false, false, false, true, true, false)), (String ((Ascii (true, true,
    true, false, true, true, true, false)),
    EmptyString)))))))))))))))))))))))))) :: ((String ((Ascii (false, false,
    true, true, false, true, true, false)), (String ((Ascii (true, false,
    true, false, false, true, true, false)), (String ((Ascii (false, true,
    true, true, false, true, true, false)), (String ((Ascii (false, false,
    true, false, false, true, true, false)), (String ((Ascii (false, true,
    true, true, false, true, false, false)), (String ((Ascii (false, true,
    false, false, false, false, true, false)), (String ((Ascii (true, true,
    true, true, false, true, true, false)), (String ((Ascii (false, true,
    false, false, true, true, true, false)), (String ((Ascii (false, true,
    false, false, true, true, true, false)), (String ((Ascii (true, true,
    true, true, false, true, true, false)), (String ((Ascii (true, true,
    true, false, true, true, true, false)),
    EmptyString)))))))))))))))))))))) :: ((String ((Ascii (false, false,
    true, true, false, true, true, false)), (String ((Ascii (true, false,
    true, false, false, true, true, false)), (String ((Ascii (false, true,
    true, true, false, true, true, false)), (String ((Ascii (false, false,
    true, false, false, true, true, false)), (String ((Ascii (false, true,
    true, true, false, true, false, false)), (String ((Ascii (false, false,
    true, false, false, false, true, false)), (String ((Ascii (true, false,
    true, false, false, true, true, false)), (String ((Ascii (false, false,
    false, false, true, true, true, false)), (String ((Ascii (true, true,
    true, true, false, true, true, false)), (String ((Ascii (true, true,
    false, false, true, true, true, false)), (String ((Ascii (true, false,
    false, true, false, true, true, false)), (String ((Ascii (false, false,
    true, false, true, true, true, false)), (String ((Ascii (false, true,
    false, false, false, false, true, false)), (String ((Ascii (true, true,
    true, true, false, true, true, false)), (String ((Ascii (false, true,
    false, false, true, true, true, false)), (String ((Ascii (false, true,
    false, false, true, true, true, false)), (String ((Ascii (true, true,
    true, true, false, true, true, false)), (String ((Ascii (true, true,
    true, false, true, true, true, false)),
    EmptyString)))))))))))))))))))))))))))))))))))) :: ((String ((Ascii
    (false, false, true, true, false, true, true, false)), (String ((Ascii
    (true, false, true, false, false, true, true, false)), (String ((Ascii
    (false, true, true, true, false, true, true, false)), (String ((Ascii
    (false, false, true, false, false, true, true, false)), (String ((Ascii
    (false, true, true, true, false, true, false, false)), (String ((Ascii
    (false, false, true, false, false, false, true, false)), (String ((Ascii
    (false, true, false, false, true, true, true, false)), (String ((Ascii
    (true, false, false, false, false, true, true, false)), (String ((Ascii
    (true, true, true, false, true, true, true, false)),
    EmptyString)))))))))))))))))) :: ((String ((Ascii (false, false, true,
    true, false, true, true, false)), (String ((Ascii (true, false, true,
    false, false, true, true, false)), (String ((Ascii (false, true, true,
    true, false, true, true, false)), (String ((Ascii (false, false, true,
    false, false, true, true, false)), (String ((Ascii (false, true, true,
    true, false, true, false, false)), (String ((Ascii (false, true, false,
    false, false, false, true, false)), (String ((Ascii (true, true, true,
    true, false, true, true, false)), (String ((Ascii (false, true, false,
    false, true, true, true, false)), (String ((Ascii (false, true, false,
    false, true, true, true, false)), (String ((Ascii (true, true, true,
    true, false, true, true, false)), (String ((Ascii (true, true, true,
    false, true, true, true, false)), (String ((Ascii (true, false, false,
    false, false, false, true, false)), (String ((Ascii (false, false, true,
    true, false, true, true, false)), (String ((Ascii (false, false, true,
    false, true, true, true, false)), (String ((Ascii (true, false, true,
    false, false, true, true, false)), (String ((Ascii (false, true, false,
    false, true, true, true, false)), (String ((Ascii (false, true, true,
    true, false, true, true, false)), (String ((Ascii (true, false, false,
    false, false, true, true, false)), (String ((Ascii (false, false, true,
    false, true, true, true, false)), (String ((Ascii (true, false, true,
    false, false, true, true, false)),
    EmptyString)))))))))))))))))))))))))))))))))))))))) :: []))))))))))))))))))

(** val rejects_under_breaker : string -> bool **)

let rejects_under_breaker n =
  match find_handler n with
  | Some h -> scan helper_rows true is_breaker_guard scan_fuel h.h_items
  | None -> false

(** val esm_mint_scope : handler list **)

let esm_mint_scope =
  filter (fun h ->
    (&&)
      (eqb h.h_module (String ((Ascii (false, true, true, false, true, true,
        true, false)), (String ((Ascii (true, false, false, false, false,
        true, true, false)), (String ((Ascii (true, false, true, false, true,
        true, true, false)), (String ((Ascii (false, false, true, true,
        false, true, true, false)), (String ((Ascii (false, false, true,
        false, true, true, true, false)), EmptyString))))))))))) h.h_mints)
    handlers

(** val esm_guarded : handler -> bool **)

let esm_guarded h =
  scan helper_rows true is_esm_guard scan_fuel h.h_items

(** val price_fail_closed : handler -> bool **)

let price_fail_closed h =
  (&&) (price_all_checked h) (no_unchecked_price h.h_items)

(** val ctrl_ctx : bool -> coq_Z -> coq_Z -> bool -> octx **)

let ctrl_ctx esm now end_time breaker =
  { c_esm = esm; c_now = now; c_end = end_time; c_breaker = breaker;
    c_owner_ok = (fun _ -> true); c_keyed_found = (fun _ -> true); c_exists =
    (fun _ -> true); c_admin = true; c_price_ok = true; c_call_ok = (fun _ ->
    true); c_other_fires = (fun _ -> false); c_branch = (fun _ -> false) }

(** val nonowner_ctx : octx **)

let nonowner_ctx =
  { c_esm = false; c_now = Z0; c_end = Z0; c_breaker = false; c_owner_ok =
    (fun _ -> false); c_keyed_found = (fun _ -> false); c_exists = (fun _ ->
    true); c_admin = true; c_price_ok = true; c_call_ok = (fun _ -> true);
    c_other_fires = (fun _ -> false); c_branch = (fun _ -> false) }

(** val unit_wr : string -> unit -> unit **)

let unit_wr _ s =
  s

(** val predict : octx -> string -> coq_Z **)

let predict c n =
  match find_handler n with
  | Some h ->
    (match exec unit_wr helper_rows scan_fuel c h.h_items () with
     | RunOk _ -> Z0
     | RunErr (_, code) -> code
     | RunPanic _ -> Zneg Coq_xH)
  | None -> Zneg Coq_xH

(** val predict_ctrl : string -> bool -> coq_Z -> coq_Z -> bool -> coq_Z **)

let predict_ctrl n esm now end_time breaker =
  predict (ctrl_ctx esm now end_time breaker) n

(** val predict_full :
    string -> bool -> coq_Z -> coq_Z -> bool -> bool -> coq_Z **)

let predict_full n esm now end_time breaker price_ok =
  let code =
    predict { c_esm = esm; c_now = now; c_end = end_time; c_breaker =
      breaker; c_owner_ok = (fun _ -> true); c_keyed_found = (fun _ -> true);
      c_exists = (fun _ -> true); c_admin = true; c_price_ok = price_ok;
      c_call_ok = (fun _ -> true); c_other_fires = (fun _ -> false);
      c_branch = (fun _ -> false) } n
  in
  (match find_handler n with
   | Some h ->
     if (&&) ((&&) (Z.eqb code Z0) h.h_ctl_opaque) ((||) esm breaker)
     then Zneg Coq_xH
     else code
   | None -> code)

(** val sweep_group : string -> string list **)

let sweep_group g =
  if eqb g (String ((Ascii (false, false, true, true, false, true, true,
       false)), (String ((Ascii (true, false, false, true, false, true, true,
       false)), (String ((Ascii (true, false, false, false, true, true, true,
       false)), (String ((Ascii (true, false, true, false, true, true, true,
       false)), (String ((Ascii (true, false, false, true, false, true, true,
       false)), (String ((Ascii (false, false, true, false, false, true,
       true, false)), (String ((Ascii (true, false, false, false, false,
       true, true, false)), (String ((Ascii (false, false, true, false, true,
       true, true, false)), (String ((Ascii (true, false, false, true, false,
       true, true, false)), (String ((Ascii (true, true, true, true, false,
       true, true, false)), (String ((Ascii (false, true, true, true, false,
       true, true, false)), (String ((Ascii (true, true, false, false, true,
       true, true, false)), (String ((Ascii (false, true, true, false, true,
       false, true, false)), (String ((Ascii (false, true, false, false,
       true, true, false, false)), (String ((Ascii (false, true, true, true,
       false, true, false, false)), (String ((Ascii (false, false, true,
       true, false, false, true, false)), (String ((Ascii (true, false,
       false, true, false, true, true, false)), (String ((Ascii (true, false,
       false, false, true, true, true, false)), (String ((Ascii (true, false,
       true, false, true, true, true, false)), (String ((Ascii (true, false,
       false, true, false, true, true, false)), (String ((Ascii (false,
       false, true, false, false, true, true, false)), (String ((Ascii (true,
       false, false, false, false, true, true, false)), (String ((Ascii
       (false, false, true, false, true, true, true, false)), (String ((Ascii
       (true, false, true, false, false, true, true, false)),
       EmptyString))))))))))))))))))))))))))))))))))))))))))))))))
  then (String ((Ascii (false, false, true, true, false, true, true, false)),
         (String ((Ascii (true, false, false, true, false, true, true,
         false)), (String ((Ascii (true, false, false, false, true, true,
         true, false)), (String ((Ascii (true, false, true, false, true,
         true, true, false)), (String ((Ascii (true, false, false, true,
         false, true, true, false)), (String ((Ascii (false, false, true,
         false, false, true, true, false)), (String ((Ascii (true, false,
         false, false, false, true, true, false)), (String ((Ascii (false,
         false, true, false, true, true, true, false)), (String ((Ascii
         (true, false, false, true, false, true, true, false)), (String
         ((Ascii (true, true, true, true, false, true, true, false)), (String
         ((Ascii (false, true, true, true, false, true, true, false)),
         (String ((Ascii (true, true, false, false, true, true, true,
         false)), (String ((Ascii (false, true, true, false, true, false,
         true, false)), (String ((Ascii (false, true, false, false, true,
         true, false, false)), (String ((Ascii (false, true, true, true,
         false, true, false, false)), (String ((Ascii (false, false, true,
         true, false, false, true, false)), (String ((Ascii (true, false,
         false, true, false, true, true, false)), (String ((Ascii (true,
         false, false, false, true, true, true, false)), (String ((Ascii
         (true, false, true, false, true, true, true, false)), (String
         ((Ascii (true, false, false, true, false, true, true, false)),
         (String ((Ascii (false, false, true, false, false, true, true,
         false)), (String ((Ascii (true, false, false, false, false, true,
         true, false)), (String ((Ascii (false, false, true, false, true,
         true, true, false)), (String ((Ascii (true, false, true, false,
         false, true, true, false)), (String ((Ascii (true, false, false,
         true, false, false, true, false)), (String ((Ascii (false, true,
         true, true, false, true, true, false)), (String ((Ascii (false,
         false, true, false, false, true, true, false)), (String ((Ascii
         (true, false, false, true, false, true, true, false)), (String
         ((Ascii (false, true, true, false, true, true, true, false)),
         (String ((Ascii (true, false, false, true, false, true, true,
         false)), (String ((Ascii (false, false, true, false, false, true,
         true, false)), (String ((Ascii (true, false, true, false, true,
         true, true, false)), (String ((Ascii (true, false, false, false,
         false, true, true, false)), (String ((Ascii (false, false, true,
         true, false, true, true, false)), (String ((Ascii (false, true,
         true, false, true, false, true, false)), (String ((Ascii (true,
         false, false, false, false, true, true, false)), (String ((Ascii
         (true, false, true, false, true, true, true, false)), (String
         ((Ascii (false, false, true, true, false, true, true, false)),
         (String ((Ascii (false, false, true, false, true, true, true,
         false)),
         EmptyString)))))))))))))))))))))))))))))))))))))))))))))))))))))))))))))))))))))))))))))) :: ((String
         ((Ascii (false, false, true, true, false, true, true, false)),
         (String ((Ascii (true, false, false, true, false, true, true,
         false)), (String ((Ascii (true, false, false, false, true, true,
         true, false)), (String ((Ascii (true, false, true, false, true,
         true, true, false)), (String ((Ascii (true, false, false, true,
         false, true, true, false)), (String ((Ascii (false, false, true,
         false, false, true, true, false)), (String ((Ascii (true, false,
         false, false, false, true, true, false)), (String ((Ascii (false,
         false, true, false, true, true, true, false)), (String ((Ascii
         (true, false, false, true, false, true, true, false)), (String
         ((Ascii (true, true, true, true, false, true, true, false)), (String
         ((Ascii (false, true, true, true, false, true, true, false)),
         (String ((Ascii (true, true, false, false, true, true, true,
         false)), (String ((Ascii (false, true, true, false, true, false,
         true, false)), (String ((Ascii (false, true, false, false, true,
         true, false, false)), (String ((Ascii (false, true, true, true,
         false, true, false, false)), (String ((Ascii (false, false, true,
         true, false, false, true, false)), (String ((Ascii (true, false,
         false, true, false, true, true, false)), (String ((Ascii (true,
         false, false, false, true, true, true, false)), (String ((Ascii
         (true, false, true, false, true, true, true, false)), (String
         ((Ascii (true, false, false, true, false, true, true, false)),
         (String ((Ascii (false, false, true, false, false, true, true,
         false)), (String ((Ascii (true, false, false, false, false, true,
         true, false)), (String ((Ascii (false, false, true, false, true,
         true, true, false)), (String ((Ascii (true, false, true, false,
         false, true, true, false)), (String ((Ascii (true, false, false,
         true, false, false, true, false)), (String ((Ascii (false, true,
         true, true, false, true, true, false)), (String ((Ascii (false,
         false, true, false, false, true, true, false)), (String ((Ascii
         (true, false, false, true, false, true, true, false)), (String
         ((Ascii (false, true, true, false, true, true, true, false)),
         (String ((Ascii (true, false, false, true, false, true, true,
         false)), (String ((Ascii (false, false, true, false, false, true,
         true, false)), (String ((Ascii (true, false, true, false, true,
         true, true, false)), (String ((Ascii (true, false, false, false,
         false, true, true, false)), (String ((Ascii (false, false, true,
         true, false, true, true, false)), (String ((Ascii (false, true,
         false, false, false, false, true, false)), (String ((Ascii (true,
         true, true, true, false, true, true, false)), (String ((Ascii
         (false, true, false, false, true, true, true, false)), (String
         ((Ascii (false, true, false, false, true, true, true, false)),
         (String ((Ascii (true, true, true, true, false, true, true, false)),
         (String ((Ascii (true, true, true, false, true, true, true, false)),
         EmptyString)))))))))))))))))))))))))))))))))))))))))))))))))))))))))))))))))))))))))))))))) :: ((String
         ((Ascii (false, false, true, true, false, true, true, false)),
         (String ((Ascii (true, false, false, true, false, true, true,
         false)), (String ((Ascii (true, false, false, false, true, true,
         true, false)), (String ((Ascii (true, false, true, false, true,
         true, true, false)), (String ((Ascii (true, false, false, true,
         false, true, true, false)), (String ((Ascii (false, false, true,
         false, false, true, true, false)), (String ((Ascii (true, false,
         false, false, false, true, true, false)), (String ((Ascii (false,
         false, true, false, true, true, true, false)), (String ((Ascii
         (true, false, false, true, false, true, true, false)), (String
         ((Ascii (true, true, true, true, false, true, true, false)), (String
         ((Ascii (false, true, true, true, false, true, true, false)),
         (String ((Ascii (true, true, false, false, true, true, true,
         false)), (String ((Ascii (false, true, true, false, true, false,
         true, false)), (String ((Ascii (false, true, false, false, true,
         true, false, false)), (String ((Ascii (false, true, true, true,
         false, true, false, false)), (String ((Ascii (false, false, true,
         true, false, false, true, false)), (String ((Ascii (true, false,
         false, true, false, true, true, false)), (String ((Ascii (true,
         false, false, false, true, true, true, false)), (String ((Ascii
         (true, false, true, false, true, true, true, false)), (String
         ((Ascii (true, false, false, true, false, true, true, false)),
         (String ((Ascii (false, false, true, false, false, true, true,
         false)), (String ((Ascii (true, false, false, false, false, true,
         true, false)), (String ((Ascii (false, false, true, false, true,
         true, true, false)), (String ((Ascii (true, false, true, false,
         false, true, true, false)), (String ((Ascii (false, true, true,
         false, false, false, true, false)), (String ((Ascii (true, true,
         true, true, false, true, true, false)), (String ((Ascii (false,
         true, false, false, true, true, true, false)), (String ((Ascii
         (true, true, false, false, true, false, true, false)), (String
         ((Ascii (true, false, true, false, true, true, true, false)),
         (String ((Ascii (false, true, false, false, true, true, true,
         false)), (String ((Ascii (false, false, false, false, true, true,
         true, false)), (String ((Ascii (false, false, true, true, false,
         true, true, false)), (String ((Ascii (true, false, true, false,
         true, true, true, false)), (String ((Ascii (true, true, false,
         false, true, true, true, false)), (String ((Ascii (true, false,
         false, false, false, false, true, false)), (String ((Ascii (false,
         true, true, true, false, true, true, false)), (String ((Ascii
         (false, false, true, false, false, true, true, false)), (String
         ((Ascii (false, false, true, false, false, false, true, false)),
         (String ((Ascii (true, false, true, false, false, true, true,
         false)), (String ((Ascii (false, true, false, false, false, true,
         true, false)), (String ((Ascii (false, false, true, false, true,
         true, true, false)),
         EmptyString)))))))))))))))))))))))))))))))))))))))))))))))))))))))))))))))))))))))))))))))))) :: []))
  else if eqb g (String ((Ascii (true, false, false, false, false, true,
            true, false)), (String ((Ascii (true, false, true, false, true,
            true, true, false)), (String ((Ascii (true, true, false, false,
            false, true, true, false)), (String ((Ascii (false, false, true,
            false, true, true, true, false)), (String ((Ascii (true, false,
            false, true, false, true, true, false)), (String ((Ascii (true,
            true, true, true, false, true, true, false)), (String ((Ascii
            (false, true, true, true, false, true, true, false)), (String
            ((Ascii (false, true, true, true, false, true, false, false)),
            (String ((Ascii (false, true, false, false, false, false, true,
            false)), (String ((Ascii (true, false, true, false, false, true,
            true, false)), (String ((Ascii (true, true, true, false, false,
            true, true, false)), (String ((Ascii (true, false, false, true,
            false, true, true, false)), (String ((Ascii (false, true, true,
            true, false, true, true, false)), (String ((Ascii (false, true,
            false, false, false, false, true, false)), (String ((Ascii
            (false, false, true, true, false, true, true, false)), (String
            ((Ascii (true, true, true, true, false, true, true, false)),
            (String ((Ascii (true, true, false, false, false, true, true,
            false)), (String ((Ascii (true, true, false, true, false, true,
            true, false)), (String ((Ascii (true, false, true, false, false,
            true, true, false)), (String ((Ascii (false, true, false, false,
            true, true, true, false)),
            EmptyString))))))))))))))))))))))))))))))))))))))))
       then (String ((Ascii (true, false, false, false, false, true, true,
              false)), (String ((Ascii (true, false, true, false, true, true,
              true, false)), (String ((Ascii (true, true, false, false,
              false, true, true, false)), (String ((Ascii (false, false,
              true, false, true, true, true, false)), (String ((Ascii (true,
              false, false, true, false, true, true, false)), (String ((Ascii
              (true, true, true, true, false, true, true, false)), (String
              ((Ascii (false, true, true, true, false, true, true, false)),
              (String ((Ascii (false, true, true, true, false, true, false,
              false)), (String ((Ascii (true, true, false, false, true,
              false, true, false)), (String ((Ascii (true, false, true,
              false, true, true, true, false)), (String ((Ascii (false, true,
              false, false, true, true, true, false)), (String ((Ascii
              (false, false, false, false, true, true, true, false)), (String
              ((Ascii (false, false, true, true, false, true, true, false)),
              (String ((Ascii (true, false, true, false, true, true, true,
              false)), (String ((Ascii (true, true, false, false, true, true,
              true, false)), (String ((Ascii (true, false, false, false,
              false, false, true, false)), (String ((Ascii (true, true,
              false, false, false, true, true, false)), (String ((Ascii
              (false, false, true, false, true, true, true, false)), (String
              ((Ascii (true, false, false, true, false, true, true, false)),
              (String ((Ascii (false, true, true, false, true, true, true,
              false)), (String ((Ascii (true, false, false, false, false,
              true, true, false)), (String ((Ascii (false, false, true,
              false, true, true, true, false)), (String ((Ascii (true, true,
              true, true, false, true, true, false)), (String ((Ascii (false,
              true, false, false, true, true, true, false)),
              EmptyString)))))))))))))))))))))))))))))))))))))))))))))))) :: ((String
              ((Ascii (true, false, false, false, false, true, true, false)),
              (String ((Ascii (true, false, true, false, true, true, true,
              false)), (String ((Ascii (true, true, false, false, false,
              true, true, false)), (String ((Ascii (false, false, true,
              false, true, true, true, false)), (String ((Ascii (true, false,
              false, true, false, true, true, false)), (String ((Ascii (true,
              true, true, true, false, true, true, false)), (String ((Ascii
              (false, true, true, true, false, true, true, false)), (String
              ((Ascii (false, true, true, true, false, true, false, false)),
              (String ((Ascii (false, false, true, false, false, false, true,
              false)), (String ((Ascii (true, false, true, false, false,
              true, true, false)), (String ((Ascii (false, true, false,
              false, false, true, true, false)), (String ((Ascii (false,
              false, true, false, true, true, true, false)), (String ((Ascii
              (true, false, false, false, false, false, true, false)),
              (String ((Ascii (true, true, false, false, false, true, true,
              false)), (String ((Ascii (false, false, true, false, true,
              true, true, false)), (String ((Ascii (true, false, false, true,
              false, true, true, false)), (String ((Ascii (false, true, true,
              false, true, true, true, false)), (String ((Ascii (true, false,
              false, false, false, true, true, false)), (String ((Ascii
              (false, false, true, false, true, true, true, false)), (String
              ((Ascii (true, true, true, true, false, true, true, false)),
              (String ((Ascii (false, true, false, false, true, true, true,
              false)),
              EmptyString)))))))))))))))))))))))))))))))))))))))))) :: [])
       else g :: []

(** val sweep_group_known : string -> bool **)

let sweep_group_known g =
  forallb (fun n -> existsb (fun r -> eqb r.s_name n) sweep_table)
    (sweep_group g)

(** val sweep_group_starts : string -> bool -> bool **)

let sweep_group_starts g breaker =
  existsb (fun r ->
    (&&) (mem r.s_name (sweep_group g)) (sweep_starts r breaker)) sweep_table

(** val handler_known : string -> bool **)

let handler_known n =
  match find_handler n with
  | Some _ -> true
  | None -> false

(** val handler_position_msg : string -> bool **)

let handler_position_msg n =
  existsb (fun m -> eqb m.mt_handler n) position_msgs

(** val handler_exempt : string -> bool **)

let handler_exempt n =
  existsb (fun m ->
    (&&) ((&&) (eqb m.mt_handler n) (names_position m)) (is_exempt m))
    msg_types

(** val handler_owner_guarded : string -> bool **)

let handler_owner_guarded n =
  existsb (fun m -> (&&) (eqb m.mt_handler n) (has_owner_guard m)) msg_types

(** val position_handler_names : string list **)

let position_handler_names =
  map (fun m -> m.mt_handler) position_msgs

(** val handler_signer_keyed : string -> bool **)

let handler_signer_keyed n =
  existsb (fun m ->
    (&&) (eqb m.mt_handler n) (mem (mt_qname m) signer_keyed_msgs)) msg_types

(** val holds_C12_owner : string -> bool -> bool -> bool -> bool **)

let holds_C12_owner handler_name signer_is_owner ok changed =
  (&&) ((||) ok (negb changed))
    ((||) ((||) signer_is_owner (negb (handler_position_msg handler_name)))
      (if handler_signer_keyed handler_name
       then (||) (negb ok) (negb changed)
       else negb ok))

(** val holds_C12_wasm :
    string -> string -> string -> bool -> bool -> bool **)

let holds_C12_wasm variant chain sender accepted changed =
  (&&)
    ((||) ((||) (negb (mem chain named_networks)) (negb accepted))
      (match designated chain variant with
       | Some a -> eqb sender a
       | None -> false)) ((||) accepted (negb changed))

(** val holds_C12_kill : bool -> bool -> bool -> bool **)

let holds_C12_kill is_admin ok changed =
  (&&) ((||) is_admin (negb ok)) ((||) ok (negb changed))

(** val wasm_model_accepts : string -> string -> string -> bool option **)

let wasm_model_accepts variant chain sender =
  match find_wasm variant with
  | Some w -> Some (ladder_accepts w.w_ladder chain sender)
  | None -> None

(** val in_esm_mint_scope : string -> bool **)

let in_esm_mint_scope n =
  existsb (fun h -> eqb h.h_name n) esm_mint_scope

(** val holds_C14 : string -> bool -> coq_Z -> bool -> bool -> bool **)

let holds_C14 n breaker esm_phase ok changed =
  (&&)
    ((&&)
      ((&&) ((||) (negb ((&&) breaker (mem n breaker_scope))) (negb ok))
        ((||) (negb ((&&) (Z.ltb Z0 esm_phase) (in_esm_mint_scope n)))
          (negb ok)))
      ((||)
        (negb
          ((&&) (Z.eqb esm_phase (Zpos (Coq_xO Coq_xH)))
            (eqb n (String ((Ascii (false, true, true, false, true, true,
              true, false)), (String ((Ascii (true, false, false, false,
              false, true, true, false)), (String ((Ascii (true, false, true,
              false, true, true, true, false)), (String ((Ascii (false,
              false, true, true, false, true, true, false)), (String ((Ascii
              (false, false, true, false, true, true, true, false)), (String
              ((Ascii (false, true, true, true, false, true, false, false)),
              (String ((Ascii (true, false, true, true, false, false, true,
              false)), (String ((Ascii (true, true, false, false, true, true,
              true, false)), (String ((Ascii (true, true, true, false, false,
              true, true, false)), (String ((Ascii (true, true, true, false,
              true, false, true, false)), (String ((Ascii (true, false,
              false, true, false, true, true, false)), (String ((Ascii
              (false, false, true, false, true, true, true, false)), (String
              ((Ascii (false, false, false, true, false, true, true, false)),
              (String ((Ascii (false, false, true, false, false, true, true,
              false)), (String ((Ascii (false, true, false, false, true,
              true, true, false)), (String ((Ascii (true, false, false,
              false, false, true, true, false)), (String ((Ascii (true, true,
              true, false, true, true, true, false)),
              EmptyString))))))))))))))))))))))))))))))))))))) (negb ok)))
    ((||) ok (negb changed))

(** val holds_C14_price : bool -> bool -> bool -> bool -> bool -> bool **)

let holds_C14_price some_inactive ok base_ok same_as_base changed =
  (&&) ((||) (negb ((&&) ((&&) some_inactive ok) base_ok)) same_as_base)
    ((||) ok (negb changed))

(** val holds_C14_sweep : bool -> bool -> bool **)

let holds_C14_sweep breaker started =
  negb ((&&) breaker started)
