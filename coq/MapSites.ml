open String

(** val all_equal : string list -> bool **)

let rec all_equal = function
| [] -> true
| a :: r -> (match r with
             | [] -> true
             | b :: _ -> (&&) (eqb a b) (all_equal r))

(** val holds_C16 : string list -> bool **)

let holds_C16 =
  all_equal
