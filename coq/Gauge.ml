open Base
open BinInt
open BinNums
open Datatypes
open DecArith
open F64
open List

(** val split_loop : nat -> coq_Z -> coq_Z -> coq_Z -> coq_Z list **)

let rec split_loop n i zp pp =
  match n with
  | O -> []
  | S m ->
    (if Z.leb zp i then Z.add pp (Zpos Coq_xH) else pp) :: (split_loop m
                                                             (Z.add i (Zpos
                                                               Coq_xH)) zp pp)

(** val split : coq_Z -> coq_Z -> coq_Z list outcome **)

let split total epochs =
  if Z.ltb total epochs
  then Ok []
  else if Z.eqb epochs Z0
       then Panic
       else if Z.eqb (Z.modulo total epochs) Z0
            then Ok (repeat (Z.div total epochs) (Z.to_nat epochs))
            else Ok
                   (split_loop (Z.to_nat epochs) Z0
                     (Z.sub epochs (Z.modulo total epochs))
                     (Z.div total epochs))

type gauge = { g_deposit : coq_Z; g_distributed : coq_Z; g_triggered : 
               coq_Z; g_total : coq_Z; g_active : bool; g_start : coq_Z }

(** val do_sends : coq_Z -> coq_Z list -> coq_Z * coq_Z list **)

let rec do_sends bal = function
| [] -> (bal, [])
| r :: rest ->
  if Z.leb r bal
  then let (b, ps) = do_sends (Z.sub bal r) rest in (b, (r :: ps))
  else let (b, ps) = do_sends bal rest in (b, (Z0 :: ps))

(** val trigger :
    coq_Z -> coq_Z list outcome -> coq_Z -> gauge -> ((gauge * coq_Z) * coq_Z
    list) outcome **)

let trigger now calc bal g =
  if (||) (Z.ltb now g.g_start) (negb g.g_active)
  then Ok ((g, bal), [])
  else if Z.eqb g.g_triggered g.g_total
       then Ok (({ g_deposit = g.g_deposit; g_distributed = g.g_distributed;
              g_triggered = g.g_triggered; g_total = g.g_total; g_active =
              false; g_start = g.g_start }, bal), [])
       else (match uint64_c g.g_deposit with
             | Some d ->
               (match split d g.g_total with
                | Ok sp ->
                  if Z.leb (zlen sp) g.g_triggered
                  then Ok ((g, bal), [])
                  else (match nth_z sp (Z.to_nat g.g_triggered) with
                        | Some amount ->
                          if Z.ltb (Z.sub g.g_deposit g.g_distributed) amount
                          then Ok ((g, bal), [])
                          else (match calc with
                                | Ok rewards ->
                                  if existsb (fun r -> Z.ltb r Z0) rewards
                                  then Panic
                                  else let tot = zsum rewards in
                                       if Z.ltb amount tot
                                       then Ok ((g, bal), [])
                                       else let (bal', paid) =
                                              do_sends bal rewards
                                            in
                                            Ok (({ g_deposit = g.g_deposit;
                                            g_distributed =
                                            (Z.add g.g_distributed tot);
                                            g_triggered =
                                            (Z.add g.g_triggered (Zpos
                                              Coq_xH)); g_total = g.g_total;
                                            g_active = g.g_active; g_start =
                                            g.g_start }, bal'), paid)
                                | Err _ -> Ok ((g, bal), [])
                                | Panic -> Panic)
                        | None -> Panic)
                | Err c -> Err c
                | Panic -> Panic)
             | None -> Panic)

(** val epoch_allocation : gauge -> coq_Z **)

let epoch_allocation g =
  match split g.g_deposit g.g_total with
  | Ok sp ->
    (match nth_z sp (Z.to_nat g.g_triggered) with
     | Some a -> a
     | None -> Z0)
  | _ -> Z0

type rstate = { r_bal : coq_Z; r_gauges : gauge list }

type gop =
| Create of coq_Z * coq_Z * coq_Z * coq_Z * coq_Z
| Trig of nat * coq_Z * coq_Z list outcome
| Donate of coq_Z

(** val set_gauge : gauge list -> nat -> gauge -> gauge list **)

let rec set_gauge l i g =
  match l with
  | [] -> []
  | x :: r -> (match i with
               | O -> g :: r
               | S j -> x :: (set_gauge r j g))

(** val rstep : rstate -> gop -> rstate outcome **)

let rstep s = function
| Create (dep, total, start, now, funds) ->
  if (||) ((||) ((||) (Z.leb dep Z0) (Z.ltb dep total)) (Z.ltb start now))
       (Z.ltb funds dep)
  then Err (Zpos Coq_xH)
  else Ok { r_bal = (Z.add s.r_bal dep); r_gauges =
         (app s.r_gauges ({ g_deposit = dep; g_distributed = Z0;
           g_triggered = Z0; g_total = total; g_active = true; g_start =
           start } :: [])) }
| Trig (i, now, calc) ->
  (match nth_z s.r_gauges i with
   | Some g ->
     (match trigger now calc s.r_bal g with
      | Ok a ->
        let (p, _) = a in
        let (g', b') = p in
        Ok { r_bal = b'; r_gauges = (set_gauge s.r_gauges i g') }
      | Err c -> Err c
      | Panic -> Panic)
   | None -> Ok s)
| Donate a ->
  if Z.ltb a Z0
  then Err (Zpos Coq_xH)
  else Ok { r_bal = (Z.add s.r_bal a); r_gauges = s.r_gauges }

(** val rapply : rstate -> gop -> rstate **)

let rapply s o =
  match rstep s o with
  | Ok s' -> s'
  | _ -> s

(** val undistributed : gauge list -> coq_Z **)

let undistributed gs =
  zsum (map (fun g -> Z.sub g.g_deposit g.g_distributed) gs)

type epoch = { e_fresh : bool; e_cur : coq_Z; e_cest : coq_Z; e_dur : coq_Z }

type tick_result =
| TFresh
| TSkipped
| TTrigger
| TNothing

(** val epoch_tick : coq_Z -> epoch -> epoch * tick_result **)

let epoch_tick now e =
  if (&&) e.e_fresh (Z.eqb e.e_cur Z0)
  then ({ e_fresh = false; e_cur = e.e_cur; e_cest =
         (Z.sub e.e_cest e.e_dur); e_dur = e.e_dur }, TFresh)
  else if Z.ltb (Z.add e.e_cest (Z.mul (Zpos (Coq_xO Coq_xH)) e.e_dur)) now
       then let missed = Z.quot (Z.sub now e.e_cest) e.e_dur in
            ({ e_fresh = e.e_fresh; e_cur = e.e_cur; e_cest =
            (Z.add e.e_cest (Z.mul e.e_dur missed)); e_dur = e.e_dur },
            TSkipped)
       else if Z.ltb (Z.add e.e_cest e.e_dur) now
            then ({ e_fresh = e.e_fresh; e_cur =
                   (Z.add e.e_cur (Zpos Coq_xH)); e_cest =
                   (Z.add e.e_cest e.e_dur); e_dur = e.e_dur }, TTrigger)
            else (e, TNothing)

(** val share_dec : coq_Z -> coq_Z -> coq_Z -> coq_Z **)

let share_dec coins total s =
  dmul s (dquo (dec_of_int coins) total)

(** val share_reward : coq_Z -> coq_Z -> coq_Z -> coq_Z **)

let share_reward coins total s =
  floor64 (to64 (share_dec coins total s))

(** val farm_rewards : coq_Z -> coq_Z list -> coq_Z list **)

let farm_rewards coins supplies =
  let total = zsum supplies in
  if Z.eqb total Z0 then [] else map (share_reward coins total) supplies

(** val min_supplies : coq_Z list -> coq_Z list -> coq_Z list **)

let min_supplies master child =
  map (fun mc -> if Z.leb (fst mc) (snd mc) then fst mc else snd mc)
    (combine master child)

(** val farm_rewards_master :
    coq_Z -> coq_Z list -> coq_Z list -> coq_Z list **)

let farm_rewards_master coins master child =
  let ms = min_supplies master child in
  let total = zsum ms in
  if Z.eqb total Z0
  then []
  else map (share_reward coins total) (filter (fun s -> negb (Z.eqb s Z0)) ms)

(** val kf_C19_1 : coq_Z -> coq_Z -> bool **)

let kf_C19_1 coins total =
  Z.ltb
    (Z.mul
      (Z.mul coins (Zpos (Coq_xO (Coq_xO (Coq_xO (Coq_xO (Coq_xO (Coq_xO
        (Coq_xO (Coq_xI (Coq_xO (Coq_xI (Coq_xO (Coq_xI (Coq_xI (Coq_xO
        (Coq_xO (Coq_xO (Coq_xO (Coq_xI Coq_xH)))))))))))))))))))) coq_P18)
    total

(** val holds_C19_split : coq_Z -> coq_Z -> coq_Z list -> bool **)

let holds_C19_split total epochs sp =
  if (&&) (Z.leb (Zpos Coq_xH) epochs) (Z.leb epochs total)
  then (&&) ((&&) (Z.eqb (zsum sp) total) (Z.eqb (zlen sp) epochs))
         (forallb (fun x ->
           (||) (Z.eqb x (Z.div total epochs))
             (Z.eqb x (Z.add (Z.div total epochs) (Zpos Coq_xH)))) sp)
  else if Z.ltb total epochs
       then (match sp with
             | [] -> true
             | _ :: _ -> false)
       else true

(** val holds_C19_trigger :
    gauge -> gauge -> coq_Z list -> coq_Z -> coq_Z -> bool **)

let holds_C19_trigger g g' paid bal bal' =
  let p = zsum paid in
  (&&)
    ((&&)
      ((&&)
        ((&&)
          ((&&) (Z.leb Z0 p)
            (Z.leb p (Z.sub g'.g_distributed g.g_distributed)))
          (Z.leb (Z.sub g'.g_distributed g.g_distributed)
            (if Z.eqb g'.g_triggered g.g_triggered
             then Z0
             else epoch_allocation g))) (Z.leb g'.g_distributed g'.g_deposit))
      (Z.leb g'.g_triggered g'.g_total)) (Z.eqb bal' (Z.sub bal p))

(** val holds_C19_custody : coq_Z -> gauge list -> bool **)

let holds_C19_custody bal gs =
  Z.leb (undistributed gs) bal

(** val holds_C19_share : coq_Z -> coq_Z -> coq_Z -> coq_Z -> bool **)

let holds_C19_share coins total s payout =
  (&&) (Z.leb Z0 payout)
    (Z.leb
      (Z.mul (Z.mul payout total) (Zpos (Coq_xO (Coq_xO (Coq_xO (Coq_xO
        (Coq_xO (Coq_xO (Coq_xO (Coq_xO (Coq_xO (Coq_xO (Coq_xO (Coq_xO
        (Coq_xI (Coq_xO (Coq_xO (Coq_xO (Coq_xI (Coq_xO (Coq_xI (Coq_xO
        (Coq_xO (Coq_xI (Coq_xO (Coq_xI (Coq_xO (Coq_xO (Coq_xI (Coq_xO
        (Coq_xI (Coq_xO (Coq_xI (Coq_xI (Coq_xO (Coq_xO (Coq_xO (Coq_xI
        (Coq_xO (Coq_xI (Coq_xI
        Coq_xH)))))))))))))))))))))))))))))))))))))))))
      (Z.mul (Z.mul coins s) (Zpos (Coq_xI (Coq_xO (Coq_xO (Coq_xO (Coq_xO
        (Coq_xO (Coq_xO (Coq_xO (Coq_xO (Coq_xO (Coq_xO (Coq_xO (Coq_xI
        (Coq_xO (Coq_xO (Coq_xO (Coq_xI (Coq_xO (Coq_xI (Coq_xO (Coq_xO
        (Coq_xI (Coq_xO (Coq_xI (Coq_xO (Coq_xO (Coq_xI (Coq_xO (Coq_xI
        (Coq_xO (Coq_xI (Coq_xI (Coq_xO (Coq_xO (Coq_xO (Coq_xI (Coq_xO
        (Coq_xI (Coq_xI Coq_xH))))))))))))))))))))))))))))))))))))))))))
