open Ascii
open BinInt
open BinNums
open Datatypes
open HookLang
open HookTable
open List
open PeanoNat
open String

(** val lookup : string -> (string * hook) list -> hook option **)

let rec lookup name = function
| [] -> None
| p :: r -> let (n, h) = p in if eqb n name then Some h else lookup name r

(** val resolve : nat -> (string * hook) list -> hook -> hook **)

let rec resolve fuel t h =
  let rec go h0 = match h0 with
  | Seq l -> Seq (map go l)
  | ForEach (items, b) -> ForEach (items, (go b))
  | Wrapped b -> Wrapped (go b)
  | Call (n, k) ->
    (match k with
     | Expand ->
       (match fuel with
        | O ->
          Unrecognised
            (append (String ((Ascii (true, false, true, false, false, true,
              true, false)), (String ((Ascii (false, false, false, true,
              true, true, true, false)), (String ((Ascii (false, false,
              false, false, true, true, true, false)), (String ((Ascii (true,
              false, false, false, false, true, true, false)), (String
              ((Ascii (false, true, true, true, false, true, true, false)),
              (String ((Ascii (true, true, false, false, true, true, true,
              false)), (String ((Ascii (true, false, false, true, false,
              true, true, false)), (String ((Ascii (true, true, true, true,
              false, true, true, false)), (String ((Ascii (false, true, true,
              true, false, true, true, false)), (String ((Ascii (false,
              false, false, false, false, true, false, false)), (String
              ((Ascii (false, false, true, false, true, true, true, false)),
              (String ((Ascii (true, true, true, true, false, true, true,
              false)), (String ((Ascii (true, true, true, true, false, true,
              true, false)), (String ((Ascii (false, false, false, false,
              false, true, false, false)), (String ((Ascii (false, false,
              true, false, false, true, true, false)), (String ((Ascii (true,
              false, true, false, false, true, true, false)), (String ((Ascii
              (true, false, true, false, false, true, true, false)), (String
              ((Ascii (false, false, false, false, true, true, true, false)),
              (String ((Ascii (false, true, false, true, true, true, false,
              false)), (String ((Ascii (false, false, false, false, false,
              true, false, false)),
              EmptyString)))))))))))))))))))))))))))))))))))))))) n)
        | S f ->
          (match lookup n t with
           | Some row -> resolve f t row
           | None ->
             Unrecognised
               (append (String ((Ascii (false, true, true, true, false, true,
                 true, false)), (String ((Ascii (true, true, true, true,
                 false, true, true, false)), (String ((Ascii (false, false,
                 false, false, false, true, false, false)), (String ((Ascii
                 (false, true, false, false, true, true, true, false)),
                 (String ((Ascii (true, true, true, true, false, true, true,
                 false)), (String ((Ascii (true, true, true, false, true,
                 true, true, false)), (String ((Ascii (false, false, false,
                 false, false, true, false, false)), (String ((Ascii (false,
                 true, true, false, false, true, true, false)), (String
                 ((Ascii (true, true, true, true, false, true, true, false)),
                 (String ((Ascii (false, true, false, false, true, true,
                 true, false)), (String ((Ascii (false, false, false, false,
                 false, true, false, false)),
                 EmptyString)))))))))))))))))))))) n)))
     | _ -> h0)
  | _ -> h0
  in go h

type frame =
| FLoop of string
| FWrap

type leaf_kind =
| LCall of string * call_kind
| LRisk of string * string
| LUnrec of string

type leaf = { lf_kind : leaf_kind; lf_path : frame list }

(** val leaves : hook -> frame list -> leaf list **)

let rec leaves h path =
  match h with
  | Seq l -> flat_map (fun x -> leaves x path) l
  | ForEach (items, b) -> leaves b ((FLoop items) :: path)
  | Wrapped b -> leaves b (FWrap :: path)
  | Call (n, k) -> { lf_kind = (LCall (n, k)); lf_path = path } :: []
  | Risk (k, t) -> { lf_kind = (LRisk (k, t)); lf_path = path } :: []
  | Unrecognised w -> { lf_kind = (LUnrec w); lf_path = path } :: []

(** val resolved : (string * hook) list -> string -> hook **)

let resolved t root =
  resolve (S (S (S (S (S (S (S (S O)))))))) t (Call (root, Expand))

(** val root_leaves : (string * hook) list -> string -> leaf list **)

let root_leaves t root =
  leaves (resolved t root) []

(** val is_wrap : frame -> bool **)

let is_wrap = function
| FLoop _ -> false
| FWrap -> true

(** val under_wrap : frame list -> bool **)

let under_wrap p =
  existsb is_wrap p

(** val wrap_inside_loop : string -> frame list -> bool **)

let rec wrap_inside_loop items = function
| [] -> false
| f :: r ->
  (match f with
   | FLoop i -> if eqb i items then false else wrap_inside_loop items r
   | FWrap -> true)

(** val in_loop : string -> frame list -> bool **)

let rec in_loop items = function
| [] -> false
| f :: r ->
  (match f with
   | FLoop i -> (||) (eqb i items) (in_loop items r)
   | FWrap -> in_loop items r)

type unit_spec = { u_id : string; u_root : string; u_loop : string;
                   u_calls : string list }

(** val u_id : unit_spec -> string **)

let u_id u =
  u.u_id

(** val hook_units : unit_spec list **)

let hook_units =
  { u_id = (String ((Ascii (false, true, true, false, true, true, true,
    false)), (String ((Ascii (true, false, false, false, true, true, false,
    false)), (String ((Ascii (false, true, true, true, false, true, false,
    false)), (String ((Ascii (false, true, true, false, true, true, true,
    false)), (String ((Ascii (true, false, false, false, false, true, true,
    false)), (String ((Ascii (true, false, true, false, true, true, true,
    false)), (String ((Ascii (false, false, true, true, false, true, true,
    false)), (String ((Ascii (false, false, true, false, true, true, true,
    false)), EmptyString)))))))))))))))); u_root = (String ((Ascii (false,
    false, true, true, false, true, true, false)), (String ((Ascii (true,
    false, false, true, false, true, true, false)), (String ((Ascii (true,
    false, false, false, true, true, true, false)), (String ((Ascii (true,
    false, true, false, true, true, true, false)), (String ((Ascii (true,
    false, false, true, false, true, true, false)), (String ((Ascii (false,
    false, true, false, false, true, true, false)), (String ((Ascii (true,
    false, false, false, false, true, true, false)), (String ((Ascii (false,
    false, true, false, true, true, true, false)), (String ((Ascii (true,
    false, false, true, false, true, true, false)), (String ((Ascii (true,
    true, true, true, false, true, true, false)), (String ((Ascii (false,
    true, true, true, false, true, true, false)), (String ((Ascii (false,
    true, true, true, false, true, false, false)), (String ((Ascii (false,
    true, false, false, false, false, true, false)), (String ((Ascii (true,
    false, true, false, false, true, true, false)), (String ((Ascii (true,
    true, true, false, false, true, true, false)), (String ((Ascii (true,
    false, false, true, false, true, true, false)), (String ((Ascii (false,
    true, true, true, false, true, true, false)), (String ((Ascii (false,
    true, false, false, false, false, true, false)), (String ((Ascii (false,
    false, true, true, false, true, true, false)), (String ((Ascii (true,
    true, true, true, false, true, true, false)), (String ((Ascii (true,
    true, false, false, false, true, true, false)), (String ((Ascii (true,
    true, false, true, false, true, true, false)), (String ((Ascii (true,
    false, true, false, false, true, true, false)), (String ((Ascii (false,
    true, false, false, true, true, true, false)),
    EmptyString)))))))))))))))))))))))))))))))))))))))))))))))); u_loop =
    (String ((Ascii (false, true, true, true, false, true, true, false)),
    (String ((Ascii (true, false, true, false, false, true, true, false)),
    (String ((Ascii (true, true, true, false, true, true, true, false)),
    (String ((Ascii (false, true, true, false, true, false, true, false)),
    (String ((Ascii (true, false, false, false, false, true, true, false)),
    (String ((Ascii (true, false, true, false, true, true, true, false)),
    (String ((Ascii (false, false, true, true, false, true, true, false)),
    (String ((Ascii (false, false, true, false, true, true, true, false)),
    (String ((Ascii (true, true, false, false, true, true, true, false)),
    EmptyString)))))))))))))))))); u_calls = ((String ((Ascii (false, false,
    true, true, false, true, true, false)), (String ((Ascii (true, false,
    false, true, false, true, true, false)), (String ((Ascii (true, false,
    false, false, true, true, true, false)), (String ((Ascii (true, false,
    true, false, true, true, true, false)), (String ((Ascii (true, false,
    false, true, false, true, true, false)), (String ((Ascii (false, false,
    true, false, false, true, true, false)), (String ((Ascii (true, false,
    false, false, false, true, true, false)), (String ((Ascii (false, false,
    true, false, true, true, true, false)), (String ((Ascii (true, false,
    false, true, false, true, true, false)), (String ((Ascii (true, true,
    true, true, false, true, true, false)), (String ((Ascii (false, true,
    true, true, false, true, true, false)), (String ((Ascii (false, true,
    true, true, false, true, false, false)), (String ((Ascii (true, true,
    false, false, false, false, true, false)), (String ((Ascii (false, true,
    false, false, true, true, true, false)), (String ((Ascii (true, false,
    true, false, false, true, true, false)), (String ((Ascii (true, false,
    false, false, false, true, true, false)), (String ((Ascii (false, false,
    true, false, true, true, true, false)), (String ((Ascii (true, false,
    true, false, false, true, true, false)), (String ((Ascii (false, false,
    true, true, false, false, true, false)), (String ((Ascii (true, true,
    true, true, false, true, true, false)), (String ((Ascii (true, true,
    false, false, false, true, true, false)), (String ((Ascii (true, true,
    false, true, false, true, true, false)), (String ((Ascii (true, false,
    true, false, false, true, true, false)), (String ((Ascii (false, false,
    true, false, false, true, true, false)), (String ((Ascii (false, true,
    true, false, true, false, true, false)), (String ((Ascii (true, false,
    false, false, false, true, true, false)), (String ((Ascii (true, false,
    true, false, true, true, true, false)), (String ((Ascii (false, false,
    true, true, false, true, true, false)), (String ((Ascii (false, false,
    true, false, true, true, true, false)),
    EmptyString)))))))))))))))))))))))))))))))))))))))))))))))))))))))))) :: ((String
    ((Ascii (false, true, true, false, true, true, true, false)), (String
    ((Ascii (true, false, false, false, false, true, true, false)), (String
    ((Ascii (true, false, true, false, true, true, true, false)), (String
    ((Ascii (false, false, true, true, false, true, true, false)), (String
    ((Ascii (false, false, true, false, true, true, true, false)), (String
    ((Ascii (false, true, true, true, false, true, false, false)), (String
    ((Ascii (false, false, true, false, false, false, true, false)), (String
    ((Ascii (true, false, true, false, false, true, true, false)), (String
    ((Ascii (false, false, true, true, false, true, true, false)), (String
    ((Ascii (true, false, true, false, false, true, true, false)), (String
    ((Ascii (false, false, true, false, true, true, true, false)), (String
    ((Ascii (true, false, true, false, false, true, true, false)), (String
    ((Ascii (false, true, true, false, true, false, true, false)), (String
    ((Ascii (true, false, false, false, false, true, true, false)), (String
    ((Ascii (true, false, true, false, true, true, true, false)), (String
    ((Ascii (false, false, true, true, false, true, true, false)), (String
    ((Ascii (false, false, true, false, true, true, true, false)),
    EmptyString)))))))))))))))))))))))))))))))))) :: ((String ((Ascii (false,
    true, false, false, true, true, true, false)), (String ((Ascii (true,
    false, true, false, false, true, true, false)), (String ((Ascii (true,
    true, true, false, true, true, true, false)), (String ((Ascii (true,
    false, false, false, false, true, true, false)), (String ((Ascii (false,
    true, false, false, true, true, true, false)), (String ((Ascii (false,
    false, true, false, false, true, true, false)), (String ((Ascii (true,
    true, false, false, true, true, true, false)), (String ((Ascii (false,
    true, true, true, false, true, false, false)), (String ((Ascii (true,
    true, false, false, false, false, true, false)), (String ((Ascii (true,
    false, false, false, false, true, true, false)), (String ((Ascii (false,
    false, true, true, false, true, true, false)), (String ((Ascii (true,
    true, false, false, false, true, true, false)), (String ((Ascii (true,
    false, true, false, true, true, true, false)), (String ((Ascii (false,
    false, true, true, false, true, true, false)), (String ((Ascii (true,
    false, false, false, false, true, true, false)), (String ((Ascii (false,
    false, true, false, true, true, true, false)), (String ((Ascii (true,
    false, true, false, false, true, true, false)), (String ((Ascii (false,
    true, true, false, true, false, true, false)), (String ((Ascii (true,
    false, false, false, false, true, true, false)), (String ((Ascii (true,
    false, true, false, true, true, true, false)), (String ((Ascii (false,
    false, true, true, false, true, true, false)), (String ((Ascii (false,
    false, true, false, true, true, true, false)), (String ((Ascii (true,
    false, false, true, false, false, true, false)), (String ((Ascii (false,
    true, true, true, false, true, true, false)), (String ((Ascii (false,
    false, true, false, true, true, true, false)), (String ((Ascii (true,
    false, true, false, false, true, true, false)), (String ((Ascii (false,
    true, false, false, true, true, true, false)), (String ((Ascii (true,
    false, true, false, false, true, true, false)), (String ((Ascii (true,
    true, false, false, true, true, true, false)), (String ((Ascii (false,
    false, true, false, true, true, true, false)),
    EmptyString)))))))))))))))))))))))))))))))))))))))))))))))))))))))))))) :: []))) } :: ({ u_id =
    (String ((Ascii (false, true, true, false, true, true, true, false)),
    (String ((Ascii (false, true, false, false, true, true, false, false)),
    (String ((Ascii (false, true, true, true, false, true, false, false)),
    (String ((Ascii (false, true, true, false, true, true, true, false)),
    (String ((Ascii (true, false, false, false, false, true, true, false)),
    (String ((Ascii (true, false, true, false, true, true, true, false)),
    (String ((Ascii (false, false, true, true, false, true, true, false)),
    (String ((Ascii (false, false, true, false, true, true, true, false)),
    EmptyString)))))))))))))))); u_root = (String ((Ascii (false, false,
    true, true, false, true, true, false)), (String ((Ascii (true, false,
    false, true, false, true, true, false)), (String ((Ascii (true, false,
    false, false, true, true, true, false)), (String ((Ascii (true, false,
    true, false, true, true, true, false)), (String ((Ascii (true, false,
    false, true, false, true, true, false)), (String ((Ascii (false, false,
    true, false, false, true, true, false)), (String ((Ascii (true, false,
    false, false, false, true, true, false)), (String ((Ascii (false, false,
    true, false, true, true, true, false)), (String ((Ascii (true, false,
    false, true, false, true, true, false)), (String ((Ascii (true, true,
    true, true, false, true, true, false)), (String ((Ascii (false, true,
    true, true, false, true, true, false)), (String ((Ascii (true, true,
    false, false, true, true, true, false)), (String ((Ascii (false, true,
    true, false, true, false, true, false)), (String ((Ascii (false, true,
    false, false, true, true, false, false)), (String ((Ascii (false, true,
    true, true, false, true, false, false)), (String ((Ascii (false, true,
    false, false, false, false, true, false)), (String ((Ascii (true, false,
    true, false, false, true, true, false)), (String ((Ascii (true, true,
    true, false, false, true, true, false)), (String ((Ascii (true, false,
    false, true, false, true, true, false)), (String ((Ascii (false, true,
    true, true, false, true, true, false)), (String ((Ascii (false, true,
    false, false, false, false, true, false)), (String ((Ascii (false, false,
    true, true, false, true, true, false)), (String ((Ascii (true, true,
    true, true, false, true, true, false)), (String ((Ascii (true, true,
    false, false, false, true, true, false)), (String ((Ascii (true, true,
    false, true, false, true, true, false)), (String ((Ascii (true, false,
    true, false, false, true, true, false)), (String ((Ascii (false, true,
    false, false, true, true, true, false)),
    EmptyString))))))))))))))))))))))))))))))))))))))))))))))))))))));
    u_loop = (String ((Ascii (false, true, true, true, false, true, true,
    false)), (String ((Ascii (true, false, true, false, false, true, true,
    false)), (String ((Ascii (true, true, true, false, true, true, true,
    false)), (String ((Ascii (false, true, true, false, true, false, true,
    false)), (String ((Ascii (true, false, false, false, false, true, true,
    false)), (String ((Ascii (true, false, true, false, true, true, true,
    false)), (String ((Ascii (false, false, true, true, false, true, true,
    false)), (String ((Ascii (false, false, true, false, true, true, true,
    false)), (String ((Ascii (true, true, false, false, true, true, true,
    false)), EmptyString)))))))))))))))))); u_calls = ((String ((Ascii
    (false, false, true, true, false, true, true, false)), (String ((Ascii
    (true, false, false, true, false, true, true, false)), (String ((Ascii
    (true, false, false, false, true, true, true, false)), (String ((Ascii
    (true, false, true, false, true, true, true, false)), (String ((Ascii
    (true, false, false, true, false, true, true, false)), (String ((Ascii
    (false, false, true, false, false, true, true, false)), (String ((Ascii
    (true, false, false, false, false, true, true, false)), (String ((Ascii
    (false, false, true, false, true, true, true, false)), (String ((Ascii
    (true, false, false, true, false, true, true, false)), (String ((Ascii
    (true, true, true, true, false, true, true, false)), (String ((Ascii
    (false, true, true, true, false, true, true, false)), (String ((Ascii
    (true, true, false, false, true, true, true, false)), (String ((Ascii
    (false, true, true, false, true, false, true, false)), (String ((Ascii
    (false, true, false, false, true, true, false, false)), (String ((Ascii
    (false, true, true, true, false, true, false, false)), (String ((Ascii
    (false, false, true, true, false, false, true, false)), (String ((Ascii
    (true, false, false, true, false, true, true, false)), (String ((Ascii
    (true, false, false, false, true, true, true, false)), (String ((Ascii
    (true, false, true, false, true, true, true, false)), (String ((Ascii
    (true, false, false, true, false, true, true, false)), (String ((Ascii
    (false, false, true, false, false, true, true, false)), (String ((Ascii
    (true, false, false, false, false, true, true, false)), (String ((Ascii
    (false, false, true, false, true, true, true, false)), (String ((Ascii
    (true, false, true, false, false, true, true, false)), (String ((Ascii
    (true, false, false, true, false, false, true, false)), (String ((Ascii
    (false, true, true, true, false, true, true, false)), (String ((Ascii
    (false, false, true, false, false, true, true, false)), (String ((Ascii
    (true, false, false, true, false, true, true, false)), (String ((Ascii
    (false, true, true, false, true, true, true, false)), (String ((Ascii
    (true, false, false, true, false, true, true, false)), (String ((Ascii
    (false, false, true, false, false, true, true, false)), (String ((Ascii
    (true, false, true, false, true, true, true, false)), (String ((Ascii
    (true, false, false, false, false, true, true, false)), (String ((Ascii
    (false, false, true, true, false, true, true, false)), (String ((Ascii
    (false, true, true, false, true, false, true, false)), (String ((Ascii
    (true, false, false, false, false, true, true, false)), (String ((Ascii
    (true, false, true, false, true, true, true, false)), (String ((Ascii
    (false, false, true, true, false, true, true, false)), (String ((Ascii
    (false, false, true, false, true, true, true, false)),
    EmptyString)))))))))))))))))))))))))))))))))))))))))))))))))))))))))))))))))))))))))))))) :: []) } :: ({ u_id =
    (String ((Ascii (false, true, true, false, true, true, true, false)),
    (String ((Ascii (true, false, false, false, true, true, false, false)),
    (String ((Ascii (false, true, true, true, false, true, false, false)),
    (String ((Ascii (false, true, false, false, false, true, true, false)),
    (String ((Ascii (true, true, true, true, false, true, true, false)),
    (String ((Ascii (false, true, false, false, true, true, true, false)),
    (String ((Ascii (false, true, false, false, true, true, true, false)),
    (String ((Ascii (true, true, true, true, false, true, true, false)),
    (String ((Ascii (true, true, true, false, true, true, true, false)),
    EmptyString)))))))))))))))))); u_root = (String ((Ascii (false, false,
    true, true, false, true, true, false)), (String ((Ascii (true, false,
    false, true, false, true, true, false)), (String ((Ascii (true, false,
    false, false, true, true, true, false)), (String ((Ascii (true, false,
    true, false, true, true, true, false)), (String ((Ascii (true, false,
    false, true, false, true, true, false)), (String ((Ascii (false, false,
    true, false, false, true, true, false)), (String ((Ascii (true, false,
    false, false, false, true, true, false)), (String ((Ascii (false, false,
    true, false, true, true, true, false)), (String ((Ascii (true, false,
    false, true, false, true, true, false)), (String ((Ascii (true, true,
    true, true, false, true, true, false)), (String ((Ascii (false, true,
    true, true, false, true, true, false)), (String ((Ascii (false, true,
    true, true, false, true, false, false)), (String ((Ascii (false, true,
    false, false, false, false, true, false)), (String ((Ascii (true, false,
    true, false, false, true, true, false)), (String ((Ascii (true, true,
    true, false, false, true, true, false)), (String ((Ascii (true, false,
    false, true, false, true, true, false)), (String ((Ascii (false, true,
    true, true, false, true, true, false)), (String ((Ascii (false, true,
    false, false, false, false, true, false)), (String ((Ascii (false, false,
    true, true, false, true, true, false)), (String ((Ascii (true, true,
    true, true, false, true, true, false)), (String ((Ascii (true, true,
    false, false, false, true, true, false)), (String ((Ascii (true, true,
    false, true, false, true, true, false)), (String ((Ascii (true, false,
    true, false, false, true, true, false)), (String ((Ascii (false, true,
    false, false, true, true, true, false)),
    EmptyString)))))))))))))))))))))))))))))))))))))))))))))))); u_loop =
    (String ((Ascii (false, true, true, true, false, true, true, false)),
    (String ((Ascii (true, false, true, false, false, true, true, false)),
    (String ((Ascii (true, true, true, false, true, true, true, false)),
    (String ((Ascii (false, true, false, false, false, false, true, false)),
    (String ((Ascii (true, true, true, true, false, true, true, false)),
    (String ((Ascii (false, true, false, false, true, true, true, false)),
    (String ((Ascii (false, true, false, false, true, true, true, false)),
    (String ((Ascii (true, true, true, true, false, true, true, false)),
    (String ((Ascii (true, true, true, false, true, true, true, false)),
    (String ((Ascii (true, false, false, true, false, false, true, false)),
    (String ((Ascii (false, false, true, false, false, false, true, false)),
    (String ((Ascii (true, true, false, false, true, true, true, false)),
    EmptyString)))))))))))))))))))))))); u_calls = ((String ((Ascii (false,
    false, true, true, false, true, true, false)), (String ((Ascii (true,
    false, false, true, false, true, true, false)), (String ((Ascii (true,
    false, false, false, true, true, true, false)), (String ((Ascii (true,
    false, true, false, true, true, true, false)), (String ((Ascii (true,
    false, false, true, false, true, true, false)), (String ((Ascii (false,
    false, true, false, false, true, true, false)), (String ((Ascii (true,
    false, false, false, false, true, true, false)), (String ((Ascii (false,
    false, true, false, true, true, true, false)), (String ((Ascii (true,
    false, false, true, false, true, true, false)), (String ((Ascii (true,
    true, true, true, false, true, true, false)), (String ((Ascii (false,
    true, true, true, false, true, true, false)), (String ((Ascii (false,
    true, true, true, false, true, false, false)), (String ((Ascii (true,
    false, true, false, true, false, true, false)), (String ((Ascii (false,
    false, false, false, true, true, true, false)), (String ((Ascii (false,
    false, true, false, false, true, true, false)), (String ((Ascii (true,
    false, false, false, false, true, true, false)), (String ((Ascii (false,
    false, true, false, true, true, true, false)), (String ((Ascii (true,
    false, true, false, false, true, true, false)), (String ((Ascii (false,
    false, true, true, false, false, true, false)), (String ((Ascii (true,
    true, true, true, false, true, true, false)), (String ((Ascii (true,
    true, false, false, false, true, true, false)), (String ((Ascii (true,
    true, false, true, false, true, true, false)), (String ((Ascii (true,
    false, true, false, false, true, true, false)), (String ((Ascii (false,
    false, true, false, false, true, true, false)), (String ((Ascii (false,
    true, false, false, false, false, true, false)), (String ((Ascii (true,
    true, true, true, false, true, true, false)), (String ((Ascii (false,
    true, false, false, true, true, true, false)), (String ((Ascii (false,
    true, false, false, true, true, true, false)), (String ((Ascii (true,
    true, true, true, false, true, true, false)), (String ((Ascii (true,
    true, true, false, true, true, true, false)), (String ((Ascii (true,
    true, false, false, true, true, true, false)),
    EmptyString)))))))))))))))))))))))))))))))))))))))))))))))))))))))))))))) :: ((String
    ((Ascii (false, false, true, true, false, true, true, false)), (String
    ((Ascii (true, false, true, false, false, true, true, false)), (String
    ((Ascii (false, true, true, true, false, true, true, false)), (String
    ((Ascii (false, false, true, false, false, true, true, false)), (String
    ((Ascii (false, true, true, true, false, true, false, false)), (String
    ((Ascii (true, false, true, true, false, false, true, false)), (String
    ((Ascii (true, true, false, false, true, true, true, false)), (String
    ((Ascii (true, true, true, false, false, true, true, false)), (String
    ((Ascii (true, true, false, false, false, false, true, false)), (String
    ((Ascii (true, false, false, false, false, true, true, false)), (String
    ((Ascii (false, false, true, true, false, true, true, false)), (String
    ((Ascii (true, true, false, false, false, true, true, false)), (String
    ((Ascii (true, false, true, false, true, true, true, false)), (String
    ((Ascii (false, false, true, true, false, true, true, false)), (String
    ((Ascii (true, false, false, false, false, true, true, false)), (String
    ((Ascii (false, false, true, false, true, true, true, false)), (String
    ((Ascii (true, false, true, false, false, true, true, false)), (String
    ((Ascii (false, true, false, false, false, false, true, false)), (String
    ((Ascii (true, true, true, true, false, true, true, false)), (String
    ((Ascii (false, true, false, false, true, true, true, false)), (String
    ((Ascii (false, true, false, false, true, true, true, false)), (String
    ((Ascii (true, true, true, true, false, true, true, false)), (String
    ((Ascii (true, true, true, false, true, true, true, false)), (String
    ((Ascii (true, false, false, true, false, false, true, false)), (String
    ((Ascii (false, true, true, true, false, true, true, false)), (String
    ((Ascii (false, false, true, false, true, true, true, false)), (String
    ((Ascii (true, false, true, false, false, true, true, false)), (String
    ((Ascii (false, true, false, false, true, true, true, false)), (String
    ((Ascii (true, false, true, false, false, true, true, false)), (String
    ((Ascii (true, true, false, false, true, true, true, false)), (String
    ((Ascii (false, false, true, false, true, true, true, false)),
    EmptyString)))))))))))))))))))))))))))))))))))))))))))))))))))))))))))))) :: ((String
    ((Ascii (false, false, true, true, false, true, true, false)), (String
    ((Ascii (true, false, true, false, false, true, true, false)), (String
    ((Ascii (false, true, true, true, false, true, true, false)), (String
    ((Ascii (false, false, true, false, false, true, true, false)), (String
    ((Ascii (false, true, true, true, false, true, false, false)), (String
    ((Ascii (true, false, true, false, true, false, true, false)), (String
    ((Ascii (false, false, false, false, true, true, true, false)), (String
    ((Ascii (false, false, true, false, false, true, true, false)), (String
    ((Ascii (true, false, false, false, false, true, true, false)), (String
    ((Ascii (false, false, true, false, true, true, true, false)), (String
    ((Ascii (true, false, true, false, false, true, true, false)), (String
    ((Ascii (false, true, false, false, false, false, true, false)), (String
    ((Ascii (true, true, true, true, false, true, true, false)), (String
    ((Ascii (false, true, false, false, true, true, true, false)), (String
    ((Ascii (false, true, false, false, true, true, true, false)), (String
    ((Ascii (true, true, true, true, false, true, true, false)), (String
    ((Ascii (true, true, true, false, true, true, true, false)), (String
    ((Ascii (true, true, false, false, true, false, true, false)), (String
    ((Ascii (false, false, true, false, true, true, true, false)), (String
    ((Ascii (true, false, false, false, false, true, true, false)), (String
    ((Ascii (false, false, true, false, true, true, true, false)), (String
    ((Ascii (true, true, false, false, true, true, true, false)),
    EmptyString)))))))))))))))))))))))))))))))))))))))))))) :: []))) } :: ({ u_id =
    (String ((Ascii (false, true, true, false, true, true, true, false)),
    (String ((Ascii (false, true, false, false, true, true, false, false)),
    (String ((Ascii (false, true, true, true, false, true, false, false)),
    (String ((Ascii (false, true, false, false, false, true, true, false)),
    (String ((Ascii (true, true, true, true, false, true, true, false)),
    (String ((Ascii (false, true, false, false, true, true, true, false)),
    (String ((Ascii (false, true, false, false, true, true, true, false)),
    (String ((Ascii (true, true, true, true, false, true, true, false)),
    (String ((Ascii (true, true, true, false, true, true, true, false)),
    EmptyString)))))))))))))))))); u_root = (String ((Ascii (false, false,
    true, true, false, true, true, false)), (String ((Ascii (true, false,
    false, true, false, true, true, false)), (String ((Ascii (true, false,
    false, false, true, true, true, false)), (String ((Ascii (true, false,
    true, false, true, true, true, false)), (String ((Ascii (true, false,
    false, true, false, true, true, false)), (String ((Ascii (false, false,
    true, false, false, true, true, false)), (String ((Ascii (true, false,
    false, false, false, true, true, false)), (String ((Ascii (false, false,
    true, false, true, true, true, false)), (String ((Ascii (true, false,
    false, true, false, true, true, false)), (String ((Ascii (true, true,
    true, true, false, true, true, false)), (String ((Ascii (false, true,
    true, true, false, true, true, false)), (String ((Ascii (true, true,
    false, false, true, true, true, false)), (String ((Ascii (false, true,
    true, false, true, false, true, false)), (String ((Ascii (false, true,
    false, false, true, true, false, false)), (String ((Ascii (false, true,
    true, true, false, true, false, false)), (String ((Ascii (false, true,
    false, false, false, false, true, false)), (String ((Ascii (true, false,
    true, false, false, true, true, false)), (String ((Ascii (true, true,
    true, false, false, true, true, false)), (String ((Ascii (true, false,
    false, true, false, true, true, false)), (String ((Ascii (false, true,
    true, true, false, true, true, false)), (String ((Ascii (false, true,
    false, false, false, false, true, false)), (String ((Ascii (false, false,
    true, true, false, true, true, false)), (String ((Ascii (true, true,
    true, true, false, true, true, false)), (String ((Ascii (true, true,
    false, false, false, true, true, false)), (String ((Ascii (true, true,
    false, true, false, true, true, false)), (String ((Ascii (true, false,
    true, false, false, true, true, false)), (String ((Ascii (false, true,
    false, false, true, true, true, false)),
    EmptyString))))))))))))))))))))))))))))))))))))))))))))))))))))));
    u_loop = (String ((Ascii (false, true, true, true, false, true, true,
    false)), (String ((Ascii (true, false, true, false, false, true, true,
    false)), (String ((Ascii (true, true, true, false, true, true, true,
    false)), (String ((Ascii (false, true, false, false, false, false, true,
    false)), (String ((Ascii (true, true, true, true, false, true, true,
    false)), (String ((Ascii (false, true, false, false, true, true, true,
    false)), (String ((Ascii (false, true, false, false, true, true, true,
    false)), (String ((Ascii (true, true, true, true, false, true, true,
    false)), (String ((Ascii (true, true, true, false, true, true, true,
    false)), (String ((Ascii (true, false, false, true, false, false, true,
    false)), (String ((Ascii (false, false, true, false, false, false, true,
    false)), (String ((Ascii (true, true, false, false, true, true, true,
    false)), EmptyString)))))))))))))))))))))))); u_calls = ((String ((Ascii
    (false, false, true, true, false, true, true, false)), (String ((Ascii
    (true, false, false, true, false, true, true, false)), (String ((Ascii
    (true, false, false, false, true, true, true, false)), (String ((Ascii
    (true, false, true, false, true, true, true, false)), (String ((Ascii
    (true, false, false, true, false, true, true, false)), (String ((Ascii
    (false, false, true, false, false, true, true, false)), (String ((Ascii
    (true, false, false, false, false, true, true, false)), (String ((Ascii
    (false, false, true, false, true, true, true, false)), (String ((Ascii
    (true, false, false, true, false, true, true, false)), (String ((Ascii
    (true, true, true, true, false, true, true, false)), (String ((Ascii
    (false, true, true, true, false, true, true, false)), (String ((Ascii
    (true, true, false, false, true, true, true, false)), (String ((Ascii
    (false, true, true, false, true, false, true, false)), (String ((Ascii
    (false, true, false, false, true, true, false, false)), (String ((Ascii
    (false, true, true, true, false, true, false, false)), (String ((Ascii
    (false, false, true, true, false, false, true, false)), (String ((Ascii
    (true, false, false, true, false, true, true, false)), (String ((Ascii
    (true, false, false, false, true, true, true, false)), (String ((Ascii
    (true, false, true, false, true, true, true, false)), (String ((Ascii
    (true, false, false, true, false, true, true, false)), (String ((Ascii
    (false, false, true, false, false, true, true, false)), (String ((Ascii
    (true, false, false, false, false, true, true, false)), (String ((Ascii
    (false, false, true, false, true, true, true, false)), (String ((Ascii
    (true, false, true, false, false, true, true, false)), (String ((Ascii
    (true, false, false, true, false, false, true, false)), (String ((Ascii
    (false, true, true, true, false, true, true, false)), (String ((Ascii
    (false, false, true, false, false, true, true, false)), (String ((Ascii
    (true, false, false, true, false, true, true, false)), (String ((Ascii
    (false, true, true, false, true, true, true, false)), (String ((Ascii
    (true, false, false, true, false, true, true, false)), (String ((Ascii
    (false, false, true, false, false, true, true, false)), (String ((Ascii
    (true, false, true, false, true, true, true, false)), (String ((Ascii
    (true, false, false, false, false, true, true, false)), (String ((Ascii
    (false, false, true, true, false, true, true, false)), (String ((Ascii
    (false, true, false, false, false, false, true, false)), (String ((Ascii
    (true, true, true, true, false, true, true, false)), (String ((Ascii
    (false, true, false, false, true, true, true, false)), (String ((Ascii
    (false, true, false, false, true, true, true, false)), (String ((Ascii
    (true, true, true, true, false, true, true, false)), (String ((Ascii
    (true, true, true, false, true, true, true, false)),
    EmptyString)))))))))))))))))))))))))))))))))))))))))))))))))))))))))))))))))))))))))))))))) :: []) } :: ({ u_id =
    (String ((Ascii (false, true, true, false, true, true, true, false)),
    (String ((Ascii (true, false, false, false, true, true, false, false)),
    (String ((Ascii (false, true, true, true, false, true, false, false)),
    (String ((Ascii (true, true, false, false, true, true, true, false)),
    (String ((Ascii (true, false, true, false, true, true, true, false)),
    (String ((Ascii (false, true, false, false, true, true, true, false)),
    (String ((Ascii (false, false, false, false, true, true, true, false)),
    (String ((Ascii (false, false, true, true, false, true, true, false)),
    (String ((Ascii (true, false, true, false, true, true, true, false)),
    (String ((Ascii (true, true, false, false, true, true, true, false)),
    EmptyString)))))))))))))))))))); u_root = (String ((Ascii (true, false,
    false, false, false, true, true, false)), (String ((Ascii (true, false,
    true, false, true, true, true, false)), (String ((Ascii (true, true,
    false, false, false, true, true, false)), (String ((Ascii (false, false,
    true, false, true, true, true, false)), (String ((Ascii (true, false,
    false, true, false, true, true, false)), (String ((Ascii (true, true,
    true, true, false, true, true, false)), (String ((Ascii (false, true,
    true, true, false, true, true, false)), (String ((Ascii (false, true,
    true, true, false, true, false, false)), (String ((Ascii (false, true,
    false, false, false, false, true, false)), (String ((Ascii (true, false,
    true, false, false, true, true, false)), (String ((Ascii (true, true,
    true, false, false, true, true, false)), (String ((Ascii (true, false,
    false, true, false, true, true, false)), (String ((Ascii (false, true,
    true, true, false, true, true, false)), (String ((Ascii (false, true,
    false, false, false, false, true, false)), (String ((Ascii (false, false,
    true, true, false, true, true, false)), (String ((Ascii (true, true,
    true, true, false, true, true, false)), (String ((Ascii (true, true,
    false, false, false, true, true, false)), (String ((Ascii (true, true,
    false, true, false, true, true, false)), (String ((Ascii (true, false,
    true, false, false, true, true, false)), (String ((Ascii (false, true,
    false, false, true, true, true, false)),
    EmptyString)))))))))))))))))))))))))))))))))))))))); u_loop = (String
    ((Ascii (true, false, false, false, false, true, true, false)), (String
    ((Ascii (true, false, true, false, true, true, true, false)), (String
    ((Ascii (true, true, false, false, false, true, true, false)), (String
    ((Ascii (false, false, true, false, true, true, true, false)), (String
    ((Ascii (true, false, false, true, false, true, true, false)), (String
    ((Ascii (true, true, true, true, false, true, true, false)), (String
    ((Ascii (false, true, true, true, false, true, true, false)), (String
    ((Ascii (true, false, true, true, false, false, true, false)), (String
    ((Ascii (true, false, false, false, false, true, true, false)), (String
    ((Ascii (false, false, false, false, true, true, true, false)), (String
    ((Ascii (false, false, true, false, false, false, true, false)), (String
    ((Ascii (true, false, false, false, false, true, true, false)), (String
    ((Ascii (false, false, true, false, true, true, true, false)), (String
    ((Ascii (true, false, false, false, false, true, true, false)),
    EmptyString)))))))))))))))))))))))))))); u_calls = ((String ((Ascii
    (true, false, false, false, false, true, true, false)), (String ((Ascii
    (true, false, true, false, true, true, true, false)), (String ((Ascii
    (true, true, false, false, false, true, true, false)), (String ((Ascii
    (false, false, true, false, true, true, true, false)), (String ((Ascii
    (true, false, false, true, false, true, true, false)), (String ((Ascii
    (true, true, true, true, false, true, true, false)), (String ((Ascii
    (false, true, true, true, false, true, true, false)), (String ((Ascii
    (false, true, true, true, false, true, false, false)), (String ((Ascii
    (true, true, false, false, true, false, true, false)), (String ((Ascii
    (true, false, true, false, true, true, true, false)), (String ((Ascii
    (false, true, false, false, true, true, true, false)), (String ((Ascii
    (false, false, false, false, true, true, true, false)), (String ((Ascii
    (false, false, true, true, false, true, true, false)), (String ((Ascii
    (true, false, true, false, true, true, true, false)), (String ((Ascii
    (true, true, false, false, true, true, true, false)), (String ((Ascii
    (true, false, false, false, false, false, true, false)), (String ((Ascii
    (true, true, false, false, false, true, true, false)), (String ((Ascii
    (false, false, true, false, true, true, true, false)), (String ((Ascii
    (true, false, false, true, false, true, true, false)), (String ((Ascii
    (false, true, true, false, true, true, true, false)), (String ((Ascii
    (true, false, false, false, false, true, true, false)), (String ((Ascii
    (false, false, true, false, true, true, true, false)), (String ((Ascii
    (true, true, true, true, false, true, true, false)), (String ((Ascii
    (false, true, false, false, true, true, true, false)),
    EmptyString)))))))))))))))))))))))))))))))))))))))))))))))) :: []) } :: ({ u_id =
    (String ((Ascii (false, true, true, false, true, true, true, false)),
    (String ((Ascii (true, false, false, false, true, true, false, false)),
    (String ((Ascii (false, true, true, true, false, true, false, false)),
    (String ((Ascii (false, false, true, false, false, true, true, false)),
    (String ((Ascii (true, false, true, false, false, true, true, false)),
    (String ((Ascii (false, true, false, false, false, true, true, false)),
    (String ((Ascii (false, false, true, false, true, true, true, false)),
    EmptyString)))))))))))))); u_root = (String ((Ascii (true, false, false,
    false, false, true, true, false)), (String ((Ascii (true, false, true,
    false, true, true, true, false)), (String ((Ascii (true, true, false,
    false, false, true, true, false)), (String ((Ascii (false, false, true,
    false, true, true, true, false)), (String ((Ascii (true, false, false,
    true, false, true, true, false)), (String ((Ascii (true, true, true,
    true, false, true, true, false)), (String ((Ascii (false, true, true,
    true, false, true, true, false)), (String ((Ascii (false, true, true,
    true, false, true, false, false)), (String ((Ascii (false, true, false,
    false, false, false, true, false)), (String ((Ascii (true, false, true,
    false, false, true, true, false)), (String ((Ascii (true, true, true,
    false, false, true, true, false)), (String ((Ascii (true, false, false,
    true, false, true, true, false)), (String ((Ascii (false, true, true,
    true, false, true, true, false)), (String ((Ascii (false, true, false,
    false, false, false, true, false)), (String ((Ascii (false, false, true,
    true, false, true, true, false)), (String ((Ascii (true, true, true,
    true, false, true, true, false)), (String ((Ascii (true, true, false,
    false, false, true, true, false)), (String ((Ascii (true, true, false,
    true, false, true, true, false)), (String ((Ascii (true, false, true,
    false, false, true, true, false)), (String ((Ascii (false, true, false,
    false, true, true, true, false)),
    EmptyString)))))))))))))))))))))))))))))))))))))))); u_loop = (String
    ((Ascii (true, false, false, false, false, true, true, false)), (String
    ((Ascii (true, false, true, false, true, true, true, false)), (String
    ((Ascii (true, true, false, false, false, true, true, false)), (String
    ((Ascii (false, false, true, false, true, true, true, false)), (String
    ((Ascii (true, false, false, true, false, true, true, false)), (String
    ((Ascii (true, true, true, true, false, true, true, false)), (String
    ((Ascii (false, true, true, true, false, true, true, false)), (String
    ((Ascii (true, false, true, true, false, false, true, false)), (String
    ((Ascii (true, false, false, false, false, true, true, false)), (String
    ((Ascii (false, false, false, false, true, true, true, false)), (String
    ((Ascii (false, false, true, false, false, false, true, false)), (String
    ((Ascii (true, false, false, false, false, true, true, false)), (String
    ((Ascii (false, false, true, false, true, true, true, false)), (String
    ((Ascii (true, false, false, false, false, true, true, false)),
    EmptyString)))))))))))))))))))))))))))); u_calls = ((String ((Ascii
    (true, false, false, false, false, true, true, false)), (String ((Ascii
    (true, false, true, false, true, true, true, false)), (String ((Ascii
    (true, true, false, false, false, true, true, false)), (String ((Ascii
    (false, false, true, false, true, true, true, false)), (String ((Ascii
    (true, false, false, true, false, true, true, false)), (String ((Ascii
    (true, true, true, true, false, true, true, false)), (String ((Ascii
    (false, true, true, true, false, true, true, false)), (String ((Ascii
    (false, true, true, true, false, true, false, false)), (String ((Ascii
    (false, false, true, false, false, false, true, false)), (String ((Ascii
    (true, false, true, false, false, true, true, false)), (String ((Ascii
    (false, true, false, false, false, true, true, false)), (String ((Ascii
    (false, false, true, false, true, true, true, false)), (String ((Ascii
    (true, false, false, false, false, false, true, false)), (String ((Ascii
    (true, true, false, false, false, true, true, false)), (String ((Ascii
    (false, false, true, false, true, true, true, false)), (String ((Ascii
    (true, false, false, true, false, true, true, false)), (String ((Ascii
    (false, true, true, false, true, true, true, false)), (String ((Ascii
    (true, false, false, false, false, true, true, false)), (String ((Ascii
    (false, false, true, false, true, true, true, false)), (String ((Ascii
    (true, true, true, true, false, true, true, false)), (String ((Ascii
    (false, true, false, false, true, true, true, false)),
    EmptyString)))))))))))))))))))))))))))))))))))))))))) :: []) } :: ({ u_id =
    (String ((Ascii (false, true, true, false, true, true, true, false)),
    (String ((Ascii (true, false, false, false, true, true, false, false)),
    (String ((Ascii (false, true, true, true, false, true, false, false)),
    (String ((Ascii (false, false, true, false, false, true, true, false)),
    (String ((Ascii (true, false, true, false, true, true, true, false)),
    (String ((Ascii (false, false, true, false, true, true, true, false)),
    (String ((Ascii (true, true, false, false, false, true, true, false)),
    (String ((Ascii (false, false, false, true, false, true, true, false)),
    EmptyString)))))))))))))))); u_root = (String ((Ascii (true, false,
    false, false, false, true, true, false)), (String ((Ascii (true, false,
    true, false, true, true, true, false)), (String ((Ascii (true, true,
    false, false, false, true, true, false)), (String ((Ascii (false, false,
    true, false, true, true, true, false)), (String ((Ascii (true, false,
    false, true, false, true, true, false)), (String ((Ascii (true, true,
    true, true, false, true, true, false)), (String ((Ascii (false, true,
    true, true, false, true, true, false)), (String ((Ascii (false, true,
    true, true, false, true, false, false)), (String ((Ascii (false, true,
    false, false, false, false, true, false)), (String ((Ascii (true, false,
    true, false, false, true, true, false)), (String ((Ascii (true, true,
    true, false, false, true, true, false)), (String ((Ascii (true, false,
    false, true, false, true, true, false)), (String ((Ascii (false, true,
    true, true, false, true, true, false)), (String ((Ascii (false, true,
    false, false, false, false, true, false)), (String ((Ascii (false, false,
    true, true, false, true, true, false)), (String ((Ascii (true, true,
    true, true, false, true, true, false)), (String ((Ascii (true, true,
    false, false, false, true, true, false)), (String ((Ascii (true, true,
    false, true, false, true, true, false)), (String ((Ascii (true, false,
    true, false, false, true, true, false)), (String ((Ascii (false, true,
    false, false, true, true, true, false)),
    EmptyString)))))))))))))))))))))))))))))))))))))))); u_loop = (String
    ((Ascii (false, false, true, false, false, true, true, false)), (String
    ((Ascii (true, false, true, false, true, true, true, false)), (String
    ((Ascii (false, false, true, false, true, true, true, false)), (String
    ((Ascii (true, true, false, false, false, true, true, false)), (String
    ((Ascii (false, false, false, true, false, true, true, false)), (String
    ((Ascii (true, false, false, false, false, false, true, false)), (String
    ((Ascii (true, false, true, false, true, true, true, false)), (String
    ((Ascii (true, true, false, false, false, true, true, false)), (String
    ((Ascii (false, false, true, false, true, true, true, false)), (String
    ((Ascii (true, false, false, true, false, true, true, false)), (String
    ((Ascii (true, true, true, true, false, true, true, false)), (String
    ((Ascii (false, true, true, true, false, true, true, false)), (String
    ((Ascii (true, true, false, false, true, true, true, false)),
    EmptyString)))))))))))))))))))))))))); u_calls = ((String ((Ascii (true,
    false, false, false, false, true, true, false)), (String ((Ascii (true,
    false, true, false, true, true, true, false)), (String ((Ascii (true,
    true, false, false, false, true, true, false)), (String ((Ascii (false,
    false, true, false, true, true, true, false)), (String ((Ascii (true,
    false, false, true, false, true, true, false)), (String ((Ascii (true,
    true, true, true, false, true, true, false)), (String ((Ascii (false,
    true, true, true, false, true, true, false)), (String ((Ascii (false,
    true, true, true, false, true, false, false)), (String ((Ascii (true,
    true, false, false, true, false, true, false)), (String ((Ascii (true,
    false, true, false, false, true, true, false)), (String ((Ascii (false,
    false, true, false, true, true, true, false)), (String ((Ascii (false,
    false, true, false, false, false, true, false)), (String ((Ascii (true,
    false, true, false, true, true, true, false)), (String ((Ascii (false,
    false, true, false, true, true, true, false)), (String ((Ascii (true,
    true, false, false, false, true, true, false)), (String ((Ascii (false,
    false, false, true, false, true, true, false)), (String ((Ascii (true,
    false, false, false, false, false, true, false)), (String ((Ascii (true,
    false, true, false, true, true, true, false)), (String ((Ascii (true,
    true, false, false, false, true, true, false)), (String ((Ascii (false,
    false, true, false, true, true, true, false)), (String ((Ascii (true,
    false, false, true, false, true, true, false)), (String ((Ascii (true,
    true, true, true, false, true, true, false)), (String ((Ascii (false,
    true, true, true, false, true, true, false)),
    EmptyString)))))))))))))))))))))))))))))))))))))))))))))) :: ((String
    ((Ascii (true, false, false, false, false, true, true, false)), (String
    ((Ascii (true, false, true, false, true, true, true, false)), (String
    ((Ascii (true, true, false, false, false, true, true, false)), (String
    ((Ascii (false, false, true, false, true, true, true, false)), (String
    ((Ascii (true, false, false, true, false, true, true, false)), (String
    ((Ascii (true, true, true, true, false, true, true, false)), (String
    ((Ascii (false, true, true, true, false, true, true, false)), (String
    ((Ascii (false, true, true, true, false, true, false, false)), (String
    ((Ascii (false, false, true, false, false, false, true, false)), (String
    ((Ascii (true, false, true, false, false, true, true, false)), (String
    ((Ascii (false, false, true, true, false, true, true, false)), (String
    ((Ascii (true, false, true, false, false, true, true, false)), (String
    ((Ascii (false, false, true, false, true, true, true, false)), (String
    ((Ascii (true, false, true, false, false, true, true, false)), (String
    ((Ascii (false, false, true, false, false, false, true, false)), (String
    ((Ascii (true, false, true, false, true, true, true, false)), (String
    ((Ascii (false, false, true, false, true, true, true, false)), (String
    ((Ascii (true, true, false, false, false, true, true, false)), (String
    ((Ascii (false, false, false, true, false, true, true, false)), (String
    ((Ascii (true, false, false, false, false, false, true, false)), (String
    ((Ascii (true, false, true, false, true, true, true, false)), (String
    ((Ascii (true, true, false, false, false, true, true, false)), (String
    ((Ascii (false, false, true, false, true, true, true, false)), (String
    ((Ascii (true, false, false, true, false, true, true, false)), (String
    ((Ascii (true, true, true, true, false, true, true, false)), (String
    ((Ascii (false, true, true, true, false, true, true, false)),
    EmptyString)))))))))))))))))))))))))))))))))))))))))))))))))))) :: ((String
    ((Ascii (false, true, true, false, true, true, true, false)), (String
    ((Ascii (true, false, false, false, false, true, true, false)), (String
    ((Ascii (true, false, true, false, true, true, true, false)), (String
    ((Ascii (false, false, true, true, false, true, true, false)), (String
    ((Ascii (false, false, true, false, true, true, true, false)), (String
    ((Ascii (false, true, true, true, false, true, false, false)), (String
    ((Ascii (true, true, false, false, false, false, true, false)), (String
    ((Ascii (false, true, false, false, true, true, true, false)), (String
    ((Ascii (true, false, true, false, false, true, true, false)), (String
    ((Ascii (true, false, false, false, false, true, true, false)), (String
    ((Ascii (false, false, true, false, true, true, true, false)), (String
    ((Ascii (true, false, true, false, false, true, true, false)), (String
    ((Ascii (false, true, true, true, false, false, true, false)), (String
    ((Ascii (true, false, true, false, false, true, true, false)), (String
    ((Ascii (true, true, true, false, true, true, true, false)), (String
    ((Ascii (false, true, true, false, true, false, true, false)), (String
    ((Ascii (true, false, false, false, false, true, true, false)), (String
    ((Ascii (true, false, true, false, true, true, true, false)), (String
    ((Ascii (false, false, true, true, false, true, true, false)), (String
    ((Ascii (false, false, true, false, true, true, true, false)),
    EmptyString)))))))))))))))))))))))))))))))))))))))) :: ((String ((Ascii
    (false, false, true, true, false, true, true, false)), (String ((Ascii
    (true, false, false, true, false, true, true, false)), (String ((Ascii
    (true, false, false, false, true, true, true, false)), (String ((Ascii
    (true, false, true, false, true, true, true, false)), (String ((Ascii
    (true, false, false, true, false, true, true, false)), (String ((Ascii
    (false, false, true, false, false, true, true, false)), (String ((Ascii
    (true, false, false, false, false, true, true, false)), (String ((Ascii
    (false, false, true, false, true, true, true, false)), (String ((Ascii
    (true, false, false, true, false, true, true, false)), (String ((Ascii
    (true, true, true, true, false, true, true, false)), (String ((Ascii
    (false, true, true, true, false, true, true, false)), (String ((Ascii
    (false, true, true, true, false, true, false, false)), (String ((Ascii
    (false, false, true, false, false, false, true, false)), (String ((Ascii
    (true, false, true, false, false, true, true, false)), (String ((Ascii
    (false, false, true, true, false, true, true, false)), (String ((Ascii
    (true, false, true, false, false, true, true, false)), (String ((Ascii
    (false, false, true, false, true, true, true, false)), (String ((Ascii
    (true, false, true, false, false, true, true, false)), (String ((Ascii
    (false, false, true, true, false, false, true, false)), (String ((Ascii
    (true, true, true, true, false, true, true, false)), (String ((Ascii
    (true, true, false, false, false, true, true, false)), (String ((Ascii
    (true, true, false, true, false, true, true, false)), (String ((Ascii
    (true, false, true, false, false, true, true, false)), (String ((Ascii
    (false, false, true, false, false, true, true, false)), (String ((Ascii
    (false, true, true, false, true, false, true, false)), (String ((Ascii
    (true, false, false, false, false, true, true, false)), (String ((Ascii
    (true, false, true, false, true, true, true, false)), (String ((Ascii
    (false, false, true, true, false, true, true, false)), (String ((Ascii
    (false, false, true, false, true, true, true, false)),
    EmptyString)))))))))))))))))))))))))))))))))))))))))))))))))))))))))) :: [])))) } :: ({ u_id =
    (String ((Ascii (false, true, true, false, true, true, true, false)),
    (String ((Ascii (true, false, false, false, true, true, false, false)),
    (String ((Ascii (false, true, true, true, false, true, false, false)),
    (String ((Ascii (false, false, true, true, false, true, true, false)),
    (String ((Ascii (true, false, true, false, false, true, true, false)),
    (String ((Ascii (false, true, true, true, false, true, true, false)),
    (String ((Ascii (false, false, true, false, false, true, true, false)),
    (String ((Ascii (false, false, true, false, false, true, true, false)),
    (String ((Ascii (true, false, true, false, true, true, true, false)),
    (String ((Ascii (false, false, true, false, true, true, true, false)),
    (String ((Ascii (true, true, false, false, false, true, true, false)),
    (String ((Ascii (false, false, false, true, false, true, true, false)),
    EmptyString)))))))))))))))))))))))); u_root = (String ((Ascii (true,
    false, false, false, false, true, true, false)), (String ((Ascii (true,
    false, true, false, true, true, true, false)), (String ((Ascii (true,
    true, false, false, false, true, true, false)), (String ((Ascii (false,
    false, true, false, true, true, true, false)), (String ((Ascii (true,
    false, false, true, false, true, true, false)), (String ((Ascii (true,
    true, true, true, false, true, true, false)), (String ((Ascii (false,
    true, true, true, false, true, true, false)), (String ((Ascii (false,
    true, true, true, false, true, false, false)), (String ((Ascii (false,
    true, false, false, false, false, true, false)), (String ((Ascii (true,
    false, true, false, false, true, true, false)), (String ((Ascii (true,
    true, true, false, false, true, true, false)), (String ((Ascii (true,
    false, false, true, false, true, true, false)), (String ((Ascii (false,
    true, true, true, false, true, true, false)), (String ((Ascii (false,
    true, false, false, false, false, true, false)), (String ((Ascii (false,
    false, true, true, false, true, true, false)), (String ((Ascii (true,
    true, true, true, false, true, true, false)), (String ((Ascii (true,
    true, false, false, false, true, true, false)), (String ((Ascii (true,
    true, false, true, false, true, true, false)), (String ((Ascii (true,
    false, true, false, false, true, true, false)), (String ((Ascii (false,
    true, false, false, true, true, true, false)),
    EmptyString)))))))))))))))))))))))))))))))))))))))); u_loop = (String
    ((Ascii (false, false, true, false, false, true, true, false)), (String
    ((Ascii (true, false, true, false, true, true, true, false)), (String
    ((Ascii (false, false, true, false, true, true, true, false)), (String
    ((Ascii (true, true, false, false, false, true, true, false)), (String
    ((Ascii (false, false, false, true, false, true, true, false)), (String
    ((Ascii (true, false, false, false, false, false, true, false)), (String
    ((Ascii (true, false, true, false, true, true, true, false)), (String
    ((Ascii (true, true, false, false, false, true, true, false)), (String
    ((Ascii (false, false, true, false, true, true, true, false)), (String
    ((Ascii (true, false, false, true, false, true, true, false)), (String
    ((Ascii (true, true, true, true, false, true, true, false)), (String
    ((Ascii (false, true, true, true, false, true, true, false)), (String
    ((Ascii (true, true, false, false, true, true, true, false)),
    EmptyString)))))))))))))))))))))))))); u_calls = ((String ((Ascii (true,
    false, false, false, false, true, true, false)), (String ((Ascii (true,
    false, true, false, true, true, true, false)), (String ((Ascii (true,
    true, false, false, false, true, true, false)), (String ((Ascii (false,
    false, true, false, true, true, true, false)), (String ((Ascii (true,
    false, false, true, false, true, true, false)), (String ((Ascii (true,
    true, true, true, false, true, true, false)), (String ((Ascii (false,
    true, true, true, false, true, true, false)), (String ((Ascii (false,
    true, true, true, false, true, false, false)), (String ((Ascii (true,
    true, false, false, true, false, true, false)), (String ((Ascii (true,
    false, true, false, false, true, true, false)), (String ((Ascii (false,
    false, true, false, true, true, true, false)), (String ((Ascii (false,
    false, true, false, false, false, true, false)), (String ((Ascii (true,
    false, true, false, true, true, true, false)), (String ((Ascii (false,
    false, true, false, true, true, true, false)), (String ((Ascii (true,
    true, false, false, false, true, true, false)), (String ((Ascii (false,
    false, false, true, false, true, true, false)), (String ((Ascii (false,
    false, true, true, false, false, true, false)), (String ((Ascii (true,
    false, true, false, false, true, true, false)), (String ((Ascii (false,
    true, true, true, false, true, true, false)), (String ((Ascii (false,
    false, true, false, false, true, true, false)), (String ((Ascii (true,
    false, false, false, false, false, true, false)), (String ((Ascii (true,
    false, true, false, true, true, true, false)), (String ((Ascii (true,
    true, false, false, false, true, true, false)), (String ((Ascii (false,
    false, true, false, true, true, true, false)), (String ((Ascii (true,
    false, false, true, false, true, true, false)), (String ((Ascii (true,
    true, true, true, false, true, true, false)), (String ((Ascii (false,
    true, true, true, false, true, true, false)),
    EmptyString)))))))))))))))))))))))))))))))))))))))))))))))))))))) :: []) } :: ({ u_id =
    (String ((Ascii (false, true, true, false, true, true, true, false)),
    (String ((Ascii (false, true, false, false, true, true, false, false)),
    (String ((Ascii (false, true, true, true, false, true, false, false)),
    (String ((Ascii (true, false, false, false, false, true, true, false)),
    (String ((Ascii (true, false, true, false, true, true, true, false)),
    (String ((Ascii (true, true, false, false, false, true, true, false)),
    (String ((Ascii (false, false, true, false, true, true, true, false)),
    (String ((Ascii (true, false, false, true, false, true, true, false)),
    (String ((Ascii (true, true, true, true, false, true, true, false)),
    (String ((Ascii (false, true, true, true, false, true, true, false)),
    EmptyString)))))))))))))))))))); u_root = (String ((Ascii (true, false,
    false, false, false, true, true, false)), (String ((Ascii (true, false,
    true, false, true, true, true, false)), (String ((Ascii (true, true,
    false, false, false, true, true, false)), (String ((Ascii (false, false,
    true, false, true, true, true, false)), (String ((Ascii (true, false,
    false, true, false, true, true, false)), (String ((Ascii (true, true,
    true, true, false, true, true, false)), (String ((Ascii (false, true,
    true, true, false, true, true, false)), (String ((Ascii (true, true,
    false, false, true, true, true, false)), (String ((Ascii (false, true,
    true, false, true, false, true, false)), (String ((Ascii (false, true,
    false, false, true, true, false, false)), (String ((Ascii (false, true,
    true, true, false, true, false, false)), (String ((Ascii (false, true,
    false, false, false, false, true, false)), (String ((Ascii (true, false,
    true, false, false, true, true, false)), (String ((Ascii (true, true,
    true, false, false, true, true, false)), (String ((Ascii (true, false,
    false, true, false, true, true, false)), (String ((Ascii (false, true,
    true, true, false, true, true, false)), (String ((Ascii (false, true,
    false, false, false, false, true, false)), (String ((Ascii (false, false,
    true, true, false, true, true, false)), (String ((Ascii (true, true,
    true, true, false, true, true, false)), (String ((Ascii (true, true,
    false, false, false, true, true, false)), (String ((Ascii (true, true,
    false, true, false, true, true, false)), (String ((Ascii (true, false,
    true, false, false, true, true, false)), (String ((Ascii (false, true,
    false, false, true, true, true, false)),
    EmptyString)))))))))))))))))))))))))))))))))))))))))))))); u_loop =
    (String ((Ascii (true, false, false, false, false, true, true, false)),
    (String ((Ascii (true, false, true, false, true, true, true, false)),
    (String ((Ascii (true, true, false, false, false, true, true, false)),
    (String ((Ascii (false, false, true, false, true, true, true, false)),
    (String ((Ascii (true, false, false, true, false, true, true, false)),
    (String ((Ascii (true, true, true, true, false, true, true, false)),
    (String ((Ascii (false, true, true, true, false, true, true, false)),
    (String ((Ascii (true, true, false, false, true, true, true, false)),
    EmptyString)))))))))))))))); u_calls = ((String ((Ascii (true, false,
    false, false, false, true, true, false)), (String ((Ascii (true, false,
    true, false, true, true, true, false)), (String ((Ascii (true, true,
    false, false, false, true, true, false)), (String ((Ascii (false, false,
    true, false, true, true, true, false)), (String ((Ascii (true, false,
    false, true, false, true, true, false)), (String ((Ascii (true, true,
    true, true, false, true, true, false)), (String ((Ascii (false, true,
    true, true, false, true, true, false)), (String ((Ascii (true, true,
    false, false, true, true, true, false)), (String ((Ascii (false, true,
    true, false, true, false, true, false)), (String ((Ascii (false, true,
    false, false, true, true, false, false)), (String ((Ascii (false, true,
    true, true, false, true, false, false)), (String ((Ascii (true, false,
    true, false, true, false, true, false)), (String ((Ascii (false, false,
    false, false, true, true, true, false)), (String ((Ascii (false, false,
    true, false, false, true, true, false)), (String ((Ascii (true, false,
    false, false, false, true, true, false)), (String ((Ascii (false, false,
    true, false, true, true, true, false)), (String ((Ascii (true, false,
    true, false, false, true, true, false)), (String ((Ascii (false, false,
    true, false, false, false, true, false)), (String ((Ascii (true, false,
    true, false, true, true, true, false)), (String ((Ascii (false, false,
    true, false, true, true, true, false)), (String ((Ascii (true, true,
    false, false, false, true, true, false)), (String ((Ascii (false, false,
    false, true, false, true, true, false)), (String ((Ascii (true, false,
    false, false, false, false, true, false)), (String ((Ascii (true, false,
    true, false, true, true, true, false)), (String ((Ascii (true, true,
    false, false, false, true, true, false)), (String ((Ascii (false, false,
    true, false, true, true, true, false)), (String ((Ascii (true, false,
    false, true, false, true, true, false)), (String ((Ascii (true, true,
    true, true, false, true, true, false)), (String ((Ascii (false, true,
    true, true, false, true, true, false)),
    EmptyString)))))))))))))))))))))))))))))))))))))))))))))))))))))))))) :: ((String
    ((Ascii (true, false, false, false, false, true, true, false)), (String
    ((Ascii (true, false, true, false, true, true, true, false)), (String
    ((Ascii (true, true, false, false, false, true, true, false)), (String
    ((Ascii (false, false, true, false, true, true, true, false)), (String
    ((Ascii (true, false, false, true, false, true, true, false)), (String
    ((Ascii (true, true, true, true, false, true, true, false)), (String
    ((Ascii (false, true, true, true, false, true, true, false)), (String
    ((Ascii (true, true, false, false, true, true, true, false)), (String
    ((Ascii (false, true, true, false, true, false, true, false)), (String
    ((Ascii (false, true, false, false, true, true, false, false)), (String
    ((Ascii (false, true, true, true, false, true, false, false)), (String
    ((Ascii (false, true, false, false, true, false, true, false)), (String
    ((Ascii (true, false, true, false, false, true, true, false)), (String
    ((Ascii (true, true, false, false, true, true, true, false)), (String
    ((Ascii (false, false, true, false, true, true, true, false)), (String
    ((Ascii (true, false, false, false, false, true, true, false)), (String
    ((Ascii (false, true, false, false, true, true, true, false)), (String
    ((Ascii (false, false, true, false, true, true, true, false)), (String
    ((Ascii (false, false, true, false, false, false, true, false)), (String
    ((Ascii (true, false, true, false, true, true, true, false)), (String
    ((Ascii (false, false, true, false, true, true, true, false)), (String
    ((Ascii (true, true, false, false, false, true, true, false)), (String
    ((Ascii (false, false, false, true, false, true, true, false)), (String
    ((Ascii (true, false, false, false, false, false, true, false)), (String
    ((Ascii (true, false, true, false, true, true, true, false)), (String
    ((Ascii (true, true, false, false, false, true, true, false)), (String
    ((Ascii (false, false, true, false, true, true, true, false)), (String
    ((Ascii (true, false, false, true, false, true, true, false)), (String
    ((Ascii (true, true, true, true, false, true, true, false)), (String
    ((Ascii (false, true, true, true, false, true, true, false)),
    EmptyString)))))))))))))))))))))))))))))))))))))))))))))))))))))))))))) :: ((String
    ((Ascii (true, false, false, false, false, true, true, false)), (String
    ((Ascii (true, false, true, false, true, true, true, false)), (String
    ((Ascii (true, true, false, false, false, true, true, false)), (String
    ((Ascii (false, false, true, false, true, true, true, false)), (String
    ((Ascii (true, false, false, true, false, true, true, false)), (String
    ((Ascii (true, true, true, true, false, true, true, false)), (String
    ((Ascii (false, true, true, true, false, true, true, false)), (String
    ((Ascii (true, true, false, false, true, true, true, false)), (String
    ((Ascii (false, true, true, false, true, false, true, false)), (String
    ((Ascii (false, true, false, false, true, true, false, false)), (String
    ((Ascii (false, true, true, true, false, true, false, false)), (String
    ((Ascii (false, false, true, false, true, false, true, false)), (String
    ((Ascii (false, true, false, false, true, true, true, false)), (String
    ((Ascii (true, false, false, true, false, true, true, false)), (String
    ((Ascii (true, true, true, false, false, true, true, false)), (String
    ((Ascii (true, true, true, false, false, true, true, false)), (String
    ((Ascii (true, false, true, false, false, true, true, false)), (String
    ((Ascii (false, true, false, false, true, true, true, false)), (String
    ((Ascii (true, false, true, false, false, false, true, false)), (String
    ((Ascii (true, true, false, false, true, true, true, false)), (String
    ((Ascii (true, false, true, true, false, true, true, false)),
    EmptyString)))))))))))))))))))))))))))))))))))))))))) :: ((String ((Ascii
    (true, false, false, false, false, true, true, false)), (String ((Ascii
    (true, false, true, false, true, true, true, false)), (String ((Ascii
    (true, true, false, false, false, true, true, false)), (String ((Ascii
    (false, false, true, false, true, true, true, false)), (String ((Ascii
    (true, false, false, true, false, true, true, false)), (String ((Ascii
    (true, true, true, true, false, true, true, false)), (String ((Ascii
    (false, true, true, true, false, true, true, false)), (String ((Ascii
    (true, true, false, false, true, true, true, false)), (String ((Ascii
    (false, true, true, false, true, false, true, false)), (String ((Ascii
    (false, true, false, false, true, true, false, false)), (String ((Ascii
    (false, true, true, true, false, true, false, false)), (String ((Ascii
    (true, true, false, false, false, false, true, false)), (String ((Ascii
    (false, false, true, true, false, true, true, false)), (String ((Ascii
    (true, true, true, true, false, true, true, false)), (String ((Ascii
    (true, true, false, false, true, true, true, false)), (String ((Ascii
    (true, false, true, false, false, true, true, false)), (String ((Ascii
    (true, false, true, false, false, false, true, false)), (String ((Ascii
    (false, true, true, true, false, true, true, false)), (String ((Ascii
    (true, true, true, false, false, true, true, false)), (String ((Ascii
    (false, false, true, true, false, true, true, false)), (String ((Ascii
    (true, false, false, true, false, true, true, false)), (String ((Ascii
    (true, true, false, false, true, true, true, false)), (String ((Ascii
    (false, false, false, true, false, true, true, false)), (String ((Ascii
    (true, false, false, false, false, false, true, false)), (String ((Ascii
    (true, false, true, false, true, true, true, false)), (String ((Ascii
    (true, true, false, false, false, true, true, false)), (String ((Ascii
    (false, false, true, false, true, true, true, false)), (String ((Ascii
    (true, false, false, true, false, true, true, false)), (String ((Ascii
    (true, true, true, true, false, true, true, false)), (String ((Ascii
    (false, true, true, true, false, true, true, false)),
    EmptyString)))))))))))))))))))))))))))))))))))))))))))))))))))))))))))) :: ((String
    ((Ascii (true, false, false, false, false, true, true, false)), (String
    ((Ascii (true, false, true, false, true, true, true, false)), (String
    ((Ascii (true, true, false, false, false, true, true, false)), (String
    ((Ascii (false, false, true, false, true, true, true, false)), (String
    ((Ascii (true, false, false, true, false, true, true, false)), (String
    ((Ascii (true, true, true, true, false, true, true, false)), (String
    ((Ascii (false, true, true, true, false, true, true, false)), (String
    ((Ascii (true, true, false, false, true, true, true, false)), (String
    ((Ascii (false, true, true, false, true, false, true, false)), (String
    ((Ascii (false, true, false, false, true, true, false, false)), (String
    ((Ascii (false, true, true, true, false, true, false, false)), (String
    ((Ascii (false, true, false, false, true, false, true, false)), (String
    ((Ascii (true, false, true, false, false, true, true, false)), (String
    ((Ascii (true, true, false, false, true, true, true, false)), (String
    ((Ascii (false, false, true, false, true, true, true, false)), (String
    ((Ascii (true, false, false, false, false, true, true, false)), (String
    ((Ascii (false, true, false, false, true, true, true, false)), (String
    ((Ascii (false, false, true, false, true, true, true, false)), (String
    ((Ascii (true, false, true, false, false, false, true, false)), (String
    ((Ascii (false, true, true, true, false, true, true, false)), (String
    ((Ascii (true, true, true, false, false, true, true, false)), (String
    ((Ascii (false, false, true, true, false, true, true, false)), (String
    ((Ascii (true, false, false, true, false, true, true, false)), (String
    ((Ascii (true, true, false, false, true, true, true, false)), (String
    ((Ascii (false, false, false, true, false, true, true, false)), (String
    ((Ascii (true, false, false, false, false, false, true, false)), (String
    ((Ascii (true, false, true, false, true, true, true, false)), (String
    ((Ascii (true, true, false, false, false, true, true, false)), (String
    ((Ascii (false, false, true, false, true, true, true, false)), (String
    ((Ascii (true, false, false, true, false, true, true, false)), (String
    ((Ascii (true, true, true, true, false, true, true, false)), (String
    ((Ascii (false, true, true, true, false, true, true, false)),
    EmptyString)))))))))))))))))))))))))))))))))))))))))))))))))))))))))))))))) :: []))))) } :: ({ u_id =
    (String ((Ascii (false, true, true, false, true, true, true, false)),
    (String ((Ascii (false, true, false, false, true, true, false, false)),
    (String ((Ascii (false, true, true, true, false, true, false, false)),
    (String ((Ascii (false, false, true, true, false, true, true, false)),
    (String ((Ascii (true, false, false, true, false, true, true, false)),
    (String ((Ascii (true, false, true, true, false, true, true, false)),
    (String ((Ascii (true, false, false, true, false, true, true, false)),
    (String ((Ascii (false, false, true, false, true, true, true, false)),
    (String ((Ascii (false, true, false, false, false, true, true, false)),
    (String ((Ascii (true, false, false, true, false, true, true, false)),
    (String ((Ascii (false, false, true, false, false, true, true, false)),
    EmptyString)))))))))))))))))))))); u_root = (String ((Ascii (true, false,
    false, false, false, true, true, false)), (String ((Ascii (true, false,
    true, false, true, true, true, false)), (String ((Ascii (true, true,
    false, false, false, true, true, false)), (String ((Ascii (false, false,
    true, false, true, true, true, false)), (String ((Ascii (true, false,
    false, true, false, true, true, false)), (String ((Ascii (true, true,
    true, true, false, true, true, false)), (String ((Ascii (false, true,
    true, true, false, true, true, false)), (String ((Ascii (true, true,
    false, false, true, true, true, false)), (String ((Ascii (false, true,
    true, false, true, false, true, false)), (String ((Ascii (false, true,
    false, false, true, true, false, false)), (String ((Ascii (false, true,
    true, true, false, true, false, false)), (String ((Ascii (false, true,
    false, false, false, false, true, false)), (String ((Ascii (true, false,
    true, false, false, true, true, false)), (String ((Ascii (true, true,
    true, false, false, true, true, false)), (String ((Ascii (true, false,
    false, true, false, true, true, false)), (String ((Ascii (false, true,
    true, true, false, true, true, false)), (String ((Ascii (false, true,
    false, false, false, false, true, false)), (String ((Ascii (false, false,
    true, true, false, true, true, false)), (String ((Ascii (true, true,
    true, true, false, true, true, false)), (String ((Ascii (true, true,
    false, false, false, true, true, false)), (String ((Ascii (true, true,
    false, true, false, true, true, false)), (String ((Ascii (true, false,
    true, false, false, true, true, false)), (String ((Ascii (false, true,
    false, false, true, true, true, false)),
    EmptyString)))))))))))))))))))))))))))))))))))))))))))))); u_loop =
    (String ((Ascii (true, false, false, false, false, true, true, false)),
    (String ((Ascii (true, false, true, false, true, true, true, false)),
    (String ((Ascii (true, true, false, false, false, true, true, false)),
    (String ((Ascii (false, false, true, false, true, true, true, false)),
    (String ((Ascii (true, false, false, true, false, true, true, false)),
    (String ((Ascii (true, true, true, true, false, true, true, false)),
    (String ((Ascii (false, true, true, true, false, true, true, false)),
    (String ((Ascii (true, true, false, false, true, true, true, false)),
    EmptyString)))))))))))))))); u_calls = ((String ((Ascii (true, false,
    false, false, false, true, true, false)), (String ((Ascii (true, false,
    true, false, true, true, true, false)), (String ((Ascii (true, true,
    false, false, false, true, true, false)), (String ((Ascii (false, false,
    true, false, true, true, true, false)), (String ((Ascii (true, false,
    false, true, false, true, true, false)), (String ((Ascii (true, true,
    true, true, false, true, true, false)), (String ((Ascii (false, true,
    true, true, false, true, true, false)), (String ((Ascii (true, true,
    false, false, true, true, true, false)), (String ((Ascii (false, true,
    true, false, true, false, true, false)), (String ((Ascii (false, true,
    false, false, true, true, false, false)), (String ((Ascii (false, true,
    true, true, false, true, false, false)), (String ((Ascii (false, false,
    false, false, true, false, true, false)), (String ((Ascii (false, false,
    true, true, false, true, true, false)), (String ((Ascii (true, false,
    false, false, false, true, true, false)), (String ((Ascii (true, true,
    false, false, false, true, true, false)), (String ((Ascii (true, false,
    true, false, false, true, true, false)), (String ((Ascii (false, false,
    true, false, false, false, true, false)), (String ((Ascii (true, false,
    true, false, true, true, true, false)), (String ((Ascii (false, false,
    true, false, true, true, true, false)), (String ((Ascii (true, true,
    false, false, false, true, true, false)), (String ((Ascii (false, false,
    false, true, false, true, true, false)), (String ((Ascii (true, false,
    false, false, false, false, true, false)), (String ((Ascii (true, false,
    true, false, true, true, true, false)), (String ((Ascii (true, true,
    false, false, false, true, true, false)), (String ((Ascii (false, false,
    true, false, true, true, true, false)), (String ((Ascii (true, false,
    false, true, false, true, true, false)), (String ((Ascii (true, true,
    true, true, false, true, true, false)), (String ((Ascii (false, true,
    true, true, false, true, true, false)), (String ((Ascii (false, true,
    false, false, false, false, true, false)), (String ((Ascii (true, false,
    false, true, false, true, true, false)), (String ((Ascii (false, false,
    true, false, false, true, true, false)),
    EmptyString)))))))))))))))))))))))))))))))))))))))))))))))))))))))))))))) :: ((String
    ((Ascii (true, false, false, false, false, true, true, false)), (String
    ((Ascii (true, false, true, false, true, true, true, false)), (String
    ((Ascii (true, true, false, false, false, true, true, false)), (String
    ((Ascii (false, false, true, false, true, true, true, false)), (String
    ((Ascii (true, false, false, true, false, true, true, false)), (String
    ((Ascii (true, true, true, true, false, true, true, false)), (String
    ((Ascii (false, true, true, true, false, true, true, false)), (String
    ((Ascii (true, true, false, false, true, true, true, false)), (String
    ((Ascii (false, true, true, false, true, false, true, false)), (String
    ((Ascii (false, true, false, false, true, true, false, false)), (String
    ((Ascii (false, true, true, true, false, true, false, false)), (String
    ((Ascii (true, true, false, false, true, false, true, false)), (String
    ((Ascii (true, false, true, false, false, true, true, false)), (String
    ((Ascii (false, false, true, false, true, true, true, false)), (String
    ((Ascii (true, false, true, false, true, false, true, false)), (String
    ((Ascii (true, true, false, false, true, true, true, false)), (String
    ((Ascii (true, false, true, false, false, true, true, false)), (String
    ((Ascii (false, true, false, false, true, true, true, false)), (String
    ((Ascii (false, false, true, true, false, false, true, false)), (String
    ((Ascii (true, false, false, true, false, true, true, false)), (String
    ((Ascii (true, false, true, true, false, true, true, false)), (String
    ((Ascii (true, false, false, true, false, true, true, false)), (String
    ((Ascii (false, false, true, false, true, true, true, false)), (String
    ((Ascii (false, true, false, false, false, false, true, false)), (String
    ((Ascii (true, false, false, true, false, true, true, false)), (String
    ((Ascii (false, false, true, false, false, true, true, false)), (String
    ((Ascii (false, false, true, false, false, false, true, false)), (String
    ((Ascii (true, false, false, false, false, true, true, false)), (String
    ((Ascii (false, false, true, false, true, true, true, false)), (String
    ((Ascii (true, false, false, false, false, true, true, false)),
    EmptyString)))))))))))))))))))))))))))))))))))))))))))))))))))))))))))) :: ((String
    ((Ascii (true, false, false, false, false, true, true, false)), (String
    ((Ascii (true, false, true, false, true, true, true, false)), (String
    ((Ascii (true, true, false, false, false, true, true, false)), (String
    ((Ascii (false, false, true, false, true, true, true, false)), (String
    ((Ascii (true, false, false, true, false, true, true, false)), (String
    ((Ascii (true, true, true, true, false, true, true, false)), (String
    ((Ascii (false, true, true, true, false, true, true, false)), (String
    ((Ascii (true, true, false, false, true, true, true, false)), (String
    ((Ascii (false, true, true, false, true, false, true, false)), (String
    ((Ascii (false, true, false, false, true, true, false, false)), (String
    ((Ascii (false, true, true, true, false, true, false, false)), (String
    ((Ascii (true, true, false, false, true, false, true, false)), (String
    ((Ascii (true, false, true, false, false, true, true, false)), (String
    ((Ascii (false, false, true, false, true, true, true, false)), (String
    ((Ascii (false, false, true, true, false, false, true, false)), (String
    ((Ascii (true, false, false, true, false, true, true, false)), (String
    ((Ascii (true, false, true, true, false, true, true, false)), (String
    ((Ascii (true, false, false, true, false, true, true, false)), (String
    ((Ascii (false, false, true, false, true, true, true, false)), (String
    ((Ascii (false, true, false, false, false, false, true, false)), (String
    ((Ascii (true, false, false, true, false, true, true, false)), (String
    ((Ascii (false, false, true, false, false, true, true, false)), (String
    ((Ascii (false, false, false, false, true, false, true, false)), (String
    ((Ascii (false, true, false, false, true, true, true, false)), (String
    ((Ascii (true, true, true, true, false, true, true, false)), (String
    ((Ascii (false, false, true, false, true, true, true, false)), (String
    ((Ascii (true, true, true, true, false, true, true, false)), (String
    ((Ascii (true, true, false, false, false, true, true, false)), (String
    ((Ascii (true, true, true, true, false, true, true, false)), (String
    ((Ascii (false, false, true, true, false, true, true, false)), (String
    ((Ascii (false, false, true, false, false, false, true, false)), (String
    ((Ascii (true, false, false, false, false, true, true, false)), (String
    ((Ascii (false, false, true, false, true, true, true, false)), (String
    ((Ascii (true, false, false, false, false, true, true, false)),
    EmptyString)))))))))))))))))))))))))))))))))))))))))))))))))))))))))))))))))))) :: []))) } :: ({ u_id =
    (String ((Ascii (false, true, true, false, true, true, true, false)),
    (String ((Ascii (false, true, false, false, true, true, false, false)),
    (String ((Ascii (false, true, true, true, false, true, false, false)),
    (String ((Ascii (true, true, false, false, true, true, true, false)),
    (String ((Ascii (true, false, true, false, true, true, true, false)),
    (String ((Ascii (false, true, false, false, true, true, true, false)),
    (String ((Ascii (false, false, false, false, true, true, true, false)),
    (String ((Ascii (false, false, true, true, false, true, true, false)),
    (String ((Ascii (true, false, true, false, true, true, true, false)),
    (String ((Ascii (true, true, false, false, true, true, true, false)),
    (String ((Ascii (false, false, true, false, false, true, true, false)),
    (String ((Ascii (true, false, true, false, false, true, true, false)),
    (String ((Ascii (false, true, false, false, false, true, true, false)),
    (String ((Ascii (false, false, true, false, true, true, true, false)),
    EmptyString)))))))))))))))))))))))))))); u_root = (String ((Ascii (false,
    false, true, true, false, true, true, false)), (String ((Ascii (true,
    false, false, true, false, true, true, false)), (String ((Ascii (true,
    false, false, false, true, true, true, false)), (String ((Ascii (true,
    false, true, false, true, true, true, false)), (String ((Ascii (true,
    false, false, true, false, true, true, false)), (String ((Ascii (false,
    false, true, false, false, true, true, false)), (String ((Ascii (true,
    false, false, false, false, true, true, false)), (String ((Ascii (false,
    false, true, false, true, true, true, false)), (String ((Ascii (true,
    false, false, true, false, true, true, false)), (String ((Ascii (true,
    true, true, true, false, true, true, false)), (String ((Ascii (false,
    true, true, true, false, true, true, false)), (String ((Ascii (true,
    true, false, false, true, true, true, false)), (String ((Ascii (false,
    true, true, false, true, false, true, false)), (String ((Ascii (false,
    true, false, false, true, true, false, false)), (String ((Ascii (false,
    true, true, true, false, true, false, false)), (String ((Ascii (false,
    true, false, false, false, false, true, false)), (String ((Ascii (true,
    false, true, false, false, true, true, false)), (String ((Ascii (true,
    true, true, false, false, true, true, false)), (String ((Ascii (true,
    false, false, true, false, true, true, false)), (String ((Ascii (false,
    true, true, true, false, true, true, false)), (String ((Ascii (false,
    true, false, false, false, false, true, false)), (String ((Ascii (false,
    false, true, true, false, true, true, false)), (String ((Ascii (true,
    true, true, true, false, true, true, false)), (String ((Ascii (true,
    true, false, false, false, true, true, false)), (String ((Ascii (true,
    true, false, true, false, true, true, false)), (String ((Ascii (true,
    false, true, false, false, true, true, false)), (String ((Ascii (false,
    true, false, false, true, true, true, false)),
    EmptyString))))))))))))))))))))))))))))))))))))))))))))))))))))));
    u_loop = (String ((Ascii (true, false, false, false, false, true, true,
    false)), (String ((Ascii (true, false, true, false, true, true, true,
    false)), (String ((Ascii (true, true, false, false, false, true, true,
    false)), (String ((Ascii (false, false, true, false, true, true, true,
    false)), (String ((Ascii (true, false, false, true, false, true, true,
    false)), (String ((Ascii (true, true, true, true, false, true, true,
    false)), (String ((Ascii (false, true, true, true, false, true, true,
    false)), (String ((Ascii (true, false, true, true, false, false, true,
    false)), (String ((Ascii (true, false, false, false, false, true, true,
    false)), (String ((Ascii (false, false, false, false, true, true, true,
    false)), (String ((Ascii (false, false, true, false, false, false, true,
    false)), (String ((Ascii (true, false, false, false, false, true, true,
    false)), (String ((Ascii (false, false, true, false, true, true, true,
    false)), (String ((Ascii (true, false, false, false, false, true, true,
    false)), EmptyString)))))))))))))))))))))))))))); u_calls = ((String
    ((Ascii (false, false, true, true, false, true, true, false)), (String
    ((Ascii (true, false, false, true, false, true, true, false)), (String
    ((Ascii (true, false, false, false, true, true, true, false)), (String
    ((Ascii (true, false, true, false, true, true, true, false)), (String
    ((Ascii (true, false, false, true, false, true, true, false)), (String
    ((Ascii (false, false, true, false, false, true, true, false)), (String
    ((Ascii (true, false, false, false, false, true, true, false)), (String
    ((Ascii (false, false, true, false, true, true, true, false)), (String
    ((Ascii (true, false, false, true, false, true, true, false)), (String
    ((Ascii (true, true, true, true, false, true, true, false)), (String
    ((Ascii (false, true, true, true, false, true, true, false)), (String
    ((Ascii (true, true, false, false, true, true, true, false)), (String
    ((Ascii (false, true, true, false, true, false, true, false)), (String
    ((Ascii (false, true, false, false, true, true, false, false)), (String
    ((Ascii (false, true, true, true, false, true, false, false)), (String
    ((Ascii (true, true, false, false, false, false, true, false)), (String
    ((Ascii (false, false, false, true, false, true, true, false)), (String
    ((Ascii (true, false, true, false, false, true, true, false)), (String
    ((Ascii (true, true, false, false, false, true, true, false)), (String
    ((Ascii (true, true, false, true, false, true, true, false)), (String
    ((Ascii (true, true, false, false, true, false, true, false)), (String
    ((Ascii (false, false, true, false, true, true, true, false)), (String
    ((Ascii (true, false, false, false, false, true, true, false)), (String
    ((Ascii (false, false, true, false, true, true, true, false)), (String
    ((Ascii (true, true, false, false, true, true, true, false)), (String
    ((Ascii (false, true, true, false, false, false, true, false)), (String
    ((Ascii (true, true, true, true, false, true, true, false)), (String
    ((Ascii (false, true, false, false, true, true, true, false)), (String
    ((Ascii (true, true, false, false, true, false, true, false)), (String
    ((Ascii (true, false, true, false, true, true, true, false)), (String
    ((Ascii (false, true, false, false, true, true, true, false)), (String
    ((Ascii (false, false, false, false, true, true, true, false)), (String
    ((Ascii (false, false, true, true, false, true, true, false)), (String
    ((Ascii (true, false, true, false, true, true, true, false)), (String
    ((Ascii (true, true, false, false, true, true, true, false)), (String
    ((Ascii (true, false, false, false, false, false, true, false)), (String
    ((Ascii (false, true, true, true, false, true, true, false)), (String
    ((Ascii (false, false, true, false, false, true, true, false)), (String
    ((Ascii (false, false, true, false, false, false, true, false)), (String
    ((Ascii (true, false, true, false, false, true, true, false)), (String
    ((Ascii (false, true, false, false, false, true, true, false)), (String
    ((Ascii (false, false, true, false, true, true, true, false)),
    EmptyString)))))))))))))))))))))))))))))))))))))))))))))))))))))))))))))))))))))))))))))))))))) :: []) } :: ({ u_id =
    (String ((Ascii (false, false, true, true, false, true, true, false)),
    (String ((Ascii (true, false, false, true, false, true, true, false)),
    (String ((Ascii (true, false, false, false, true, true, true, false)),
    (String ((Ascii (true, false, true, false, true, true, true, false)),
    (String ((Ascii (true, false, false, true, false, true, true, false)),
    (String ((Ascii (false, false, true, false, false, true, true, false)),
    (String ((Ascii (true, false, false, true, false, true, true, false)),
    (String ((Ascii (false, false, true, false, true, true, true, false)),
    (String ((Ascii (true, false, false, true, true, true, true, false)),
    (String ((Ascii (false, true, true, true, false, true, false, false)),
    (String ((Ascii (false, true, false, false, false, true, true, false)),
    (String ((Ascii (true, false, false, false, false, true, true, false)),
    (String ((Ascii (false, false, true, false, true, true, true, false)),
    (String ((Ascii (true, true, false, false, false, true, true, false)),
    (String ((Ascii (false, false, false, true, false, true, true, false)),
    EmptyString)))))))))))))))))))))))))))))); u_root = (String ((Ascii
    (false, false, true, true, false, true, true, false)), (String ((Ascii
    (true, false, false, true, false, true, true, false)), (String ((Ascii
    (true, false, false, false, true, true, true, false)), (String ((Ascii
    (true, false, true, false, true, true, true, false)), (String ((Ascii
    (true, false, false, true, false, true, true, false)), (String ((Ascii
    (false, false, true, false, false, true, true, false)), (String ((Ascii
    (true, false, false, true, false, true, true, false)), (String ((Ascii
    (false, false, true, false, true, true, true, false)), (String ((Ascii
    (true, false, false, true, true, true, true, false)), (String ((Ascii
    (false, true, true, true, false, true, false, false)), (String ((Ascii
    (true, false, true, false, false, false, true, false)), (String ((Ascii
    (false, true, true, true, false, true, true, false)), (String ((Ascii
    (false, false, true, false, false, true, true, false)), (String ((Ascii
    (false, true, false, false, false, false, true, false)), (String ((Ascii
    (false, false, true, true, false, true, true, false)), (String ((Ascii
    (true, true, true, true, false, true, true, false)), (String ((Ascii
    (true, true, false, false, false, true, true, false)), (String ((Ascii
    (true, true, false, true, false, true, true, false)), (String ((Ascii
    (true, false, true, false, false, true, true, false)), (String ((Ascii
    (false, true, false, false, true, true, true, false)),
    EmptyString)))))))))))))))))))))))))))))))))))))))); u_loop = (String
    ((Ascii (true, false, false, false, false, true, true, false)), (String
    ((Ascii (false, false, true, true, false, true, true, false)), (String
    ((Ascii (false, false, true, true, false, true, true, false)), (String
    ((Ascii (true, false, false, false, false, false, true, false)), (String
    ((Ascii (false, false, false, false, true, true, true, false)), (String
    ((Ascii (false, false, false, false, true, true, true, false)), (String
    ((Ascii (true, true, false, false, true, true, true, false)),
    EmptyString)))))))))))))); u_calls = ((String ((Ascii (false, false,
    true, true, false, true, true, false)), (String ((Ascii (true, false,
    false, true, false, true, true, false)), (String ((Ascii (true, false,
    false, false, true, true, true, false)), (String ((Ascii (true, false,
    true, false, true, true, true, false)), (String ((Ascii (true, false,
    false, true, false, true, true, false)), (String ((Ascii (false, false,
    true, false, false, true, true, false)), (String ((Ascii (true, false,
    false, true, false, true, true, false)), (String ((Ascii (false, false,
    true, false, true, true, true, false)), (String ((Ascii (true, false,
    false, true, true, true, true, false)), (String ((Ascii (false, true,
    true, true, false, true, false, false)), (String ((Ascii (true, false,
    true, false, false, false, true, false)), (String ((Ascii (false, false,
    false, true, true, true, true, false)), (String ((Ascii (true, false,
    true, false, false, true, true, false)), (String ((Ascii (true, true,
    false, false, false, true, true, false)), (String ((Ascii (true, false,
    true, false, true, true, true, false)), (String ((Ascii (false, false,
    true, false, true, true, true, false)), (String ((Ascii (true, false,
    true, false, false, true, true, false)), (String ((Ascii (false, true,
    false, false, true, false, true, false)), (String ((Ascii (true, false,
    true, false, false, true, true, false)), (String ((Ascii (true, false,
    false, false, true, true, true, false)), (String ((Ascii (true, false,
    true, false, true, true, true, false)), (String ((Ascii (true, false,
    true, false, false, true, true, false)), (String ((Ascii (true, true,
    false, false, true, true, true, false)), (String ((Ascii (false, false,
    true, false, true, true, true, false)), (String ((Ascii (true, true,
    false, false, true, true, true, false)),
    EmptyString)))))))))))))))))))))))))))))))))))))))))))))))))) :: ((String
    ((Ascii (false, false, true, true, false, true, true, false)), (String
    ((Ascii (true, false, false, true, false, true, true, false)), (String
    ((Ascii (true, false, false, false, true, true, true, false)), (String
    ((Ascii (true, false, true, false, true, true, true, false)), (String
    ((Ascii (true, false, false, true, false, true, true, false)), (String
    ((Ascii (false, false, true, false, false, true, true, false)), (String
    ((Ascii (true, false, false, true, false, true, true, false)), (String
    ((Ascii (false, false, true, false, true, true, true, false)), (String
    ((Ascii (true, false, false, true, true, true, true, false)), (String
    ((Ascii (false, true, true, true, false, true, false, false)), (String
    ((Ascii (false, false, false, false, true, false, true, false)), (String
    ((Ascii (false, true, false, false, true, true, true, false)), (String
    ((Ascii (true, true, true, true, false, true, true, false)), (String
    ((Ascii (true, true, false, false, false, true, true, false)), (String
    ((Ascii (true, false, true, false, false, true, true, false)), (String
    ((Ascii (true, true, false, false, true, true, true, false)), (String
    ((Ascii (true, true, false, false, true, true, true, false)), (String
    ((Ascii (true, false, false, false, true, false, true, false)), (String
    ((Ascii (true, false, true, false, true, true, true, false)), (String
    ((Ascii (true, false, true, false, false, true, true, false)), (String
    ((Ascii (true, false, true, false, true, true, true, false)), (String
    ((Ascii (true, false, true, false, false, true, true, false)), (String
    ((Ascii (false, false, true, false, false, true, true, false)), (String
    ((Ascii (false, true, true, false, false, false, true, false)), (String
    ((Ascii (true, false, false, false, false, true, true, false)), (String
    ((Ascii (false, true, false, false, true, true, true, false)), (String
    ((Ascii (true, false, true, true, false, true, true, false)), (String
    ((Ascii (true, false, true, false, false, true, true, false)), (String
    ((Ascii (false, true, false, false, true, true, true, false)), (String
    ((Ascii (true, true, false, false, true, true, true, false)),
    EmptyString)))))))))))))))))))))))))))))))))))))))))))))))))))))))))))) :: [])) } :: ({ u_id =
    (String ((Ascii (false, false, true, true, false, true, true, false)),
    (String ((Ascii (true, false, false, true, false, true, true, false)),
    (String ((Ascii (true, false, false, false, true, true, true, false)),
    (String ((Ascii (true, false, true, false, true, true, true, false)),
    (String ((Ascii (true, false, false, true, false, true, true, false)),
    (String ((Ascii (false, false, true, false, false, true, true, false)),
    (String ((Ascii (true, false, false, true, false, true, true, false)),
    (String ((Ascii (false, false, true, false, true, true, true, false)),
    (String ((Ascii (true, false, false, true, true, true, true, false)),
    (String ((Ascii (false, true, true, true, false, true, false, false)),
    (String ((Ascii (true, true, false, false, false, true, true, false)),
    (String ((Ascii (false, false, true, true, false, true, true, false)),
    (String ((Ascii (true, false, true, false, false, true, true, false)),
    (String ((Ascii (true, false, false, false, false, true, true, false)),
    (String ((Ascii (false, true, true, true, false, true, true, false)),
    (String ((Ascii (true, false, true, false, true, true, true, false)),
    (String ((Ascii (false, false, false, false, true, true, true, false)),
    EmptyString)))))))))))))))))))))))))))))))))); u_root = (String ((Ascii
    (false, false, true, true, false, true, true, false)), (String ((Ascii
    (true, false, false, true, false, true, true, false)), (String ((Ascii
    (true, false, false, false, true, true, true, false)), (String ((Ascii
    (true, false, true, false, true, true, true, false)), (String ((Ascii
    (true, false, false, true, false, true, true, false)), (String ((Ascii
    (false, false, true, false, false, true, true, false)), (String ((Ascii
    (true, false, false, true, false, true, true, false)), (String ((Ascii
    (false, false, true, false, true, true, true, false)), (String ((Ascii
    (true, false, false, true, true, true, true, false)), (String ((Ascii
    (false, true, true, true, false, true, false, false)), (String ((Ascii
    (false, true, false, false, false, false, true, false)), (String ((Ascii
    (true, false, true, false, false, true, true, false)), (String ((Ascii
    (true, true, true, false, false, true, true, false)), (String ((Ascii
    (true, false, false, true, false, true, true, false)), (String ((Ascii
    (false, true, true, true, false, true, true, false)), (String ((Ascii
    (false, true, false, false, false, false, true, false)), (String ((Ascii
    (false, false, true, true, false, true, true, false)), (String ((Ascii
    (true, true, true, true, false, true, true, false)), (String ((Ascii
    (true, true, false, false, false, true, true, false)), (String ((Ascii
    (true, true, false, true, false, true, true, false)), (String ((Ascii
    (true, false, true, false, false, true, true, false)), (String ((Ascii
    (false, true, false, false, true, true, true, false)),
    EmptyString)))))))))))))))))))))))))))))))))))))))))))); u_loop = (String
    ((Ascii (true, false, false, false, false, true, true, false)), (String
    ((Ascii (false, false, true, true, false, true, true, false)), (String
    ((Ascii (false, false, true, true, false, true, true, false)), (String
    ((Ascii (true, false, false, false, false, false, true, false)), (String
    ((Ascii (false, false, false, false, true, true, true, false)), (String
    ((Ascii (false, false, false, false, true, true, true, false)), (String
    ((Ascii (true, true, false, false, true, true, true, false)),
    EmptyString)))))))))))))); u_calls = ((String ((Ascii (false, false,
    true, true, false, true, true, false)), (String ((Ascii (true, false,
    false, true, false, true, true, false)), (String ((Ascii (true, false,
    false, false, true, true, true, false)), (String ((Ascii (true, false,
    true, false, true, true, true, false)), (String ((Ascii (true, false,
    false, true, false, true, true, false)), (String ((Ascii (false, false,
    true, false, false, true, true, false)), (String ((Ascii (true, false,
    false, true, false, true, true, false)), (String ((Ascii (false, false,
    true, false, true, true, true, false)), (String ((Ascii (true, false,
    false, true, true, true, true, false)), (String ((Ascii (false, true,
    true, true, false, true, false, false)), (String ((Ascii (false, false,
    true, false, false, false, true, false)), (String ((Ascii (true, false,
    true, false, false, true, true, false)), (String ((Ascii (false, false,
    true, true, false, true, true, false)), (String ((Ascii (true, false,
    true, false, false, true, true, false)), (String ((Ascii (false, false,
    true, false, true, true, true, false)), (String ((Ascii (true, false,
    true, false, false, true, true, false)), (String ((Ascii (true, true,
    true, true, false, false, true, false)), (String ((Ascii (true, false,
    true, false, true, true, true, false)), (String ((Ascii (false, false,
    true, false, true, true, true, false)), (String ((Ascii (false, false,
    true, false, false, true, true, false)), (String ((Ascii (true, false,
    false, false, false, true, true, false)), (String ((Ascii (false, false,
    true, false, true, true, true, false)), (String ((Ascii (true, false,
    true, false, false, true, true, false)), (String ((Ascii (false, false,
    true, false, false, true, true, false)), (String ((Ascii (false, true,
    false, false, true, false, true, false)), (String ((Ascii (true, false,
    true, false, false, true, true, false)), (String ((Ascii (true, false,
    false, false, true, true, true, false)), (String ((Ascii (true, false,
    true, false, true, true, true, false)), (String ((Ascii (true, false,
    true, false, false, true, true, false)), (String ((Ascii (true, true,
    false, false, true, true, true, false)), (String ((Ascii (false, false,
    true, false, true, true, true, false)), (String ((Ascii (true, true,
    false, false, true, true, true, false)),
    EmptyString)))))))))))))))))))))))))))))))))))))))))))))))))))))))))))))))) :: ((String
    ((Ascii (false, false, true, true, false, true, true, false)), (String
    ((Ascii (true, false, false, true, false, true, true, false)), (String
    ((Ascii (true, false, false, false, true, true, true, false)), (String
    ((Ascii (true, false, true, false, true, true, true, false)), (String
    ((Ascii (true, false, false, true, false, true, true, false)), (String
    ((Ascii (false, false, true, false, false, true, true, false)), (String
    ((Ascii (true, false, false, true, false, true, true, false)), (String
    ((Ascii (false, false, true, false, true, true, true, false)), (String
    ((Ascii (true, false, false, true, true, true, true, false)), (String
    ((Ascii (false, true, true, true, false, true, false, false)), (String
    ((Ascii (true, true, false, false, false, false, true, false)), (String
    ((Ascii (true, true, true, true, false, true, true, false)), (String
    ((Ascii (false, true, true, true, false, true, true, false)), (String
    ((Ascii (false, true, true, false, true, true, true, false)), (String
    ((Ascii (true, false, true, false, false, true, true, false)), (String
    ((Ascii (false, true, false, false, true, true, true, false)), (String
    ((Ascii (false, false, true, false, true, true, true, false)), (String
    ((Ascii (true, false, false, false, false, false, true, false)), (String
    ((Ascii (true, true, false, false, false, true, true, false)), (String
    ((Ascii (true, true, false, false, false, true, true, false)), (String
    ((Ascii (true, false, true, false, true, true, true, false)), (String
    ((Ascii (true, false, true, true, false, true, true, false)), (String
    ((Ascii (true, false, true, false, true, true, true, false)), (String
    ((Ascii (false, false, true, true, false, true, true, false)), (String
    ((Ascii (true, false, false, false, false, true, true, false)), (String
    ((Ascii (false, false, true, false, true, true, true, false)), (String
    ((Ascii (true, false, true, false, false, true, true, false)), (String
    ((Ascii (false, false, true, false, false, true, true, false)), (String
    ((Ascii (true, true, false, false, true, false, true, false)), (String
    ((Ascii (true, true, true, false, true, true, true, false)), (String
    ((Ascii (true, false, false, false, false, true, true, false)), (String
    ((Ascii (false, false, false, false, true, true, true, false)), (String
    ((Ascii (false, true, true, false, false, false, true, false)), (String
    ((Ascii (true, false, true, false, false, true, true, false)), (String
    ((Ascii (true, false, true, false, false, true, true, false)), (String
    ((Ascii (true, true, false, false, true, true, true, false)), (String
    ((Ascii (true, true, true, false, true, false, true, false)), (String
    ((Ascii (true, false, false, true, false, true, true, false)), (String
    ((Ascii (false, false, true, false, true, true, true, false)), (String
    ((Ascii (false, false, false, true, false, true, true, false)), (String
    ((Ascii (true, true, false, false, true, false, true, false)), (String
    ((Ascii (true, true, true, false, true, true, true, false)), (String
    ((Ascii (true, false, false, false, false, true, true, false)), (String
    ((Ascii (false, false, false, false, true, true, true, false)), (String
    ((Ascii (false, false, true, false, false, false, true, false)), (String
    ((Ascii (true, false, false, true, false, true, true, false)), (String
    ((Ascii (true, true, false, false, true, true, true, false)), (String
    ((Ascii (false, false, true, false, true, true, true, false)), (String
    ((Ascii (false, true, false, false, true, true, true, false)), (String
    ((Ascii (false, false, true, false, true, false, true, false)), (String
    ((Ascii (true, true, true, true, false, true, true, false)), (String
    ((Ascii (true, true, false, true, false, true, true, false)), (String
    ((Ascii (true, false, true, false, false, true, true, false)), (String
    ((Ascii (false, true, true, true, false, true, true, false)),
    EmptyString)))))))))))))))))))))))))))))))))))))))))))))))))))))))))))))))))))))))))))))))))))))))))))))))))))))))))))) :: [])) } :: ({ u_id =
    (String ((Ascii (false, true, false, false, true, true, true, false)),
    (String ((Ascii (true, false, true, false, false, true, true, false)),
    (String ((Ascii (true, true, true, false, true, true, true, false)),
    (String ((Ascii (true, false, false, false, false, true, true, false)),
    (String ((Ascii (false, true, false, false, true, true, true, false)),
    (String ((Ascii (false, false, true, false, false, true, true, false)),
    (String ((Ascii (true, true, false, false, true, true, true, false)),
    (String ((Ascii (false, true, true, true, false, true, false, false)),
    (String ((Ascii (false, false, false, true, false, true, true, false)),
    (String ((Ascii (true, true, true, true, false, true, true, false)),
    (String ((Ascii (true, true, true, true, false, true, true, false)),
    (String ((Ascii (true, true, false, true, false, true, true, false)),
    EmptyString)))))))))))))))))))))))); u_root = (String ((Ascii (false,
    true, false, false, true, true, true, false)), (String ((Ascii (true,
    false, true, false, false, true, true, false)), (String ((Ascii (true,
    true, true, false, true, true, true, false)), (String ((Ascii (true,
    false, false, false, false, true, true, false)), (String ((Ascii (false,
    true, false, false, true, true, true, false)), (String ((Ascii (false,
    false, true, false, false, true, true, false)), (String ((Ascii (true,
    true, false, false, true, true, true, false)), (String ((Ascii (false,
    true, true, true, false, true, false, false)), (String ((Ascii (false,
    true, false, false, false, false, true, false)), (String ((Ascii (true,
    false, true, false, false, true, true, false)), (String ((Ascii (true,
    true, true, false, false, true, true, false)), (String ((Ascii (true,
    false, false, true, false, true, true, false)), (String ((Ascii (false,
    true, true, true, false, true, true, false)), (String ((Ascii (false,
    true, false, false, false, false, true, false)), (String ((Ascii (false,
    false, true, true, false, true, true, false)), (String ((Ascii (true,
    true, true, true, false, true, true, false)), (String ((Ascii (true,
    true, false, false, false, true, true, false)), (String ((Ascii (true,
    true, false, true, false, true, true, false)), (String ((Ascii (true,
    false, true, false, false, true, true, false)), (String ((Ascii (false,
    true, false, false, true, true, true, false)),
    EmptyString)))))))))))))))))))))))))))))))))))))))); u_loop =
    EmptyString; u_calls = ((String ((Ascii (false, true, false, false, true,
    true, true, false)), (String ((Ascii (true, false, true, false, false,
    true, true, false)), (String ((Ascii (true, true, true, false, true,
    true, true, false)), (String ((Ascii (true, false, false, false, false,
    true, true, false)), (String ((Ascii (false, true, false, false, true,
    true, true, false)), (String ((Ascii (false, false, true, false, false,
    true, true, false)), (String ((Ascii (true, true, false, false, true,
    true, true, false)), (String ((Ascii (false, true, true, true, false,
    true, false, false)), (String ((Ascii (false, false, true, false, true,
    false, true, false)), (String ((Ascii (false, true, false, false, true,
    true, true, false)), (String ((Ascii (true, false, false, true, false,
    true, true, false)), (String ((Ascii (true, true, true, false, false,
    true, true, false)), (String ((Ascii (true, true, true, false, false,
    true, true, false)), (String ((Ascii (true, false, true, false, false,
    true, true, false)), (String ((Ascii (false, true, false, false, true,
    true, true, false)), (String ((Ascii (true, false, false, false, false,
    false, true, false)), (String ((Ascii (false, true, true, true, false,
    true, true, false)), (String ((Ascii (false, false, true, false, false,
    true, true, false)), (String ((Ascii (true, false, true, false, true,
    false, true, false)), (String ((Ascii (false, false, false, false, true,
    true, true, false)), (String ((Ascii (false, false, true, false, false,
    true, true, false)), (String ((Ascii (true, false, false, false, false,
    true, true, false)), (String ((Ascii (false, false, true, false, true,
    true, true, false)), (String ((Ascii (true, false, true, false, false,
    true, true, false)), (String ((Ascii (true, false, true, false, false,
    false, true, false)), (String ((Ascii (false, false, false, false, true,
    true, true, false)), (String ((Ascii (true, true, true, true, false,
    true, true, false)), (String ((Ascii (true, true, false, false, false,
    true, true, false)), (String ((Ascii (false, false, false, true, false,
    true, true, false)), (String ((Ascii (true, false, false, true, false,
    false, true, false)), (String ((Ascii (false, true, true, true, false,
    true, true, false)), (String ((Ascii (false, true, true, false, false,
    true, true, false)), (String ((Ascii (true, true, true, true, false,
    true, true, false)), (String ((Ascii (true, true, false, false, true,
    true, true, false)),
    EmptyString)))))))))))))))))))))))))))))))))))))))))))))))))))))))))))))))))))) :: ((String
    ((Ascii (false, true, false, false, true, true, true, false)), (String
    ((Ascii (true, false, true, false, false, true, true, false)), (String
    ((Ascii (true, true, true, false, true, true, true, false)), (String
    ((Ascii (true, false, false, false, false, true, true, false)), (String
    ((Ascii (false, true, false, false, true, true, true, false)), (String
    ((Ascii (false, false, true, false, false, true, true, false)), (String
    ((Ascii (true, true, false, false, true, true, true, false)), (String
    ((Ascii (false, true, true, true, false, true, false, false)), (String
    ((Ascii (false, false, true, false, false, false, true, false)), (String
    ((Ascii (true, false, false, true, false, true, true, false)), (String
    ((Ascii (true, true, false, false, true, true, true, false)), (String
    ((Ascii (false, false, true, false, true, true, true, false)), (String
    ((Ascii (false, true, false, false, true, true, true, false)), (String
    ((Ascii (true, false, false, true, false, true, true, false)), (String
    ((Ascii (false, true, false, false, false, true, true, false)), (String
    ((Ascii (true, false, true, false, true, true, true, false)), (String
    ((Ascii (false, false, true, false, true, true, true, false)), (String
    ((Ascii (true, false, true, false, false, true, true, false)), (String
    ((Ascii (true, false, true, false, false, false, true, false)), (String
    ((Ascii (false, false, false, true, true, true, true, false)), (String
    ((Ascii (false, false, true, false, true, true, true, false)), (String
    ((Ascii (false, true, false, false, true, false, true, false)), (String
    ((Ascii (true, false, true, false, false, true, true, false)), (String
    ((Ascii (true, true, true, false, true, true, true, false)), (String
    ((Ascii (true, false, false, false, false, true, true, false)), (String
    ((Ascii (false, true, false, false, true, true, true, false)), (String
    ((Ascii (false, false, true, false, false, true, true, false)), (String
    ((Ascii (false, false, true, true, false, false, true, false)), (String
    ((Ascii (true, true, true, true, false, true, true, false)), (String
    ((Ascii (true, true, false, false, false, true, true, false)), (String
    ((Ascii (true, true, false, true, false, true, true, false)), (String
    ((Ascii (true, false, true, false, false, true, true, false)), (String
    ((Ascii (false, true, false, false, true, true, true, false)),
    EmptyString)))))))))))))))))))))))))))))))))))))))))))))))))))))))))))))))))) :: ((String
    ((Ascii (false, true, false, false, true, true, true, false)), (String
    ((Ascii (true, false, true, false, false, true, true, false)), (String
    ((Ascii (true, true, true, false, true, true, true, false)), (String
    ((Ascii (true, false, false, false, false, true, true, false)), (String
    ((Ascii (false, true, false, false, true, true, true, false)), (String
    ((Ascii (false, false, true, false, false, true, true, false)), (String
    ((Ascii (true, true, false, false, true, true, true, false)), (String
    ((Ascii (false, true, true, true, false, true, false, false)), (String
    ((Ascii (false, false, true, false, false, false, true, false)), (String
    ((Ascii (true, false, false, true, false, true, true, false)), (String
    ((Ascii (true, true, false, false, true, true, true, false)), (String
    ((Ascii (false, false, true, false, true, true, true, false)), (String
    ((Ascii (false, true, false, false, true, true, true, false)), (String
    ((Ascii (true, false, false, true, false, true, true, false)), (String
    ((Ascii (false, true, false, false, false, true, true, false)), (String
    ((Ascii (true, false, true, false, true, true, true, false)), (String
    ((Ascii (false, false, true, false, true, true, true, false)), (String
    ((Ascii (true, false, true, false, false, true, true, false)), (String
    ((Ascii (true, false, true, false, false, false, true, false)), (String
    ((Ascii (false, false, false, true, true, true, true, false)), (String
    ((Ascii (false, false, true, false, true, true, true, false)), (String
    ((Ascii (false, true, false, false, true, false, true, false)), (String
    ((Ascii (true, false, true, false, false, true, true, false)), (String
    ((Ascii (true, true, true, false, true, true, true, false)), (String
    ((Ascii (true, false, false, false, false, true, true, false)), (String
    ((Ascii (false, true, false, false, true, true, true, false)), (String
    ((Ascii (false, false, true, false, false, true, true, false)), (String
    ((Ascii (false, true, true, false, true, false, true, false)), (String
    ((Ascii (true, false, false, false, false, true, true, false)), (String
    ((Ascii (true, false, true, false, true, true, true, false)), (String
    ((Ascii (false, false, true, true, false, true, true, false)), (String
    ((Ascii (false, false, true, false, true, true, true, false)),
    EmptyString)))))))))))))))))))))))))))))))))))))))))))))))))))))))))))))))) :: ((String
    ((Ascii (false, true, false, false, true, true, true, false)), (String
    ((Ascii (true, false, true, false, false, true, true, false)), (String
    ((Ascii (true, true, true, false, true, true, true, false)), (String
    ((Ascii (true, false, false, false, false, true, true, false)), (String
    ((Ascii (false, true, false, false, true, true, true, false)), (String
    ((Ascii (false, false, true, false, false, true, true, false)), (String
    ((Ascii (true, true, false, false, true, true, true, false)), (String
    ((Ascii (false, true, true, true, false, true, false, false)), (String
    ((Ascii (false, false, true, false, false, false, true, false)), (String
    ((Ascii (true, false, false, true, false, true, true, false)), (String
    ((Ascii (true, true, false, false, true, true, true, false)), (String
    ((Ascii (false, false, true, false, true, true, true, false)), (String
    ((Ascii (false, true, false, false, true, true, true, false)), (String
    ((Ascii (true, false, false, true, false, true, true, false)), (String
    ((Ascii (false, true, false, false, false, true, true, false)), (String
    ((Ascii (true, false, true, false, true, true, true, false)), (String
    ((Ascii (false, false, true, false, true, true, true, false)), (String
    ((Ascii (true, false, true, false, false, true, true, false)), (String
    ((Ascii (true, false, true, false, false, false, true, false)), (String
    ((Ascii (false, false, false, true, true, true, true, false)), (String
    ((Ascii (false, false, true, false, true, true, true, false)), (String
    ((Ascii (false, true, false, false, true, false, true, false)), (String
    ((Ascii (true, false, true, false, false, true, true, false)), (String
    ((Ascii (true, true, true, false, true, true, true, false)), (String
    ((Ascii (true, false, false, false, false, true, true, false)), (String
    ((Ascii (false, true, false, false, true, true, true, false)), (String
    ((Ascii (false, false, true, false, false, true, true, false)), (String
    ((Ascii (false, false, true, true, false, false, true, false)), (String
    ((Ascii (true, false, true, false, false, true, true, false)), (String
    ((Ascii (false, true, true, true, false, true, true, false)), (String
    ((Ascii (false, false, true, false, false, true, true, false)),
    EmptyString)))))))))))))))))))))))))))))))))))))))))))))))))))))))))))))) :: ((String
    ((Ascii (false, true, false, false, true, true, true, false)), (String
    ((Ascii (true, false, true, false, false, true, true, false)), (String
    ((Ascii (true, true, true, false, true, true, true, false)), (String
    ((Ascii (true, false, false, false, false, true, true, false)), (String
    ((Ascii (false, true, false, false, true, true, true, false)), (String
    ((Ascii (false, false, true, false, false, true, true, false)), (String
    ((Ascii (true, true, false, false, true, true, true, false)), (String
    ((Ascii (false, true, true, true, false, true, false, false)), (String
    ((Ascii (true, true, false, false, false, false, true, false)), (String
    ((Ascii (true, true, true, true, false, true, true, false)), (String
    ((Ascii (true, false, true, true, false, true, true, false)), (String
    ((Ascii (false, true, false, false, false, true, true, false)), (String
    ((Ascii (true, false, false, true, false, true, true, false)), (String
    ((Ascii (false, true, true, true, false, true, true, false)), (String
    ((Ascii (true, false, true, false, false, true, true, false)), (String
    ((Ascii (false, false, false, false, true, false, true, false)), (String
    ((Ascii (true, true, false, false, true, false, true, false)), (String
    ((Ascii (true, false, true, true, false, false, true, false)), (String
    ((Ascii (true, false, true, false, true, false, true, false)), (String
    ((Ascii (true, true, false, false, true, true, true, false)), (String
    ((Ascii (true, false, true, false, false, true, true, false)), (String
    ((Ascii (false, true, false, false, true, true, true, false)), (String
    ((Ascii (false, false, false, false, true, false, true, false)), (String
    ((Ascii (true, true, true, true, false, true, true, false)), (String
    ((Ascii (true, true, false, false, true, true, true, false)), (String
    ((Ascii (true, false, false, true, false, true, true, false)), (String
    ((Ascii (false, false, true, false, true, true, true, false)), (String
    ((Ascii (true, false, false, true, false, true, true, false)), (String
    ((Ascii (true, true, true, true, false, true, true, false)), (String
    ((Ascii (false, true, true, true, false, true, true, false)), (String
    ((Ascii (true, true, false, false, true, true, true, false)),
    EmptyString)))))))))))))))))))))))))))))))))))))))))))))))))))))))))))))) :: ((String
    ((Ascii (false, true, false, false, true, true, true, false)), (String
    ((Ascii (true, false, true, false, false, true, true, false)), (String
    ((Ascii (true, true, true, false, true, true, true, false)), (String
    ((Ascii (true, false, false, false, false, true, true, false)), (String
    ((Ascii (false, true, false, false, true, true, true, false)), (String
    ((Ascii (false, false, true, false, false, true, true, false)), (String
    ((Ascii (true, true, false, false, true, true, true, false)), (String
    ((Ascii (false, true, true, true, false, true, false, false)), (String
    ((Ascii (false, false, true, false, false, false, true, false)), (String
    ((Ascii (true, false, false, true, false, true, true, false)), (String
    ((Ascii (true, true, false, false, true, true, true, false)), (String
    ((Ascii (false, false, true, false, true, true, true, false)), (String
    ((Ascii (false, true, false, false, true, true, true, false)), (String
    ((Ascii (true, false, false, true, false, true, true, false)), (String
    ((Ascii (false, true, false, false, false, true, true, false)), (String
    ((Ascii (true, false, true, false, true, true, true, false)), (String
    ((Ascii (false, false, true, false, true, true, true, false)), (String
    ((Ascii (true, false, true, false, false, true, true, false)), (String
    ((Ascii (true, false, true, false, false, false, true, false)), (String
    ((Ascii (false, false, false, true, true, true, true, false)), (String
    ((Ascii (false, false, true, false, true, true, true, false)), (String
    ((Ascii (false, true, false, false, true, false, true, false)), (String
    ((Ascii (true, false, true, false, false, true, true, false)), (String
    ((Ascii (true, true, true, false, true, true, true, false)), (String
    ((Ascii (true, false, false, false, false, true, true, false)), (String
    ((Ascii (false, true, false, false, true, true, true, false)), (String
    ((Ascii (false, false, true, false, false, true, true, false)), (String
    ((Ascii (true, true, false, false, true, false, true, false)), (String
    ((Ascii (false, false, true, false, true, true, true, false)), (String
    ((Ascii (true, false, false, false, false, true, true, false)), (String
    ((Ascii (false, true, false, false, false, true, true, false)), (String
    ((Ascii (false, false, true, true, false, true, true, false)), (String
    ((Ascii (true, false, true, false, false, true, true, false)), (String
    ((Ascii (false, true, true, false, true, false, true, false)), (String
    ((Ascii (true, false, false, false, false, true, true, false)), (String
    ((Ascii (true, false, true, false, true, true, true, false)), (String
    ((Ascii (false, false, true, true, false, true, true, false)), (String
    ((Ascii (false, false, true, false, true, true, true, false)),
    EmptyString)))))))))))))))))))))))))))))))))))))))))))))))))))))))))))))))))))))))))))) :: [])))))) } :: ({ u_id =
    (String ((Ascii (true, false, true, false, false, true, true, false)),
    (String ((Ascii (true, true, false, false, true, true, true, false)),
    (String ((Ascii (true, false, true, true, false, true, true, false)),
    (String ((Ascii (false, true, true, true, false, true, false, false)),
    (String ((Ascii (false, false, false, true, false, true, true, false)),
    (String ((Ascii (true, true, true, true, false, true, true, false)),
    (String ((Ascii (true, true, true, true, false, true, true, false)),
    (String ((Ascii (true, true, false, true, false, true, true, false)),
    EmptyString)))))))))))))))); u_root = (String ((Ascii (true, false, true,
    false, false, true, true, false)), (String ((Ascii (true, true, false,
    false, true, true, true, false)), (String ((Ascii (true, false, true,
    true, false, true, true, false)), (String ((Ascii (false, true, true,
    true, false, true, false, false)), (String ((Ascii (false, true, false,
    false, false, false, true, false)), (String ((Ascii (true, false, true,
    false, false, true, true, false)), (String ((Ascii (true, true, true,
    false, false, true, true, false)), (String ((Ascii (true, false, false,
    true, false, true, true, false)), (String ((Ascii (false, true, true,
    true, false, true, true, false)), (String ((Ascii (false, true, false,
    false, false, false, true, false)), (String ((Ascii (false, false, true,
    true, false, true, true, false)), (String ((Ascii (true, true, true,
    true, false, true, true, false)), (String ((Ascii (true, true, false,
    false, false, true, true, false)), (String ((Ascii (true, true, false,
    true, false, true, true, false)), (String ((Ascii (true, false, true,
    false, false, true, true, false)), (String ((Ascii (false, true, false,
    false, true, true, true, false)),
    EmptyString)))))))))))))))))))))))))))))))); u_loop = EmptyString;
    u_calls = ((String ((Ascii (true, false, true, false, false, true, true,
    false)), (String ((Ascii (true, true, false, false, true, true, true,
    false)), (String ((Ascii (true, false, true, true, false, true, true,
    false)), (String ((Ascii (false, true, true, true, false, true, false,
    false)), (String ((Ascii (true, true, false, false, true, false, true,
    false)), (String ((Ascii (false, true, true, true, false, true, true,
    false)), (String ((Ascii (true, false, false, false, false, true, true,
    false)), (String ((Ascii (false, false, false, false, true, true, true,
    false)), (String ((Ascii (true, true, false, false, true, true, true,
    false)), (String ((Ascii (false, false, false, true, false, true, true,
    false)), (String ((Ascii (true, true, true, true, false, true, true,
    false)), (String ((Ascii (false, false, true, false, true, true, true,
    false)), (String ((Ascii (true, true, true, true, false, false, true,
    false)), (String ((Ascii (false, true, true, false, false, true, true,
    false)), (String ((Ascii (false, false, false, false, true, false, true,
    false)), (String ((Ascii (false, true, false, false, true, true, true,
    false)), (String ((Ascii (true, false, false, true, false, true, true,
    false)), (String ((Ascii (true, true, false, false, false, true, true,
    false)), (String ((Ascii (true, false, true, false, false, true, true,
    false)), (String ((Ascii (true, true, false, false, true, true, true,
    false)), EmptyString)))))))))))))))))))))))))))))))))))))))) :: ((String
    ((Ascii (true, false, true, false, false, true, true, false)), (String
    ((Ascii (true, true, false, false, true, true, true, false)), (String
    ((Ascii (true, false, true, true, false, true, true, false)), (String
    ((Ascii (false, true, true, true, false, true, false, false)), (String
    ((Ascii (true, true, false, false, true, false, true, false)), (String
    ((Ascii (true, false, true, false, false, true, true, false)), (String
    ((Ascii (false, false, true, false, true, true, true, false)), (String
    ((Ascii (true, false, true, false, true, false, true, false)), (String
    ((Ascii (false, false, false, false, true, true, true, false)), (String
    ((Ascii (true, true, false, false, false, false, true, false)), (String
    ((Ascii (true, true, true, true, false, true, true, false)), (String
    ((Ascii (false, false, true, true, false, true, true, false)), (String
    ((Ascii (false, false, true, true, false, true, true, false)), (String
    ((Ascii (true, false, false, false, false, true, true, false)), (String
    ((Ascii (false, false, true, false, true, true, true, false)), (String
    ((Ascii (true, false, true, false, false, true, true, false)), (String
    ((Ascii (false, true, false, false, true, true, true, false)), (String
    ((Ascii (true, false, false, false, false, true, true, false)), (String
    ((Ascii (false, false, true, true, false, true, true, false)), (String
    ((Ascii (false, true, false, false, true, false, true, false)), (String
    ((Ascii (true, false, true, false, false, true, true, false)), (String
    ((Ascii (false, false, true, false, false, true, true, false)), (String
    ((Ascii (true, false, true, false, false, true, true, false)), (String
    ((Ascii (true, false, true, true, false, true, true, false)), (String
    ((Ascii (false, false, false, false, true, true, true, false)), (String
    ((Ascii (false, false, true, false, true, true, true, false)), (String
    ((Ascii (true, false, false, true, false, true, true, false)), (String
    ((Ascii (true, true, true, true, false, true, true, false)), (String
    ((Ascii (false, true, true, true, false, true, true, false)), (String
    ((Ascii (false, true, true, false, false, false, true, false)), (String
    ((Ascii (true, true, true, true, false, true, true, false)), (String
    ((Ascii (false, true, false, false, true, true, true, false)), (String
    ((Ascii (false, true, true, false, true, false, true, false)), (String
    ((Ascii (true, false, false, false, false, true, true, false)), (String
    ((Ascii (true, false, true, false, true, true, true, false)), (String
    ((Ascii (false, false, true, true, false, true, true, false)), (String
    ((Ascii (false, false, true, false, true, true, true, false)),
    EmptyString)))))))))))))))))))))))))))))))))))))))))))))))))))))))))))))))))))))))))) :: ((String
    ((Ascii (true, false, true, false, false, true, true, false)), (String
    ((Ascii (true, true, false, false, true, true, true, false)), (String
    ((Ascii (true, false, true, true, false, true, true, false)), (String
    ((Ascii (false, true, true, true, false, true, false, false)), (String
    ((Ascii (true, true, false, false, true, false, true, false)), (String
    ((Ascii (true, false, true, false, false, true, true, false)), (String
    ((Ascii (false, false, true, false, true, true, true, false)), (String
    ((Ascii (true, false, true, false, true, false, true, false)), (String
    ((Ascii (false, false, false, false, true, true, true, false)), (String
    ((Ascii (true, true, false, false, false, false, true, false)), (String
    ((Ascii (true, true, true, true, false, true, true, false)), (String
    ((Ascii (false, false, true, true, false, true, true, false)), (String
    ((Ascii (false, false, true, true, false, true, true, false)), (String
    ((Ascii (true, false, false, false, false, true, true, false)), (String
    ((Ascii (false, false, true, false, true, true, true, false)), (String
    ((Ascii (true, false, true, false, false, true, true, false)), (String
    ((Ascii (false, true, false, false, true, true, true, false)), (String
    ((Ascii (true, false, false, false, false, true, true, false)), (String
    ((Ascii (false, false, true, true, false, true, true, false)), (String
    ((Ascii (false, true, false, false, true, false, true, false)), (String
    ((Ascii (true, false, true, false, false, true, true, false)), (String
    ((Ascii (false, false, true, false, false, true, true, false)), (String
    ((Ascii (true, false, true, false, false, true, true, false)), (String
    ((Ascii (true, false, true, true, false, true, true, false)), (String
    ((Ascii (false, false, false, false, true, true, true, false)), (String
    ((Ascii (false, false, true, false, true, true, true, false)), (String
    ((Ascii (true, false, false, true, false, true, true, false)), (String
    ((Ascii (true, true, true, true, false, true, true, false)), (String
    ((Ascii (false, true, true, true, false, true, true, false)), (String
    ((Ascii (false, true, true, false, false, false, true, false)), (String
    ((Ascii (true, true, true, true, false, true, true, false)), (String
    ((Ascii (false, true, false, false, true, true, true, false)), (String
    ((Ascii (true, true, false, false, true, false, true, false)), (String
    ((Ascii (false, false, true, false, true, true, true, false)), (String
    ((Ascii (true, false, false, false, false, true, true, false)), (String
    ((Ascii (false, true, false, false, false, true, true, false)), (String
    ((Ascii (false, false, true, true, false, true, true, false)), (String
    ((Ascii (true, false, true, false, false, true, true, false)), (String
    ((Ascii (false, true, true, false, true, false, true, false)), (String
    ((Ascii (true, false, false, false, false, true, true, false)), (String
    ((Ascii (true, false, true, false, true, true, true, false)), (String
    ((Ascii (false, false, true, true, false, true, true, false)), (String
    ((Ascii (false, false, true, false, true, true, true, false)),
    EmptyString)))))))))))))))))))))))))))))))))))))))))))))))))))))))))))))))))))))))))))))))))))))) :: ((String
    ((Ascii (true, false, true, false, false, true, true, false)), (String
    ((Ascii (true, true, false, false, true, true, true, false)), (String
    ((Ascii (true, false, true, true, false, true, true, false)), (String
    ((Ascii (false, true, true, true, false, true, false, false)), (String
    ((Ascii (true, true, false, false, true, false, true, false)), (String
    ((Ascii (true, false, true, false, false, true, true, false)), (String
    ((Ascii (false, false, true, false, true, true, true, false)), (String
    ((Ascii (true, false, true, false, true, false, true, false)), (String
    ((Ascii (false, false, false, false, true, true, true, false)), (String
    ((Ascii (false, false, true, false, false, false, true, false)), (String
    ((Ascii (true, false, true, false, false, true, true, false)), (String
    ((Ascii (false, true, false, false, false, true, true, false)), (String
    ((Ascii (false, false, true, false, true, true, true, false)), (String
    ((Ascii (false, true, false, false, true, false, true, false)), (String
    ((Ascii (true, false, true, false, false, true, true, false)), (String
    ((Ascii (false, false, true, false, false, true, true, false)), (String
    ((Ascii (true, false, true, false, false, true, true, false)), (String
    ((Ascii (true, false, true, true, false, true, true, false)), (String
    ((Ascii (false, false, false, false, true, true, true, false)), (String
    ((Ascii (false, false, true, false, true, true, true, false)), (String
    ((Ascii (true, false, false, true, false, true, true, false)), (String
    ((Ascii (true, true, true, true, false, true, true, false)), (String
    ((Ascii (false, true, true, true, false, true, true, false)), (String
    ((Ascii (false, true, true, false, false, false, true, false)), (String
    ((Ascii (true, true, true, true, false, true, true, false)), (String
    ((Ascii (false, true, false, false, true, true, true, false)), (String
    ((Ascii (true, true, false, false, false, false, true, false)), (String
    ((Ascii (true, true, true, true, false, true, true, false)), (String
    ((Ascii (false, false, true, true, false, true, true, false)), (String
    ((Ascii (false, false, true, true, false, true, true, false)), (String
    ((Ascii (true, false, true, false, false, true, true, false)), (String
    ((Ascii (true, true, false, false, false, true, true, false)), (String
    ((Ascii (false, false, true, false, true, true, true, false)), (String
    ((Ascii (true, true, true, true, false, true, true, false)), (String
    ((Ascii (false, true, false, false, true, true, true, false)),
    EmptyString)))))))))))))))))))))))))))))))))))))))))))))))))))))))))))))))))))))) :: ((String
    ((Ascii (true, false, true, false, false, true, true, false)), (String
    ((Ascii (true, true, false, false, true, true, true, false)), (String
    ((Ascii (true, false, true, true, false, true, true, false)), (String
    ((Ascii (false, true, true, true, false, true, false, false)), (String
    ((Ascii (true, true, false, false, true, false, true, false)), (String
    ((Ascii (true, false, true, false, false, true, true, false)), (String
    ((Ascii (false, false, true, false, true, true, true, false)), (String
    ((Ascii (true, false, true, false, true, false, true, false)), (String
    ((Ascii (false, false, false, false, true, true, true, false)), (String
    ((Ascii (true, true, false, false, true, false, true, false)), (String
    ((Ascii (false, false, false, true, false, true, true, false)), (String
    ((Ascii (true, false, false, false, false, true, true, false)), (String
    ((Ascii (false, true, false, false, true, true, true, false)), (String
    ((Ascii (true, false, true, false, false, true, true, false)), (String
    ((Ascii (true, true, false, false, false, false, true, false)), (String
    ((Ascii (true, false, false, false, false, true, true, false)), (String
    ((Ascii (false, false, true, true, false, true, true, false)), (String
    ((Ascii (true, true, false, false, false, true, true, false)), (String
    ((Ascii (true, false, true, false, true, true, true, false)), (String
    ((Ascii (false, false, true, true, false, true, true, false)), (String
    ((Ascii (true, false, false, false, false, true, true, false)), (String
    ((Ascii (false, false, true, false, true, true, true, false)), (String
    ((Ascii (true, false, false, true, false, true, true, false)), (String
    ((Ascii (true, true, true, true, false, true, true, false)), (String
    ((Ascii (false, true, true, true, false, true, true, false)),
    EmptyString)))))))))))))))))))))))))))))))))))))))))))))))))) :: []))))) } :: ({ u_id =
    (String ((Ascii (false, false, true, true, false, true, true, false)),
    (String ((Ascii (true, false, true, false, false, true, true, false)),
    (String ((Ascii (false, true, true, true, false, true, true, false)),
    (String ((Ascii (false, false, true, false, false, true, true, false)),
    (String ((Ascii (false, true, true, true, false, true, false, false)),
    (String ((Ascii (false, false, false, true, false, true, true, false)),
    (String ((Ascii (true, true, true, true, false, true, true, false)),
    (String ((Ascii (true, true, true, true, false, true, true, false)),
    (String ((Ascii (true, true, false, true, false, true, true, false)),
    EmptyString)))))))))))))))))); u_root = (String ((Ascii (false, false,
    true, true, false, true, true, false)), (String ((Ascii (true, false,
    true, false, false, true, true, false)), (String ((Ascii (false, true,
    true, true, false, true, true, false)), (String ((Ascii (false, false,
    true, false, false, true, true, false)), (String ((Ascii (false, true,
    true, true, false, true, false, false)), (String ((Ascii (false, true,
    false, false, false, false, true, false)), (String ((Ascii (true, false,
    true, false, false, true, true, false)), (String ((Ascii (true, true,
    true, false, false, true, true, false)), (String ((Ascii (true, false,
    false, true, false, true, true, false)), (String ((Ascii (false, true,
    true, true, false, true, true, false)), (String ((Ascii (false, true,
    false, false, false, false, true, false)), (String ((Ascii (false, false,
    true, true, false, true, true, false)), (String ((Ascii (true, true,
    true, true, false, true, true, false)), (String ((Ascii (true, true,
    false, false, false, true, true, false)), (String ((Ascii (true, true,
    false, true, false, true, true, false)), (String ((Ascii (true, false,
    true, false, false, true, true, false)), (String ((Ascii (false, true,
    false, false, true, true, true, false)),
    EmptyString)))))))))))))))))))))))))))))))))); u_loop = EmptyString;
    u_calls = ((String ((Ascii (false, false, true, true, false, true, true,
    false)), (String ((Ascii (true, false, true, false, false, true, true,
    false)), (String ((Ascii (false, true, true, true, false, true, true,
    false)), (String ((Ascii (false, false, true, false, false, true, true,
    false)), (String ((Ascii (false, true, true, true, false, true, false,
    false)), (String ((Ascii (false, false, true, false, false, false, true,
    false)), (String ((Ascii (true, false, true, false, false, true, true,
    false)), (String ((Ascii (false, false, true, true, false, true, true,
    false)), (String ((Ascii (true, false, true, false, false, true, true,
    false)), (String ((Ascii (false, false, true, false, true, true, true,
    false)), (String ((Ascii (true, false, true, false, false, true, true,
    false)), (String ((Ascii (false, false, false, false, true, false, true,
    false)), (String ((Ascii (true, true, true, true, false, true, true,
    false)), (String ((Ascii (true, true, true, true, false, true, true,
    false)), (String ((Ascii (false, false, true, true, false, true, true,
    false)), (String ((Ascii (true, false, false, false, false, false, true,
    false)), (String ((Ascii (false, true, true, true, false, true, true,
    false)), (String ((Ascii (false, false, true, false, false, true, true,
    false)), (String ((Ascii (false, false, true, false, true, false, true,
    false)), (String ((Ascii (false, true, false, false, true, true, true,
    false)), (String ((Ascii (true, false, false, false, false, true, true,
    false)), (String ((Ascii (false, true, true, true, false, true, true,
    false)), (String ((Ascii (true, true, false, false, true, true, true,
    false)), (String ((Ascii (false, true, true, false, false, true, true,
    false)), (String ((Ascii (true, false, true, false, false, true, true,
    false)), (String ((Ascii (false, true, false, false, true, true, true,
    false)), (String ((Ascii (true, false, false, true, false, false, true,
    false)), (String ((Ascii (false, true, true, true, false, true, true,
    false)), (String ((Ascii (false, false, true, false, true, true, true,
    false)), (String ((Ascii (true, false, true, false, false, true, true,
    false)), (String ((Ascii (false, true, false, false, true, true, true,
    false)), (String ((Ascii (true, false, true, false, false, true, true,
    false)), (String ((Ascii (true, true, false, false, true, true, true,
    false)), (String ((Ascii (false, false, true, false, true, true, true,
    false)),
    EmptyString)))))))))))))))))))))))))))))))))))))))))))))))))))))))))))))))))))) :: []) } :: ({ u_id =
    (String ((Ascii (false, true, true, false, true, true, true, false)),
    (String ((Ascii (false, true, false, false, true, true, false, false)),
    (String ((Ascii (false, true, true, true, false, true, false, false)),
    (String ((Ascii (true, false, false, false, false, true, true, false)),
    (String ((Ascii (true, false, true, false, true, true, true, false)),
    (String ((Ascii (true, true, false, false, false, true, true, false)),
    (String ((Ascii (false, false, true, false, true, true, true, false)),
    (String ((Ascii (true, false, false, true, false, true, true, false)),
    (String ((Ascii (true, true, true, true, false, true, true, false)),
    (String ((Ascii (false, true, true, true, false, true, true, false)),
    (String ((Ascii (true, true, false, false, true, true, true, false)),
    (String ((Ascii (false, true, true, true, false, true, false, false)),
    (String ((Ascii (false, false, false, true, false, true, true, false)),
    (String ((Ascii (true, true, true, true, false, true, true, false)),
    (String ((Ascii (true, true, true, true, false, true, true, false)),
    (String ((Ascii (true, true, false, true, false, true, true, false)),
    EmptyString)))))))))))))))))))))))))))))))); u_root = (String ((Ascii
    (true, false, false, false, false, true, true, false)), (String ((Ascii
    (true, false, true, false, true, true, true, false)), (String ((Ascii
    (true, true, false, false, false, true, true, false)), (String ((Ascii
    (false, false, true, false, true, true, true, false)), (String ((Ascii
    (true, false, false, true, false, true, true, false)), (String ((Ascii
    (true, true, true, true, false, true, true, false)), (String ((Ascii
    (false, true, true, true, false, true, true, false)), (String ((Ascii
    (true, true, false, false, true, true, true, false)), (String ((Ascii
    (false, true, true, false, true, false, true, false)), (String ((Ascii
    (false, true, false, false, true, true, false, false)), (String ((Ascii
    (false, true, true, true, false, true, false, false)), (String ((Ascii
    (false, true, false, false, false, false, true, false)), (String ((Ascii
    (true, false, true, false, false, true, true, false)), (String ((Ascii
    (true, true, true, false, false, true, true, false)), (String ((Ascii
    (true, false, false, true, false, true, true, false)), (String ((Ascii
    (false, true, true, true, false, true, true, false)), (String ((Ascii
    (false, true, false, false, false, false, true, false)), (String ((Ascii
    (false, false, true, true, false, true, true, false)), (String ((Ascii
    (true, true, true, true, false, true, true, false)), (String ((Ascii
    (true, true, false, false, false, true, true, false)), (String ((Ascii
    (true, true, false, true, false, true, true, false)), (String ((Ascii
    (true, false, true, false, false, true, true, false)), (String ((Ascii
    (false, true, false, false, true, true, true, false)),
    EmptyString)))))))))))))))))))))))))))))))))))))))))))))); u_loop =
    EmptyString; u_calls = ((String ((Ascii (true, false, false, false,
    false, true, true, false)), (String ((Ascii (true, false, true, false,
    true, true, true, false)), (String ((Ascii (true, true, false, false,
    false, true, true, false)), (String ((Ascii (false, false, true, false,
    true, true, true, false)), (String ((Ascii (true, false, false, true,
    false, true, true, false)), (String ((Ascii (true, true, true, true,
    false, true, true, false)), (String ((Ascii (false, true, true, true,
    false, true, true, false)), (String ((Ascii (true, true, false, false,
    true, true, true, false)), (String ((Ascii (false, true, true, false,
    true, false, true, false)), (String ((Ascii (false, true, false, false,
    true, true, false, false)), (String ((Ascii (false, true, true, true,
    false, true, false, false)), (String ((Ascii (true, false, true, false,
    true, false, true, false)), (String ((Ascii (false, false, false, false,
    true, true, true, false)), (String ((Ascii (false, false, true, false,
    false, true, true, false)), (String ((Ascii (true, false, false, false,
    false, true, true, false)), (String ((Ascii (false, false, true, false,
    true, true, true, false)), (String ((Ascii (true, false, true, false,
    false, true, true, false)), (String ((Ascii (false, false, true, false,
    false, false, true, false)), (String ((Ascii (true, false, true, false,
    true, true, true, false)), (String ((Ascii (false, false, true, false,
    true, true, true, false)), (String ((Ascii (true, true, false, false,
    false, true, true, false)), (String ((Ascii (false, false, false, true,
    false, true, true, false)), (String ((Ascii (true, false, false, false,
    false, false, true, false)), (String ((Ascii (true, false, true, false,
    true, true, true, false)), (String ((Ascii (true, true, false, false,
    false, true, true, false)), (String ((Ascii (false, false, true, false,
    true, true, true, false)), (String ((Ascii (true, false, false, true,
    false, true, true, false)), (String ((Ascii (true, true, true, true,
    false, true, true, false)), (String ((Ascii (false, true, true, true,
    false, true, true, false)),
    EmptyString)))))))))))))))))))))))))))))))))))))))))))))))))))))))))) :: ((String
    ((Ascii (true, false, false, false, false, true, true, false)), (String
    ((Ascii (true, false, true, false, true, true, true, false)), (String
    ((Ascii (true, true, false, false, false, true, true, false)), (String
    ((Ascii (false, false, true, false, true, true, true, false)), (String
    ((Ascii (true, false, false, true, false, true, true, false)), (String
    ((Ascii (true, true, true, true, false, true, true, false)), (String
    ((Ascii (false, true, true, true, false, true, true, false)), (String
    ((Ascii (true, true, false, false, true, true, true, false)), (String
    ((Ascii (false, true, true, false, true, false, true, false)), (String
    ((Ascii (false, true, false, false, true, true, false, false)), (String
    ((Ascii (false, true, true, true, false, true, false, false)), (String
    ((Ascii (false, false, false, false, true, false, true, false)), (String
    ((Ascii (false, false, true, true, false, true, true, false)), (String
    ((Ascii (true, false, false, false, false, true, true, false)), (String
    ((Ascii (true, true, false, false, false, true, true, false)), (String
    ((Ascii (true, false, true, false, false, true, true, false)), (String
    ((Ascii (false, false, true, false, false, false, true, false)), (String
    ((Ascii (true, false, true, false, true, true, true, false)), (String
    ((Ascii (false, false, true, false, true, true, true, false)), (String
    ((Ascii (true, true, false, false, false, true, true, false)), (String
    ((Ascii (false, false, false, true, false, true, true, false)), (String
    ((Ascii (true, false, false, false, false, false, true, false)), (String
    ((Ascii (true, false, true, false, true, true, true, false)), (String
    ((Ascii (true, true, false, false, false, true, true, false)), (String
    ((Ascii (false, false, true, false, true, true, true, false)), (String
    ((Ascii (true, false, false, true, false, true, true, false)), (String
    ((Ascii (true, true, true, true, false, true, true, false)), (String
    ((Ascii (false, true, true, true, false, true, true, false)), (String
    ((Ascii (false, true, false, false, false, false, true, false)), (String
    ((Ascii (true, false, false, true, false, true, true, false)), (String
    ((Ascii (false, false, true, false, false, true, true, false)),
    EmptyString)))))))))))))))))))))))))))))))))))))))))))))))))))))))))))))) :: [])) } :: []))))))))))))))))

(** val leaf_is_call : string -> leaf -> bool **)

let leaf_is_call c l =
  match l.lf_kind with
  | LCall (n, _) -> eqb n c
  | _ -> false

(** val path_ok : unit_spec -> frame list -> bool **)

let path_ok u p =
  if eqb u.u_loop EmptyString
  then under_wrap p
  else wrap_inside_loop u.u_loop p

(** val unit_is_wrapped : (string * hook) list -> unit_spec -> bool **)

let unit_is_wrapped t u =
  let ls = root_leaves t u.u_root in
  forallb (fun c ->
    let occ =
      filter (fun l ->
        (&&) (leaf_is_call c l)
          ((||) (eqb u.u_loop EmptyString) (in_loop u.u_loop l.lf_path))) ls
    in
    (&&) (negb (Nat.eqb (length occ) O))
      (forallb (fun l -> path_ok u l.lf_path) occ)) u.u_calls

(** val kf_C15_1 : string -> bool **)

let kf_C15_1 uid =
  eqb uid (String ((Ascii (false, true, true, false, true, true, true,
    false)), (String ((Ascii (false, true, false, false, true, true, false,
    false)), (String ((Ascii (false, true, true, true, false, true, false,
    false)), (String ((Ascii (false, true, false, false, false, true, true,
    false)), (String ((Ascii (true, true, true, true, false, true, true,
    false)), (String ((Ascii (false, true, false, false, true, true, true,
    false)), (String ((Ascii (false, true, false, false, true, true, true,
    false)), (String ((Ascii (true, true, true, true, false, true, true,
    false)), (String ((Ascii (true, true, true, false, true, true, true,
    false)), EmptyString))))))))))))))))))

(** val kf_C15_3 : string -> bool **)

let kf_C15_3 uid =
  eqb uid (String ((Ascii (false, true, true, false, true, true, true,
    false)), (String ((Ascii (false, true, false, false, true, true, false,
    false)), (String ((Ascii (false, true, true, true, false, true, false,
    false)), (String ((Ascii (true, true, false, false, true, true, true,
    false)), (String ((Ascii (true, false, true, false, true, true, true,
    false)), (String ((Ascii (false, true, false, false, true, true, true,
    false)), (String ((Ascii (false, false, false, false, true, true, true,
    false)), (String ((Ascii (false, false, true, true, false, true, true,
    false)), (String ((Ascii (true, false, true, false, true, true, true,
    false)), (String ((Ascii (true, true, false, false, true, true, true,
    false)), (String ((Ascii (false, false, true, false, false, true, true,
    false)), (String ((Ascii (true, false, true, false, false, true, true,
    false)), (String ((Ascii (false, true, false, false, false, true, true,
    false)), (String ((Ascii (false, false, true, false, true, true, true,
    false)), EmptyString))))))))))))))))))))))))))))

(** val kf_C15_4 : bool -> bool **)

let kf_C15_4 =
  negb

(** val holds_C15 : bool -> coq_Z -> bool -> bool **)

let holds_C15 hook_returned unit_diff others_processed =
  (&&)
    ((&&) hook_returned
      ((||) (Z.eqb unit_diff Z0) (Z.eqb unit_diff (Zpos Coq_xH))))
    others_processed

(** val table_says_wrapped : string -> bool **)

let table_says_wrapped uid =
  existsb (fun u -> (&&) (eqb u.u_id uid) (unit_is_wrapped hook_table u))
    hook_units
