open String

type call_kind =
| Reads
| Writes
| Expand

type hook =
| Seq of hook list
| ForEach of string * hook
| Wrapped of hook
| Call of string * call_kind
| Risk of string * string
| Unrecognised of string
