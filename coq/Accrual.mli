open Base
open BinInt
open BinNums
open Datatypes
open DecArith
open F64
open List

val coq_SECONDS_PER_YEAR : coq_Z

val years_elapsed : coq_Z -> coq_Z

val lend_secs : coq_Z -> coq_Z -> coq_Z

val obind2 : coq_Z option -> (coq_Z -> 'a1 option) -> 'a1 option

val index_accrual : coq_Z -> coq_Z -> coq_Z -> coq_Z -> (coq_Z * coq_Z) option

val lend_reward :
  coq_Z -> coq_Z -> coq_Z -> coq_Z -> coq_Z -> (coq_Z * coq_Z) outcome

val borrow_interest :
  coq_Z -> coq_Z -> coq_Z -> coq_Z -> coq_Z -> coq_Z -> coq_Z ->
  ((coq_Z * coq_Z) * (coq_Z * coq_Z)) outcome

val stable_interest : coq_Z -> coq_Z -> coq_Z -> coq_Z -> coq_Z outcome

val carry_step : coq_Z -> coq_Z -> coq_Z * coq_Z

val carry_run : coq_Z -> coq_Z list -> coq_Z * coq_Z

val cmp_x : coq_Z -> coq_Z

val cmp_y : coq_Z -> coq_Z

val cmp_amtf : coq_Z -> coq_Z

val calculation_of_rewards :
  (coq_Z -> coq_Z -> coq_Z) -> coq_Z -> coq_Z -> coq_Z -> coq_Z -> coq_Z
  outcome

val h1_ok : coq_Z -> coq_Z -> coq_Z -> bool

val h2_ok : coq_Z -> coq_Z -> bool

val h3_ok : coq_Z -> coq_Z -> coq_Z -> coq_Z -> coq_Z -> coq_Z -> bool

val h4_ok : coq_Z -> coq_Z -> coq_Z -> coq_Z -> bool

val holds_C18_nonneg : coq_Z -> bool

val holds_C18_zero_time : coq_Z -> coq_Z -> bool

val holds_C18_monotone :
  coq_Z -> coq_Z -> coq_Z -> coq_Z -> coq_Z -> coq_Z -> coq_Z -> coq_Z -> bool

val idx_slack : coq_Z -> coq_Z -> coq_Z -> coq_Z -> coq_Z

val holds_C18_idx_subadditive :
  coq_Z -> coq_Z -> coq_Z -> coq_Z -> coq_Z -> coq_Z -> coq_Z -> bool

val holds_C18_stable_subadditive : coq_Z -> coq_Z -> coq_Z -> bool

val holds_C18_carry : coq_Z -> coq_Z list -> coq_Z -> coq_Z -> bool
