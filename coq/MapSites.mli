open String

val all_equal : string list -> bool

val holds_C16 : string list -> bool
