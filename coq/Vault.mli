open Atomic
open Base
open BinInt
open BinNums
open Datatypes
open DecArith
open List

val coq_VAULT : coq_Z

val coq_COLL : coq_Z

val coq_E_ESM : coq_Z

val coq_E_BREAKER : coq_Z

val coq_E_NOTFOUND : coq_Z

val coq_E_MISMATCH : coq_Z

val coq_E_UNAUTH : coq_Z

val coq_E_INVALID : coq_Z

val coq_E_FLOOR : coq_Z

val coq_E_CEIL : coq_Z

val coq_E_CR : coq_Z

val coq_E_PRICE : coq_Z

val coq_E_FUNDS : coq_Z

val coq_E_STATE : coq_Z

val coq_E_INTEREST : coq_Z

type epair = { ep_id : coq_Z; ep_app : coq_Z; ep_in : coq_Z; ep_out : 
               coq_Z; ep_dec_in : coq_Z; ep_dec_out : coq_Z; ep_stab : 
               coq_Z; ep_closing : coq_Z; ep_ddf : coq_Z; ep_min_cr : 
               coq_Z; ep_floor : coq_Z; ep_ceiling : coq_Z; ep_stable : 
               bool; ep_active : bool; ep_oracle_out : bool;
               ep_out_price : coq_Z }

type cfg = { apps : coq_Z list; epairs : epair list }

val get_ep : cfg -> coq_Z -> epair option

val app_exists : cfg -> coq_Z -> bool

type vault = { v_id : coq_Z; v_owner : coq_Z; v_app : coq_Z; v_pair : 
               coq_Z; v_in : coq_Z; v_out : coq_Z; v_int : coq_Z;
               v_fee : coq_Z }

type svault = { sv_id : coq_Z; sv_app : coq_Z; sv_pair : coq_Z;
                sv_in : coq_Z; sv_out : coq_Z }

type prod = { p_coll : coq_Z; p_mint : coq_Z; p_ids : coq_Z list }

type esm_rec = { e_status : bool; e_end : coq_Z; e_snap : bool }

val esm0 : esm_rec

type state = { vaults : vault list; svaults : svault list;
               prods : (coq_Z -> coq_Z -> prod option);
               umap : (coq_Z -> coq_Z -> coq_Z -> coq_Z option);
               vlen : coq_Z; vid : coq_Z; sid : coq_Z;
               bal : (coq_Z -> coq_Z -> coq_Z); sup : (coq_Z -> coq_Z);
               now : coq_Z; price : (coq_Z -> coq_Z option);
               esm : (coq_Z -> esm_rec);
               snap : (coq_Z -> coq_Z -> coq_Z option);
               brk : (coq_Z -> bool); unsol : (coq_Z -> coq_Z) }

val set_vaults : state -> vault list -> state

val set_svaults : state -> svault list -> state

val set_prods : state -> (coq_Z -> coq_Z -> prod option) -> state

val set_umap : state -> (coq_Z -> coq_Z -> coq_Z -> coq_Z option) -> state

val set_vlen : state -> coq_Z -> state

val set_vid : state -> coq_Z -> state

val set_sid : state -> coq_Z -> state

val set_bal : state -> (coq_Z -> coq_Z -> coq_Z) -> state

val set_sup : state -> (coq_Z -> coq_Z) -> state

val set_now : state -> coq_Z -> state

val set_price : state -> (coq_Z -> coq_Z option) -> state

val set_esm : state -> (coq_Z -> esm_rec) -> state

val set_snap : state -> (coq_Z -> coq_Z -> coq_Z option) -> state

val set_brk : state -> (coq_Z -> bool) -> state

val set_unsol : state -> (coq_Z -> coq_Z) -> state

val init :
  (coq_Z -> coq_Z -> coq_Z) -> (coq_Z -> coq_Z) -> coq_Z -> (coq_Z -> coq_Z
  option) -> state

val upd1 : (coq_Z -> 'a1) -> coq_Z -> 'a1 -> coq_Z -> 'a1

val upd2 :
  (coq_Z -> coq_Z -> 'a1) -> coq_Z -> coq_Z -> 'a1 -> coq_Z -> coq_Z -> 'a1

val upd3 :
  (coq_Z -> coq_Z -> coq_Z -> 'a1) -> coq_Z -> coq_Z -> coq_Z -> 'a1 -> coq_Z
  -> coq_Z -> coq_Z -> 'a1

val find_v : vault list -> coq_Z -> vault option

val put_v : vault list -> vault -> vault list

val del_v : vault list -> coq_Z -> vault list

val find_sv : svault list -> coq_Z -> svault option

val put_sv : svault list -> svault -> svault list

val send : state -> coq_Z -> coq_Z -> coq_Z -> coq_Z -> state outcome

val mint : state -> coq_Z -> coq_Z -> state outcome

val burn : state -> coq_Z -> coq_Z -> state outcome

val update_collector : state -> coq_Z -> state outcome

val prod0 : prod

val ensure_prod : state -> coq_Z -> coq_Z -> state

val prod_mint : state -> coq_Z -> coq_Z -> coq_Z

val prod_nids : state -> coq_Z -> coq_Z -> coq_Z

val prod_on_create :
  state -> coq_Z -> coq_Z -> coq_Z -> coq_Z -> coq_Z -> state

val upd_coll : state -> coq_Z -> coq_Z -> coq_Z -> bool -> state

val upd_mint : state -> coq_Z -> coq_Z -> coq_Z -> bool -> state

val bsearch : nat -> coq_Z list -> coq_Z -> coq_Z -> coq_Z -> coq_Z

val del_id : coq_Z list -> coq_Z -> coq_Z list

val prod_del_id : state -> coq_Z -> coq_Z -> coq_Z -> state

val total_value : coq_Z -> coq_Z -> coq_Z -> coq_Z outcome

val calc_asset_price : state -> coq_Z -> coq_Z -> coq_Z -> coq_Z outcome

val calc_cr : state -> epair -> coq_Z -> coq_Z -> coq_Z outcome

val verify_cr : state -> epair -> coq_Z -> coq_Z -> bool -> unit outcome

val other_token_gen :
  coq_Z -> coq_Z -> coq_Z -> coq_Z -> coq_Z -> coq_Z option

val other_token : coq_Z -> coq_Z -> coq_Z -> coq_Z option

val fee_share : coq_Z -> coq_Z -> coq_Z option

val pay_out : state -> coq_Z -> coq_Z -> coq_Z -> coq_Z -> state outcome

val with_int : vault -> coq_Z -> vault

val with_in : vault -> coq_Z -> vault

val with_out : vault -> coq_Z -> vault

val accrue : state -> coq_Z -> coq_Z -> state outcome

val create_h :
  cfg -> state -> coq_Z -> coq_Z -> coq_Z -> coq_Z -> coq_Z -> state outcome

val msg_create :
  cfg -> state -> coq_Z -> coq_Z -> coq_Z -> coq_Z -> coq_Z -> state outcome

val deposit_h :
  cfg -> state -> coq_Z -> coq_Z -> coq_Z -> coq_Z -> coq_Z -> coq_Z -> state
  outcome

val msg_deposit :
  cfg -> state -> coq_Z -> coq_Z -> coq_Z -> coq_Z -> coq_Z -> coq_Z -> state
  outcome

val withdraw_h :
  cfg -> state -> coq_Z -> coq_Z -> coq_Z -> coq_Z -> coq_Z -> coq_Z -> state
  outcome

val msg_withdraw :
  cfg -> state -> coq_Z -> coq_Z -> coq_Z -> coq_Z -> coq_Z -> coq_Z -> state
  outcome

val draw_h :
  cfg -> state -> coq_Z -> coq_Z -> coq_Z -> coq_Z -> coq_Z -> coq_Z -> state
  outcome

val msg_draw :
  cfg -> state -> coq_Z -> coq_Z -> coq_Z -> coq_Z -> coq_Z -> coq_Z -> state
  outcome

val msg_repay :
  cfg -> state -> coq_Z -> coq_Z -> coq_Z -> coq_Z -> coq_Z -> coq_Z -> state
  outcome

val msg_close :
  cfg -> state -> coq_Z -> coq_Z -> coq_Z -> coq_Z -> coq_Z -> state outcome

val msg_deposit_draw :
  cfg -> state -> coq_Z -> coq_Z -> coq_Z -> coq_Z -> coq_Z -> coq_Z -> coq_Z
  -> state outcome

val msg_stable_create :
  cfg -> state -> coq_Z -> coq_Z -> coq_Z -> coq_Z -> state outcome

val msg_stable_deposit :
  cfg -> state -> coq_Z -> coq_Z -> coq_Z -> coq_Z -> coq_Z -> state outcome

val msg_stable_withdraw :
  cfg -> state -> coq_Z -> coq_Z -> coq_Z -> coq_Z -> coq_Z -> state outcome

val msg_interest_calc :
  cfg -> state -> coq_Z -> coq_Z -> coq_Z -> state outcome

val donate : state -> coq_Z -> coq_Z -> coq_Z -> state outcome

type op =
| Create of coq_Z * coq_Z * coq_Z * coq_Z * coq_Z
| Deposit of coq_Z * coq_Z * coq_Z * coq_Z * coq_Z * coq_Z
| Withdraw of coq_Z * coq_Z * coq_Z * coq_Z * coq_Z * coq_Z
| Draw of coq_Z * coq_Z * coq_Z * coq_Z * coq_Z * coq_Z
| Repay of coq_Z * coq_Z * coq_Z * coq_Z * coq_Z * coq_Z
| Close of coq_Z * coq_Z * coq_Z * coq_Z * coq_Z
| DepositDraw of coq_Z * coq_Z * coq_Z * coq_Z * coq_Z * coq_Z * coq_Z
| StableCreate of coq_Z * coq_Z * coq_Z * coq_Z
| StableDeposit of coq_Z * coq_Z * coq_Z * coq_Z * coq_Z
| StableWithdraw of coq_Z * coq_Z * coq_Z * coq_Z * coq_Z
| InterestCalc of coq_Z * coq_Z * coq_Z
| Donate of coq_Z * coq_Z * coq_Z
| AdvanceTime of coq_Z
| SetPrice of coq_Z * coq_Z option
| SetEsm of coq_Z * bool * coq_Z * bool
| SetSnap of coq_Z * coq_Z * coq_Z option
| SetBreaker of coq_Z * bool

val run : cfg -> state -> op -> state outcome

val uow : cfg -> op -> state unit_of_work

val step : cfg -> state -> op -> state

val result_class : cfg -> state -> op -> coq_Z

val wsum : ('a1 -> coq_Z) -> 'a1 list -> coq_Z

val denom_in : cfg -> coq_Z -> coq_Z

val denom_out : cfg -> coq_Z -> coq_Z

val inprod : coq_Z -> coq_Z -> vault -> bool

val sinprod : coq_Z -> coq_Z -> svault -> bool

val coll_sum : cfg -> state -> coq_Z -> coq_Z

val debt_sum : cfg -> state -> coq_Z -> coq_Z

val prod_coll_sum : state -> coq_Z -> coq_Z -> coq_Z

val prod_mint_sum : state -> coq_Z -> coq_Z -> coq_Z

val prod_ids : state -> coq_Z -> coq_Z -> coq_Z list

val ascending : coq_Z list -> bool

val list_eqb : coq_Z list -> coq_Z list -> bool

val c01_custody : cfg -> state -> coq_Z -> bool

val c01_count : state -> bool

val c01_product : state -> coq_Z -> coq_Z -> bool

val holds_C01 : cfg -> coq_Z list -> state -> bool

val c02_backing : cfg -> (coq_Z -> coq_Z) -> state -> coq_Z -> bool

val holds_C02 : cfg -> (coq_Z -> coq_Z) -> coq_Z list -> state -> bool

val ddf_fee : epair -> coq_Z -> coq_Z

val mint_law : epair -> state -> state -> coq_Z -> coq_Z -> bool

val holds_C02_step : cfg -> state -> op -> state -> bool

val kf_C02_1 : cfg -> op -> bool

val kf_C01_1 : cfg -> op list -> bool

val cr_exact_ok :
  coq_Z -> coq_Z -> coq_Z -> coq_Z -> coq_Z -> coq_Z -> coq_Z -> bool

val out_price : state -> epair -> coq_Z option

val cr_ok : state -> epair -> coq_Z -> coq_Z -> bool

val price_required_missing : state -> epair -> bool

val c03_floor_ok : cfg -> state -> bool

val c03_ceiling_ok : cfg -> state -> bool

val holds_C03 : cfg -> state -> bool

val holds_C03_step : cfg -> state -> op -> bool -> state -> bool
