open BinInt
open BinNums
open Datatypes
open DecArith

val obindr : coq_Z option -> (coq_Z -> 'a1 option) -> 'a1 option

val utilisation : coq_Z -> coq_Z -> coq_Z option

val kink_apr : coq_Z -> coq_Z -> coq_Z -> coq_Z -> coq_Z -> coq_Z option

val lend_apr : coq_Z -> coq_Z -> coq_Z -> coq_Z option

val kf_C18_1 : coq_Z -> bool

val holds_C18_rate_base : coq_Z -> coq_Z -> coq_Z -> bool

val holds_C18_rate_monotone : coq_Z -> coq_Z -> coq_Z -> coq_Z -> bool

val holds_C18_rate_kink : coq_Z -> coq_Z -> coq_Z -> coq_Z -> bool

val holds_C18_lend_le_borrow : coq_Z -> coq_Z -> bool
