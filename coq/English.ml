open Base
open BinInt
open BinNums
open Datatypes
open DecArith
open FLedger
open List

type variant =
| V1S
| V1D
| V2S
| V2X
| V2D

(** val reverse : variant -> bool **)

let reverse = function
| V1D -> true
| V2D -> true
| _ -> false

(** val is_v1 : variant -> bool **)

let is_v1 = function
| V1S -> true
| V1D -> true
| _ -> false

(** val coq_MOD : coq_Z **)

let coq_MOD =
  Zneg Coq_xH

(** val coq_COLL : coq_Z **)

let coq_COLL =
  Zneg (Coq_xO Coq_xH)

(** val coq_EXT : coq_Z **)

let coq_EXT =
  Zneg (Coq_xI Coq_xH)

(** val coq_TM : coq_Z **)

let coq_TM =
  Zneg (Coq_xO (Coq_xO Coq_xH))

type auction = { var : variant; bid_denom : coq_Z; lot_denom : coq_Z;
                 sell : coq_Z; buy : coq_Z; bidder : coq_Z option;
                 bids : (coq_Z * coq_Z) list; bid_end : coq_Z; end_ : 
                 coq_Z; status : coq_Z; factor : coq_Z; dur : coq_Z;
                 bid_dur : coq_Z }

(** val set_bid :
    auction -> coq_Z -> coq_Z -> coq_Z -> coq_Z -> coq_Z -> auction **)

let set_bid a who amt now sell' buy' =
  let be =
    if is_v1 a.var
    then if Z.gtb (Z.add now a.bid_dur) a.end_
         then a.end_
         else Z.add now a.bid_dur
    else a.bid_end
  in
  { var = a.var; bid_denom = a.bid_denom; lot_denom = a.lot_denom; sell =
  sell'; buy = buy'; bidder = (Some who); bids = ((who, amt) :: a.bids);
  bid_end = be; end_ = a.end_; status = (Zpos Coq_xH); factor = a.factor;
  dur = a.dur; bid_dur = a.bid_dur }

(** val set_times : auction -> coq_Z -> coq_Z -> coq_Z -> auction **)

let set_times a buy' be e =
  { var = a.var; bid_denom = a.bid_denom; lot_denom = a.lot_denom; sell =
    a.sell; buy = buy'; bidder = a.bidder; bids = a.bids; bid_end = be;
    end_ = e; status = a.status; factor = a.factor; dur = a.dur; bid_dur =
    a.bid_dur }

(** val set_closed : auction -> auction **)

let set_closed a =
  { var = a.var; bid_denom = a.bid_denom; lot_denom = a.lot_denom; sell =
    a.sell; buy = a.buy; bidder = a.bidder; bids = a.bids; bid_end =
    a.bid_end; end_ = a.end_; status = (Zpos (Coq_xO Coq_xH)); factor =
    a.factor; dur = a.dur; bid_dur = a.bid_dur }

(** val change : coq_Z -> coq_Z -> coq_Z option **)

let change f x =
  match dmul_int_c f x with
  | Some p -> Some (dceil_int p)
  | None -> None

type state = auction * ledger

(** val err_u64 : coq_Z -> unit outcome **)

let err_u64 bound =
  match uint64_c bound with
  | Some _ -> Ok ()
  | None -> Panic

(** val lift : lres -> coq_Z -> (ledger -> state outcome) -> state outcome **)

let lift r code k =
  match r with
  | LOk l -> k l
  | LErr -> Err code
  | LPanic -> Panic

(** val refund_prev :
    auction -> ledger -> coq_Z -> (ledger -> state outcome) -> state outcome **)

let refund_prev a l code k =
  match a.bidder with
  | Some prev -> lift (send l coq_MOD prev a.bid_denom a.buy) code k
  | None -> k l

(** val bid_check :
    auction -> coq_Z -> coq_Z -> coq_Z -> coq_Z -> ((coq_Z * coq_Z) * coq_Z)
    outcome **)

let bid_check a denom amt xd xa =
  match a.var with
  | V1S ->
    if negb (Z.geb amt Z0)
    then Err (Zpos (Coq_xO (Coq_xO (Coq_xI (Coq_xO Coq_xH)))))
    else if negb (Z.eqb denom a.bid_denom)
         then Err (Zpos (Coq_xO Coq_xH))
         else if negb (Z.eqb a.status Z0)
              then (match change a.factor a.buy with
                    | Some c ->
                      if Z.ltb amt (Z.add a.buy c)
                      then Err (Zpos (Coq_xI Coq_xH))
                      else Ok ((amt, a.sell), amt)
                    | None -> Panic)
              else if Z.leb amt a.buy
                   then Err (Zpos (Coq_xO (Coq_xO Coq_xH)))
                   else Ok ((amt, a.sell), amt)
  | V1D ->
    if negb (Z.eqb xd a.bid_denom)
    then Err (Zpos (Coq_xO Coq_xH))
    else if negb (Z.eqb xa a.buy)
         then Err (Zpos (Coq_xI (Coq_xI Coq_xH)))
         else if negb (Z.eqb denom a.lot_denom)
              then Err (Zpos (Coq_xO (Coq_xO (Coq_xO Coq_xH))))
              else if negb (Z.eqb a.status Z0)
                   then (match change a.factor a.sell with
                         | Some c ->
                           if Z.gtb amt (Z.sub a.sell c)
                           then obind (err_u64 (Z.sub a.sell c)) (fun _ ->
                                  Err (Zpos (Coq_xI Coq_xH)))
                           else Ok ((xa, amt), a.buy)
                         | None -> Panic)
                   else if Z.gtb amt a.sell
                        then Err (Zpos (Coq_xO (Coq_xO Coq_xH)))
                        else Ok ((xa, amt), a.buy)
  | _ ->
    if Z.leb amt Z0
    then Err (Zpos (Coq_xO (Coq_xO (Coq_xI (Coq_xO Coq_xH)))))
    else let rev = reverse a.var in
         let last = if rev then a.sell else a.buy in
         let last_denom = if rev then a.lot_denom else a.bid_denom in
         let ok =
           if rev then Ok ((a.buy, amt), a.buy) else Ok ((amt, a.sell), amt)
         in
         if negb (Z.eqb denom last_denom)
         then Err (Zpos (Coq_xO Coq_xH))
         else (match a.bidder with
               | Some _ ->
                 (match change a.factor last with
                  | Some c ->
                    if rev
                    then if Z.gtb amt (Z.sub last c)
                         then obind (err_u64 (Z.sub last c)) (fun _ -> Err
                                (Zpos (Coq_xI Coq_xH)))
                         else ok
                    else if Z.ltb amt (Z.add last c)
                         then obind (err_u64 (Z.add last c)) (fun _ -> Err
                                (Zpos (Coq_xI Coq_xH)))
                         else ok
                  | None -> Panic)
               | None ->
                 if rev
                 then if Z.gtb amt last
                      then Err (Zpos (Coq_xO (Coq_xO Coq_xH)))
                      else ok
                 else if Z.ltb amt last
                      then Err (Zpos (Coq_xO (Coq_xO Coq_xH)))
                      else ok)

(** val settle :
    auction -> ledger -> coq_Z -> coq_Z -> coq_Z -> coq_Z -> coq_Z -> coq_Z
    -> state outcome **)

let settle a l who amt now pay sell' buy' =
  lift (send l who coq_MOD a.bid_denom pay) (Zpos (Coq_xI (Coq_xO Coq_xH)))
    (fun l1 ->
    refund_prev a l1 (Zpos (Coq_xO (Coq_xI Coq_xH))) (fun l2 -> Ok
      ((set_bid a who amt now sell' buy'), l2)))

(** val bid :
    auction -> ledger -> coq_Z -> coq_Z -> coq_Z -> coq_Z -> coq_Z -> coq_Z
    -> state outcome **)

let bid a l who denom amt now xd xa =
  if Z.eqb a.status (Zpos (Coq_xO Coq_xH))
  then Err (Zpos Coq_xH)
  else (match bid_check a denom amt xd xa with
        | Ok a0 ->
          let (p, buy') = a0 in
          let (pay, sell') = p in settle a l who amt now pay sell' buy'
        | Err c -> Err c
        | Panic -> Panic)

(** val close : auction -> ledger -> coq_Z -> bool -> state outcome **)

let close a l w tm_ok =
  match a.var with
  | V1S ->
    lift (send l coq_MOD w a.lot_denom a.sell) (Zpos (Coq_xO (Coq_xI (Coq_xO
      Coq_xH)))) (fun l1 ->
      lift (send l1 coq_MOD coq_TM a.bid_denom a.buy) (Zpos (Coq_xI (Coq_xI
        (Coq_xO Coq_xH)))) (fun l2 ->
        if negb tm_ok
        then Err (Zpos (Coq_xO (Coq_xO (Coq_xI Coq_xH))))
        else lift (burn_from l2 coq_TM a.bid_denom a.buy) (Zpos (Coq_xI
               (Coq_xI (Coq_xO Coq_xH)))) (fun l3 -> Ok ((set_closed a), l3))))
  | V2S ->
    lift (send l coq_COLL coq_MOD a.lot_denom a.sell) (Zpos (Coq_xO (Coq_xI
      (Coq_xI Coq_xH)))) (fun l1 ->
      lift (send l1 coq_MOD w a.lot_denom a.sell) (Zpos (Coq_xO (Coq_xI
        (Coq_xO Coq_xH)))) (fun l2 ->
        lift (send l2 coq_MOD coq_TM a.bid_denom a.buy) (Zpos (Coq_xI (Coq_xI
          (Coq_xO Coq_xH)))) (fun l3 ->
          if negb tm_ok
          then Err (Zpos (Coq_xO (Coq_xO (Coq_xI Coq_xH))))
          else lift (burn_from l3 coq_TM a.bid_denom a.buy) (Zpos (Coq_xI
                 (Coq_xI (Coq_xO Coq_xH)))) (fun l4 -> Ok ((set_closed a),
                 l4)))))
  | V2X ->
    lift (send l coq_MOD w a.lot_denom a.sell) (Zpos (Coq_xO (Coq_xI (Coq_xO
      Coq_xH)))) (fun l1 ->
      lift (send l1 coq_MOD coq_EXT a.bid_denom a.buy) (Zpos (Coq_xI (Coq_xO
        (Coq_xI Coq_xH)))) (fun l2 -> Ok ((set_closed a), l2)))
  | _ ->
    if negb tm_ok
    then Err (Zpos (Coq_xO (Coq_xO (Coq_xI Coq_xH))))
    else let l1 =
           if Z.gtb a.sell Z0 then mint_to l w a.lot_denom a.sell else l
         in
         lift (send l1 coq_MOD coq_COLL a.bid_denom a.buy) (Zpos (Coq_xI
           (Coq_xO (Coq_xI Coq_xH)))) (fun l2 -> Ok ((set_closed a), l2))

(** val restart : auction -> coq_Z -> auction **)

let restart a now =
  match a.var with
  | V1S -> set_times a Z0 (Z.add now a.dur) (Z.add now a.dur)
  | V1D -> set_times a a.buy (Z.add now a.dur) (Z.add now a.dur)
  | _ -> set_times a a.buy a.bid_end (Z.add now a.dur)

(** val tick : auction -> ledger -> coq_Z -> bool -> state outcome **)

let tick a l now tm_ok =
  if Z.eqb a.status (Zpos (Coq_xO Coq_xH))
  then Ok (a, l)
  else let due =
         if is_v1 a.var
         then (||) (Z.gtb now a.end_) (Z.gtb now a.bid_end)
         else Z.gtb now a.end_
       in
       if negb due
       then Ok (a, l)
       else (match a.bidder with
             | Some w -> close a l w tm_ok
             | None -> Ok ((restart a now), l))

type op =
| Bid of coq_Z * coq_Z * coq_Z * coq_Z * coq_Z * coq_Z
| Tick of coq_Z * bool

(** val step : state -> op -> state outcome **)

let step s = function
| Bid (who, denom, amt, now, xd, xa) ->
  bid (fst s) (snd s) who denom amt now xd xa
| Tick (now, tm_ok) -> tick (fst s) (snd s) now tm_ok

(** val apply_op : state -> op -> state **)

let apply_op s o =
  match step s o with
  | Ok s' -> s'
  | _ -> s

(** val run : state -> op list -> state **)

let run s ops =
  fold_left apply_op ops s

(** val init :
    variant -> coq_Z -> coq_Z -> coq_Z -> coq_Z -> coq_Z -> coq_Z -> coq_Z ->
    coq_Z -> auction **)

let init v bd ld lot start_buy now fac d bd_s =
  { var = v; bid_denom = bd; lot_denom = ld; sell = lot; buy = start_buy;
    bidder = None; bids = []; bid_end = (Z.add now d); end_ = (Z.add now d);
    status = Z0; factor = fac; dur = d; bid_dur = bd_s }

(** val held : auction -> coq_Z **)

let held a =
  if Z.eqb a.status (Zpos (Coq_xO Coq_xH))
  then Z0
  else (match a.bidder with
        | Some _ -> a.buy
        | None -> Z0)

(** val holds_C11_custody : auction -> coq_Z -> coq_Z -> bool **)

let holds_C11_custody a mod_bal0 mod_bal =
  Z.eqb (Z.sub mod_bal mod_bal0) (held a)

(** val holds_C11_improves : auction -> coq_Z -> bool **)

let holds_C11_improves pre amt =
  match pre.bidder with
  | Some _ ->
    let last = if reverse pre.var then pre.sell else pre.buy in
    (match change pre.factor last with
     | Some c ->
       if reverse pre.var
       then Z.leb amt (Z.sub last c)
       else Z.geb amt (Z.add last c)
     | None -> false)
  | None -> true

(** val holds_C11_refund :
    auction -> coq_Z -> coq_Z -> coq_Z -> coq_Z -> bool **)

let holds_C11_refund pre who paid prev_before prev_after =
  match pre.bidder with
  | Some p ->
    if Z.eqb p who
    then Z.eqb prev_after (Z.sub (Z.add prev_before pre.buy) paid)
    else Z.eqb prev_after (Z.add prev_before pre.buy)
  | None -> true

(** val holds_C11_winner :
    auction -> coq_Z -> coq_Z -> coq_Z -> coq_Z -> coq_Z -> bool **)

let holds_C11_winner a acct bid0 lot0 bid1 lot1 =
  match a.bidder with
  | Some w ->
    (match a.bids with
     | [] -> false
     | p :: _ ->
       let (w', _) = p in
       (&&) (Z.eqb w w')
         (if Z.eqb acct w
          then (&&) (Z.eqb bid1 (Z.sub bid0 a.buy))
                 (Z.eqb lot1 (Z.add lot0 (Z.max Z0 a.sell)))
          else (&&) (Z.eqb bid1 bid0) (Z.eqb lot1 lot0)))
  | None -> false

(** val holds_C11_open :
    auction -> coq_Z -> coq_Z -> coq_Z -> coq_Z -> coq_Z -> bool **)

let holds_C11_open a acct bid0 lot0 bid1 lot1 =
  (&&) (Z.eqb lot1 lot0)
    (match a.bidder with
     | Some w ->
       if Z.eqb acct w then Z.eqb bid1 (Z.sub bid0 a.buy) else Z.eqb bid1 bid0
     | None -> Z.eqb bid1 bid0)
