open BinNums

type 'store run_result =
| RunOk of 'store
| RunErr of 'store * coq_Z
| RunPanic of 'store
