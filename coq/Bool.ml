
(** val eqb : bool -> bool -> bool **)

let eqb b1 b2 =
  if b1 then b2 else if b2 then false else true
