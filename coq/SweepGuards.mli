open Ascii
open Guards
open String

val sweep_table : sweep_row list
