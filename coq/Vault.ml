open Atomic
open Base
open BinInt
open BinNums
open Datatypes
open DecArith
open List

(** val coq_VAULT : coq_Z **)

let coq_VAULT =
  Z0

(** val coq_COLL : coq_Z **)

let coq_COLL =
  Zpos Coq_xH

(** val coq_E_ESM : coq_Z **)

let coq_E_ESM =
  Zpos Coq_xH

(** val coq_E_BREAKER : coq_Z **)

let coq_E_BREAKER =
  Zpos (Coq_xO Coq_xH)

(** val coq_E_NOTFOUND : coq_Z **)

let coq_E_NOTFOUND =
  Zpos (Coq_xI Coq_xH)

(** val coq_E_MISMATCH : coq_Z **)

let coq_E_MISMATCH =
  Zpos (Coq_xO (Coq_xO Coq_xH))

(** val coq_E_UNAUTH : coq_Z **)

let coq_E_UNAUTH =
  Zpos (Coq_xI (Coq_xO Coq_xH))

(** val coq_E_INVALID : coq_Z **)

let coq_E_INVALID =
  Zpos (Coq_xO (Coq_xI Coq_xH))

(** val coq_E_FLOOR : coq_Z **)

let coq_E_FLOOR =
  Zpos (Coq_xI (Coq_xI Coq_xH))

(** val coq_E_CEIL : coq_Z **)

let coq_E_CEIL =
  Zpos (Coq_xO (Coq_xO (Coq_xO Coq_xH)))

(** val coq_E_CR : coq_Z **)

let coq_E_CR =
  Zpos (Coq_xI (Coq_xO (Coq_xO Coq_xH)))

(** val coq_E_PRICE : coq_Z **)

let coq_E_PRICE =
  Zpos (Coq_xO (Coq_xI (Coq_xO Coq_xH)))

(** val coq_E_FUNDS : coq_Z **)

let coq_E_FUNDS =
  Zpos (Coq_xI (Coq_xI (Coq_xO Coq_xH)))

(** val coq_E_STATE : coq_Z **)

let coq_E_STATE =
  Zpos (Coq_xO (Coq_xO (Coq_xI Coq_xH)))

(** val coq_E_INTEREST : coq_Z **)

let coq_E_INTEREST =
  Zpos (Coq_xI (Coq_xO (Coq_xI Coq_xH)))

type epair = { ep_id : coq_Z; ep_app : coq_Z; ep_in : coq_Z; ep_out : 
               coq_Z; ep_dec_in : coq_Z; ep_dec_out : coq_Z; ep_stab : 
               coq_Z; ep_closing : coq_Z; ep_ddf : coq_Z; ep_min_cr : 
               coq_Z; ep_floor : coq_Z; ep_ceiling : coq_Z; ep_stable : 
               bool; ep_active : bool; ep_oracle_out : bool;
               ep_out_price : coq_Z }

type cfg = { apps : coq_Z list; epairs : epair list }

(** val get_ep : cfg -> coq_Z -> epair option **)

let get_ep c id =
  find (fun e -> Z.eqb e.ep_id id) c.epairs

(** val app_exists : cfg -> coq_Z -> bool **)

let app_exists c a =
  existsb (Z.eqb a) c.apps

type vault = { v_id : coq_Z; v_owner : coq_Z; v_app : coq_Z; v_pair : 
               coq_Z; v_in : coq_Z; v_out : coq_Z; v_int : coq_Z;
               v_fee : coq_Z }

type svault = { sv_id : coq_Z; sv_app : coq_Z; sv_pair : coq_Z;
                sv_in : coq_Z; sv_out : coq_Z }

type prod = { p_coll : coq_Z; p_mint : coq_Z; p_ids : coq_Z list }

type esm_rec = { e_status : bool; e_end : coq_Z; e_snap : bool }

(** val esm0 : esm_rec **)

let esm0 =
  { e_status = false; e_end = Z0; e_snap = false }

type state = { vaults : vault list; svaults : svault list;
               prods : (coq_Z -> coq_Z -> prod option);
               umap : (coq_Z -> coq_Z -> coq_Z -> coq_Z option);
               vlen : coq_Z; vid : coq_Z; sid : coq_Z;
               bal : (coq_Z -> coq_Z -> coq_Z); sup : (coq_Z -> coq_Z);
               now : coq_Z; price : (coq_Z -> coq_Z option);
               esm : (coq_Z -> esm_rec);
               snap : (coq_Z -> coq_Z -> coq_Z option);
               brk : (coq_Z -> bool); unsol : (coq_Z -> coq_Z) }

(** val set_vaults : state -> vault list -> state **)

let set_vaults s x =
  { vaults = x; svaults = s.svaults; prods = s.prods; umap = s.umap; vlen =
    s.vlen; vid = s.vid; sid = s.sid; bal = s.bal; sup = s.sup; now = s.now;
    price = s.price; esm = s.esm; snap = s.snap; brk = s.brk; unsol =
    s.unsol }

(** val set_svaults : state -> svault list -> state **)

let set_svaults s x =
  { vaults = s.vaults; svaults = x; prods = s.prods; umap = s.umap; vlen =
    s.vlen; vid = s.vid; sid = s.sid; bal = s.bal; sup = s.sup; now = s.now;
    price = s.price; esm = s.esm; snap = s.snap; brk = s.brk; unsol =
    s.unsol }

(** val set_prods : state -> (coq_Z -> coq_Z -> prod option) -> state **)

let set_prods s x =
  { vaults = s.vaults; svaults = s.svaults; prods = x; umap = s.umap; vlen =
    s.vlen; vid = s.vid; sid = s.sid; bal = s.bal; sup = s.sup; now = s.now;
    price = s.price; esm = s.esm; snap = s.snap; brk = s.brk; unsol =
    s.unsol }

(** val set_umap :
    state -> (coq_Z -> coq_Z -> coq_Z -> coq_Z option) -> state **)

let set_umap s x =
  { vaults = s.vaults; svaults = s.svaults; prods = s.prods; umap = x; vlen =
    s.vlen; vid = s.vid; sid = s.sid; bal = s.bal; sup = s.sup; now = s.now;
    price = s.price; esm = s.esm; snap = s.snap; brk = s.brk; unsol =
    s.unsol }

(** val set_vlen : state -> coq_Z -> state **)

let set_vlen s x =
  { vaults = s.vaults; svaults = s.svaults; prods = s.prods; umap = s.umap;
    vlen = x; vid = s.vid; sid = s.sid; bal = s.bal; sup = s.sup; now =
    s.now; price = s.price; esm = s.esm; snap = s.snap; brk = s.brk; unsol =
    s.unsol }

(** val set_vid : state -> coq_Z -> state **)

let set_vid s x =
  { vaults = s.vaults; svaults = s.svaults; prods = s.prods; umap = s.umap;
    vlen = s.vlen; vid = x; sid = s.sid; bal = s.bal; sup = s.sup; now =
    s.now; price = s.price; esm = s.esm; snap = s.snap; brk = s.brk; unsol =
    s.unsol }

(** val set_sid : state -> coq_Z -> state **)

let set_sid s x =
  { vaults = s.vaults; svaults = s.svaults; prods = s.prods; umap = s.umap;
    vlen = s.vlen; vid = s.vid; sid = x; bal = s.bal; sup = s.sup; now =
    s.now; price = s.price; esm = s.esm; snap = s.snap; brk = s.brk; unsol =
    s.unsol }

(** val set_bal : state -> (coq_Z -> coq_Z -> coq_Z) -> state **)

let set_bal s x =
  { vaults = s.vaults; svaults = s.svaults; prods = s.prods; umap = s.umap;
    vlen = s.vlen; vid = s.vid; sid = s.sid; bal = x; sup = s.sup; now =
    s.now; price = s.price; esm = s.esm; snap = s.snap; brk = s.brk; unsol =
    s.unsol }

(** val set_sup : state -> (coq_Z -> coq_Z) -> state **)

let set_sup s x =
  { vaults = s.vaults; svaults = s.svaults; prods = s.prods; umap = s.umap;
    vlen = s.vlen; vid = s.vid; sid = s.sid; bal = s.bal; sup = x; now =
    s.now; price = s.price; esm = s.esm; snap = s.snap; brk = s.brk; unsol =
    s.unsol }

(** val set_now : state -> coq_Z -> state **)

let set_now s x =
  { vaults = s.vaults; svaults = s.svaults; prods = s.prods; umap = s.umap;
    vlen = s.vlen; vid = s.vid; sid = s.sid; bal = s.bal; sup = s.sup; now =
    x; price = s.price; esm = s.esm; snap = s.snap; brk = s.brk; unsol =
    s.unsol }

(** val set_price : state -> (coq_Z -> coq_Z option) -> state **)

let set_price s x =
  { vaults = s.vaults; svaults = s.svaults; prods = s.prods; umap = s.umap;
    vlen = s.vlen; vid = s.vid; sid = s.sid; bal = s.bal; sup = s.sup; now =
    s.now; price = x; esm = s.esm; snap = s.snap; brk = s.brk; unsol =
    s.unsol }

(** val set_esm : state -> (coq_Z -> esm_rec) -> state **)

let set_esm s x =
  { vaults = s.vaults; svaults = s.svaults; prods = s.prods; umap = s.umap;
    vlen = s.vlen; vid = s.vid; sid = s.sid; bal = s.bal; sup = s.sup; now =
    s.now; price = s.price; esm = x; snap = s.snap; brk = s.brk; unsol =
    s.unsol }

(** val set_snap : state -> (coq_Z -> coq_Z -> coq_Z option) -> state **)

let set_snap s x =
  { vaults = s.vaults; svaults = s.svaults; prods = s.prods; umap = s.umap;
    vlen = s.vlen; vid = s.vid; sid = s.sid; bal = s.bal; sup = s.sup; now =
    s.now; price = s.price; esm = s.esm; snap = x; brk = s.brk; unsol =
    s.unsol }

(** val set_brk : state -> (coq_Z -> bool) -> state **)

let set_brk s x =
  { vaults = s.vaults; svaults = s.svaults; prods = s.prods; umap = s.umap;
    vlen = s.vlen; vid = s.vid; sid = s.sid; bal = s.bal; sup = s.sup; now =
    s.now; price = s.price; esm = s.esm; snap = s.snap; brk = x; unsol =
    s.unsol }

(** val set_unsol : state -> (coq_Z -> coq_Z) -> state **)

let set_unsol s x =
  { vaults = s.vaults; svaults = s.svaults; prods = s.prods; umap = s.umap;
    vlen = s.vlen; vid = s.vid; sid = s.sid; bal = s.bal; sup = s.sup; now =
    s.now; price = s.price; esm = s.esm; snap = s.snap; brk = s.brk; unsol =
    x }

(** val init :
    (coq_Z -> coq_Z -> coq_Z) -> (coq_Z -> coq_Z) -> coq_Z -> (coq_Z -> coq_Z
    option) -> state **)

let init b sp t pr =
  { vaults = []; svaults = []; prods = (fun _ _ -> None); umap =
    (fun _ _ _ -> None); vlen = Z0; vid = Z0; sid = Z0; bal = b; sup = sp;
    now = t; price = pr; esm = (fun _ -> esm0); snap = (fun _ _ -> None);
    brk = (fun _ -> false); unsol = (fun _ -> Z0) }

(** val upd1 : (coq_Z -> 'a1) -> coq_Z -> 'a1 -> coq_Z -> 'a1 **)

let upd1 f k v x =
  if Z.eqb x k then v else f x

(** val upd2 :
    (coq_Z -> coq_Z -> 'a1) -> coq_Z -> coq_Z -> 'a1 -> coq_Z -> coq_Z -> 'a1 **)

let upd2 f k1 k2 v x y =
  if (&&) (Z.eqb x k1) (Z.eqb y k2) then v else f x y

(** val upd3 :
    (coq_Z -> coq_Z -> coq_Z -> 'a1) -> coq_Z -> coq_Z -> coq_Z -> 'a1 ->
    coq_Z -> coq_Z -> coq_Z -> 'a1 **)

let upd3 f k1 k2 k3 v x y z =
  if (&&) ((&&) (Z.eqb x k1) (Z.eqb y k2)) (Z.eqb z k3) then v else f x y z

(** val find_v : vault list -> coq_Z -> vault option **)

let rec find_v l id =
  match l with
  | [] -> None
  | v :: r -> if Z.eqb v.v_id id then Some v else find_v r id

(** val put_v : vault list -> vault -> vault list **)

let rec put_v l v =
  match l with
  | [] -> v :: []
  | w :: r -> if Z.eqb w.v_id v.v_id then v :: r else w :: (put_v r v)

(** val del_v : vault list -> coq_Z -> vault list **)

let rec del_v l id =
  match l with
  | [] -> []
  | w :: r -> if Z.eqb w.v_id id then r else w :: (del_v r id)

(** val find_sv : svault list -> coq_Z -> svault option **)

let rec find_sv l id =
  match l with
  | [] -> None
  | v :: r -> if Z.eqb v.sv_id id then Some v else find_sv r id

(** val put_sv : svault list -> svault -> svault list **)

let rec put_sv l v =
  match l with
  | [] -> v :: []
  | w :: r -> if Z.eqb w.sv_id v.sv_id then v :: r else w :: (put_sv r v)

(** val send : state -> coq_Z -> coq_Z -> coq_Z -> coq_Z -> state outcome **)

let send s from to0 d amt =
  if Z.ltb amt Z0
  then Panic
  else if Z.eqb amt Z0
       then Ok s
       else if Z.ltb (s.bal from d) amt
            then Err coq_E_FUNDS
            else let b1 = upd2 s.bal from d (Z.sub (s.bal from d) amt) in
                 Ok (set_bal s (upd2 b1 to0 d (Z.add (b1 to0 d) amt)))

(** val mint : state -> coq_Z -> coq_Z -> state outcome **)

let mint s d amt =
  if Z.ltb amt Z0
  then Panic
  else Ok
         (set_sup
           (set_bal s
             (upd2 s.bal coq_VAULT d (Z.add (s.bal coq_VAULT d) amt)))
           (upd1 s.sup d (Z.add (s.sup d) amt)))

(** val burn : state -> coq_Z -> coq_Z -> state outcome **)

let burn s d amt =
  if Z.ltb amt Z0
  then Panic
  else if Z.ltb (s.bal coq_VAULT d) amt
       then Err coq_E_FUNDS
       else Ok
              (set_sup
                (set_bal s
                  (upd2 s.bal coq_VAULT d (Z.sub (s.bal coq_VAULT d) amt)))
                (upd1 s.sup d (Z.sub (s.sup d) amt)))

(** val update_collector : state -> coq_Z -> state outcome **)

let update_collector s fee =
  if Z.ltb fee Z0 then Err coq_E_INVALID else Ok s

(** val prod0 : prod **)

let prod0 =
  { p_coll = Z0; p_mint = Z0; p_ids = [] }

(** val ensure_prod : state -> coq_Z -> coq_Z -> state **)

let ensure_prod s app0 pair =
  match s.prods app0 pair with
  | Some _ -> s
  | None -> set_prods s (upd2 s.prods app0 pair (Some prod0))

(** val prod_mint : state -> coq_Z -> coq_Z -> coq_Z **)

let prod_mint s app0 pair =
  match s.prods app0 pair with
  | Some p -> p.p_mint
  | None -> Z0

(** val prod_nids : state -> coq_Z -> coq_Z -> coq_Z **)

let prod_nids s app0 pair =
  match s.prods app0 pair with
  | Some p -> zlen p.p_ids
  | None -> Z0

(** val prod_on_create :
    state -> coq_Z -> coq_Z -> coq_Z -> coq_Z -> coq_Z -> state **)

let prod_on_create s app0 pair ain aout id =
  let p = match s.prods app0 pair with
          | Some p -> p
          | None -> prod0 in
  set_prods s
    (upd2 s.prods app0 pair (Some { p_coll = (Z.add p.p_coll ain); p_mint =
      (Z.add p.p_mint aout); p_ids = (app p.p_ids (id :: [])) }))

(** val upd_coll : state -> coq_Z -> coq_Z -> coq_Z -> bool -> state **)

let upd_coll s app0 pair amt add0 =
  match s.prods app0 pair with
  | Some p ->
    set_prods s
      (upd2 s.prods app0 pair (Some { p_coll =
        (if add0 then Z.add p.p_coll amt else Z.sub p.p_coll amt); p_mint =
        p.p_mint; p_ids = p.p_ids }))
  | None -> s

(** val upd_mint : state -> coq_Z -> coq_Z -> coq_Z -> bool -> state **)

let upd_mint s app0 pair amt add0 =
  match s.prods app0 pair with
  | Some p ->
    set_prods s
      (upd2 s.prods app0 pair (Some { p_coll = p.p_coll; p_mint =
        (if add0 then Z.add p.p_mint amt else Z.sub p.p_mint amt); p_ids =
        p.p_ids }))
  | None -> s

(** val bsearch : nat -> coq_Z list -> coq_Z -> coq_Z -> coq_Z -> coq_Z **)

let rec bsearch fuel l v i j =
  match fuel with
  | O -> i
  | S f ->
    if Z.ltb i j
    then let h = Z.div (Z.add i j) (Zpos (Coq_xO Coq_xH)) in
         (match nth_z l (Z.to_nat h) with
          | Some x ->
            if Z.geb x v
            then bsearch f l v i h
            else bsearch f l v (Z.add h (Zpos Coq_xH)) j
          | None -> i)
    else i

(** val del_id : coq_Z list -> coq_Z -> coq_Z list **)

let del_id l v =
  let n = zlen l in
  let k = bsearch (S (length l)) l v Z0 n in
  if (&&) (Z.ltb k n)
       (match nth_z l (Z.to_nat k) with
        | Some x -> Z.eqb x v
        | None -> false)
  then app (firstn (Z.to_nat k) l) (skipn (S (Z.to_nat k)) l)
  else l

(** val prod_del_id : state -> coq_Z -> coq_Z -> coq_Z -> state **)

let prod_del_id s app0 pair id =
  match s.prods app0 pair with
  | Some p ->
    set_prods s
      (upd2 s.prods app0 pair (Some { p_coll = p.p_coll; p_mint = p.p_mint;
        p_ids = (del_id p.p_ids id) }))
  | None -> s

(** val total_value : coq_Z -> coq_Z -> coq_Z -> coq_Z outcome **)

let total_value amt p dec =
  match dmul_c (dec_of_int amt) (dec_of_int p) with
  | Some n ->
    (match dquo_c n (dec_of_int dec) with
     | Some q -> Ok q
     | None -> Panic)
  | None -> Panic

(** val calc_asset_price :
    state -> coq_Z -> coq_Z -> coq_Z -> coq_Z outcome **)

let calc_asset_price s asset dec amt =
  match s.price asset with
  | Some twa -> total_value amt twa dec
  | None -> Err coq_E_PRICE

(** val calc_cr : state -> epair -> coq_Z -> coq_Z -> coq_Z outcome **)

let calc_cr s ep ain aout =
  let e = s.esm ep.ep_app in
  let st = e.e_status in
  obind
    (if (&&) st e.e_snap
     then (match s.snap ep.ep_app ep.ep_in with
           | Some p ->
             obind (total_value ain p ep.ep_dec_in) (fun x -> Ok (Some x))
           | None -> Err coq_E_PRICE)
     else if negb st
          then obind (calc_asset_price s ep.ep_in ep.ep_dec_in ain) (fun x ->
                 Ok (Some x))
          else Ok None) (fun in_total ->
    obind
      (if ep.ep_oracle_out
       then if (&&) st e.e_snap
            then (match s.snap ep.ep_app ep.ep_out with
                  | Some p -> total_value aout p ep.ep_dec_out
                  | None -> Err coq_E_PRICE)
            else calc_asset_price s ep.ep_out ep.ep_dec_out aout
       else total_value aout ep.ep_out_price ep.ep_dec_out) (fun out_total ->
      match in_total with
      | Some it ->
        if Z.leb it Z0
        then Err coq_E_INVALID
        else if Z.leb out_total Z0
             then Err coq_E_INVALID
             else (match dquo_c it out_total with
                   | Some r -> Ok r
                   | None -> Panic)
      | None -> Panic))

(** val verify_cr :
    state -> epair -> coq_Z -> coq_Z -> bool -> unit outcome **)

let verify_cr s ep ain aout status =
  obind (calc_cr s ep ain aout) (fun r ->
    if (&&) (Z.ltb r ep.ep_min_cr) (negb status)
    then Err coq_E_CR
    else if (&&) (Z.ltb r coq_P18) status then Err coq_E_CR else Ok ())

(** val other_token_gen :
    coq_Z -> coq_Z -> coq_Z -> coq_Z -> coq_Z -> coq_Z option **)

let other_token_gen dec1 rate1 amt dec2 rate2 =
  match dmul_c (dec_of_int amt) rate1 with
  | Some num ->
    (match dquo_c num (dec_of_int dec1) with
     | Some t1 ->
       (match dquo_c t1 rate2 with
        | Some na ->
          (match dmul_c na (dec_of_int dec2) with
           | Some tok -> dtrunc_int_c tok
           | None -> None)
        | None -> None)
     | None -> None)
  | None -> None

(** val other_token : coq_Z -> coq_Z -> coq_Z -> coq_Z option **)

let other_token dec1 amt dec2 =
  other_token_gen dec1 coq_P18 amt dec2 coq_P18

(** val fee_share : coq_Z -> coq_Z -> coq_Z option **)

let fee_share x fee =
  match dmul_c (dec_of_int x) fee with
  | Some m -> dtrunc_int_c m
  | None -> None

(** val pay_out :
    state -> coq_Z -> coq_Z -> coq_Z -> coq_Z -> state outcome **)

let pay_out s from out_denom x fee =
  match fee_share x fee with
  | Some share ->
    obind
      (if Z.gtb share Z0
       then obind (send s coq_VAULT coq_COLL out_denom share) (fun s1 ->
              update_collector s1 share)
       else Ok s) (fun s2 ->
      let to_user = Z.sub x share in
      if Z.gtb to_user Z0
      then send s2 coq_VAULT from out_denom to_user
      else Ok s2)
  | None -> Panic

(** val with_int : vault -> coq_Z -> vault **)

let with_int v x =
  { v_id = v.v_id; v_owner = v.v_owner; v_app = v.v_app; v_pair = v.v_pair;
    v_in = v.v_in; v_out = v.v_out; v_int = x; v_fee = v.v_fee }

(** val with_in : vault -> coq_Z -> vault **)

let with_in v x =
  { v_id = v.v_id; v_owner = v.v_owner; v_app = v.v_app; v_pair = v.v_pair;
    v_in = x; v_out = v.v_out; v_int = v.v_int; v_fee = v.v_fee }

(** val with_out : vault -> coq_Z -> vault **)

let with_out v x =
  { v_id = v.v_id; v_owner = v.v_owner; v_app = v.v_app; v_pair = v.v_pair;
    v_in = v.v_in; v_out = x; v_int = v.v_int; v_fee = v.v_fee }

(** val accrue : state -> coq_Z -> coq_Z -> state outcome **)

let accrue s id ienv =
  if Z.eqb ienv (Zneg (Coq_xO Coq_xH))
  then Panic
  else if Z.ltb ienv Z0
       then Err coq_E_INTEREST
       else (match find_v s.vaults id with
             | Some v ->
               Ok
                 (set_vaults s
                   (put_v s.vaults (with_int v (Z.add v.v_int ienv))))
             | None -> Ok s)

(** val create_h :
    cfg -> state -> coq_Z -> coq_Z -> coq_Z -> coq_Z -> coq_Z -> state outcome **)

let create_h c s from app0 epid ain aout =
  let status = (s.esm app0).e_status in
  if status
  then Err coq_E_ESM
  else if s.brk app0
       then Err coq_E_BREAKER
       else (match get_ep c epid with
             | Some ep ->
               if negb (app_exists c app0)
               then Err coq_E_NOTFOUND
               else if negb (Z.eqb app0 ep.ep_app)
                    then Err coq_E_MISMATCH
                    else if ep.ep_stable
                         then Err coq_E_STATE
                         else if negb ep.ep_active
                              then Err coq_E_STATE
                              else (match s.umap from app0 epid with
                                    | Some _ -> Err coq_E_STATE
                                    | None ->
                                      let s1 = ensure_prod s app0 epid in
                                      let minted = prod_mint s1 app0 epid in
                                      if negb (Z.geb aout ep.ep_floor)
                                      then Err coq_E_FLOOR
                                      else if Z.gtb (Z.add minted aout)
                                                ep.ep_ceiling
                                           then Err coq_E_CEIL
                                           else obind
                                                  (verify_cr s1 ep ain aout
                                                    status) (fun _ ->
                                                  obind
                                                    (if Z.gtb ain Z0
                                                     then send s1 from
                                                            coq_VAULT
                                                            ep.ep_in ain
                                                     else Ok s1) (fun s2 ->
                                                    if Z.eqb aout Z0
                                                    then Err coq_E_INVALID
                                                    else obind
                                                           (mint s2 ep.ep_out
                                                             aout) (fun s3 ->
                                                           obind
                                                             (if (&&)
                                                                   (Z.eqb
                                                                    ep.ep_ddf
                                                                    Z0)
                                                                   (Z.gtb
                                                                    aout Z0)
                                                              then send s3
                                                                    coq_VAULT
                                                                    from
                                                                    ep.ep_out
                                                                    aout
                                                              else pay_out s3
                                                                    from
                                                                    ep.ep_out
                                                                    aout
                                                                    ep.ep_ddf)
                                                             (fun s4 ->
                                                             match int64_c
                                                                    aout with
                                                             | Some a64 ->
                                                               (match 
                                                                fee_share a64
                                                                  ep.ep_closing with
                                                                | Some closing ->
                                                                  let id =
                                                                    Z.add
                                                                    s4.vid
                                                                    (Zpos
                                                                    Coq_xH)
                                                                  in
                                                                  let nv =
                                                                    { v_id =
                                                                    id;
                                                                    v_owner =
                                                                    from;
                                                                    v_app =
                                                                    app0;
                                                                    v_pair =
                                                                    epid;
                                                                    v_in =
                                                                    ain;
                                                                    v_out =
                                                                    aout;
                                                                    v_int =
                                                                    Z0;
                                                                    v_fee =
                                                                    closing }
                                                                  in
                                                                  let s5 =
                                                                    set_vaults
                                                                    s4
                                                                    (put_v
                                                                    s4.vaults
                                                                    nv)
                                                                  in
                                                                  let s6 =
                                                                    set_vid
                                                                    s5 id
                                                                  in
                                                                  let s7 =
                                                                    set_vlen
                                                                    s6
                                                                    (Z.add
                                                                    s6.vlen
                                                                    (Zpos
                                                                    Coq_xH))
                                                                  in
                                                                  let s8 =
                                                                    prod_on_create
                                                                    s7 app0
                                                                    epid ain
                                                                    aout id
                                                                  in
                                                                  Ok
                                                                  (set_umap
                                                                    s8
                                                                    (upd3
                                                                    s8.umap
                                                                    from app0
                                                                    epid
                                                                    (Some id)))
                                                                | None ->
                                                                  Panic)
                                                             | None -> Panic)))))
             | None -> Err coq_E_NOTFOUND)

(** val msg_create :
    cfg -> state -> coq_Z -> coq_Z -> coq_Z -> coq_Z -> coq_Z -> state outcome **)

let msg_create c s from app0 epid ain aout =
  if Z.leb ain Z0
  then Err coq_E_INVALID
  else if Z.leb aout Z0
       then Err coq_E_INVALID
       else create_h c s from app0 epid ain aout

(** val deposit_h :
    cfg -> state -> coq_Z -> coq_Z -> coq_Z -> coq_Z -> coq_Z -> coq_Z ->
    state outcome **)

let deposit_h c s from app0 epid id amt ienv =
  if (s.esm app0).e_status
  then Err coq_E_ESM
  else if s.brk app0
       then Err coq_E_BREAKER
       else (match get_ep c epid with
             | Some ep ->
               if negb (app_exists c app0)
               then Err coq_E_NOTFOUND
               else if negb ep.ep_active
                    then Err coq_E_STATE
                    else if negb (Z.eqb app0 ep.ep_app)
                         then Err coq_E_MISMATCH
                         else (match find_v s.vaults id with
                               | Some v0 ->
                                 if negb (Z.eqb v0.v_owner from)
                                 then Err coq_E_UNAUTH
                                 else if negb (Z.eqb app0 v0.v_app)
                                      then Err coq_E_MISMATCH
                                      else if negb (Z.eqb ep.ep_id v0.v_pair)
                                           then Err coq_E_MISMATCH
                                           else obind (accrue s id ienv)
                                                  (fun s1 ->
                                                  match find_v s1.vaults id with
                                                  | Some v ->
                                                    let nin = Z.add v.v_in amt
                                                    in
                                                    if negb (Z.gtb nin Z0)
                                                    then Err coq_E_INVALID
                                                    else obind
                                                           (if Z.gtb amt Z0
                                                            then send s1 from
                                                                   coq_VAULT
                                                                   ep.ep_in
                                                                   amt
                                                            else Ok s1)
                                                           (fun s2 ->
                                                           let s3 =
                                                             set_vaults s2
                                                               (put_v
                                                                 s2.vaults
                                                                 (with_in v
                                                                   nin))
                                                           in
                                                           Ok
                                                           (upd_coll s3 app0
                                                             epid amt true))
                                                  | None -> Err coq_E_NOTFOUND)
                               | None -> Err coq_E_NOTFOUND)
             | None -> Err coq_E_NOTFOUND)

(** val msg_deposit :
    cfg -> state -> coq_Z -> coq_Z -> coq_Z -> coq_Z -> coq_Z -> coq_Z ->
    state outcome **)

let msg_deposit c s from app0 epid id amt ienv =
  if Z.eqb id Z0
  then Err coq_E_INVALID
  else if Z.leb amt Z0
       then Err coq_E_INVALID
       else deposit_h c s from app0 epid id amt ienv

(** val withdraw_h :
    cfg -> state -> coq_Z -> coq_Z -> coq_Z -> coq_Z -> coq_Z -> coq_Z ->
    state outcome **)

let withdraw_h c s from app0 epid id amt ienv =
  if s.brk app0
  then Err coq_E_BREAKER
  else let e = s.esm app0 in
       let status = e.e_status in
       if (&&) (Z.gtb s.now e.e_end) status
       then Err coq_E_ESM
       else (match get_ep c epid with
             | Some ep ->
               if negb (app_exists c app0)
               then Err coq_E_NOTFOUND
               else if negb ep.ep_active
                    then Err coq_E_STATE
                    else if negb (Z.eqb app0 ep.ep_app)
                         then Err coq_E_MISMATCH
                         else (match find_v s.vaults id with
                               | Some v0 ->
                                 if negb (Z.eqb v0.v_owner from)
                                 then Err coq_E_UNAUTH
                                 else if negb (Z.eqb app0 v0.v_app)
                                      then Err coq_E_MISMATCH
                                      else if negb (Z.eqb ep.ep_id v0.v_pair)
                                           then Err coq_E_MISMATCH
                                           else obind (accrue s id ienv)
                                                  (fun s1 ->
                                                  match find_v s1.vaults id with
                                                  | Some v ->
                                                    let nin = Z.sub v.v_in amt
                                                    in
                                                    if negb (Z.gtb nin Z0)
                                                    then Err coq_E_INVALID
                                                    else let debt =
                                                           if status
                                                           then v.v_out
                                                           else Z.add
                                                                  (Z.add
                                                                    v.v_out
                                                                    v.v_int)
                                                                  v.v_fee
                                                         in
                                                         obind
                                                           (verify_cr s1 ep
                                                             nin debt status)
                                                           (fun _ ->
                                                           obind
                                                             (if Z.gtb amt Z0
                                                              then send s1
                                                                    coq_VAULT
                                                                    from
                                                                    ep.ep_in
                                                                    amt
                                                              else Ok s1)
                                                             (fun s2 ->
                                                             let s3 =
                                                               set_vaults s2
                                                                 (put_v
                                                                   s2.vaults
                                                                   (with_in v
                                                                    nin))
                                                             in
                                                             Ok
                                                             (upd_coll s3
                                                               app0 epid amt
                                                               false)))
                                                  | None -> Err coq_E_NOTFOUND)
                               | None -> Err coq_E_NOTFOUND)
             | None -> Err coq_E_NOTFOUND)

(** val msg_withdraw :
    cfg -> state -> coq_Z -> coq_Z -> coq_Z -> coq_Z -> coq_Z -> coq_Z ->
    state outcome **)

let msg_withdraw c s from app0 epid id amt ienv =
  if Z.eqb id Z0
  then Err coq_E_INVALID
  else if Z.leb amt Z0
       then Err coq_E_INVALID
       else withdraw_h c s from app0 epid id amt ienv

(** val draw_h :
    cfg -> state -> coq_Z -> coq_Z -> coq_Z -> coq_Z -> coq_Z -> coq_Z ->
    state outcome **)

let draw_h c s from app0 epid id amt ienv =
  let status = (s.esm app0).e_status in
  if status
  then Err coq_E_ESM
  else if s.brk app0
       then Err coq_E_BREAKER
       else (match get_ep c epid with
             | Some ep ->
               if negb (app_exists c app0)
               then Err coq_E_NOTFOUND
               else if negb ep.ep_active
                    then Err coq_E_STATE
                    else if negb (Z.eqb app0 ep.ep_app)
                         then Err coq_E_MISMATCH
                         else (match find_v s.vaults id with
                               | Some v0 ->
                                 if negb (Z.eqb v0.v_owner from)
                                 then Err coq_E_UNAUTH
                                 else if negb (Z.eqb app0 v0.v_app)
                                      then Err coq_E_MISMATCH
                                      else if negb (Z.eqb ep.ep_id v0.v_pair)
                                           then Err coq_E_MISMATCH
                                           else if Z.leb amt Z0
                                                then Err coq_E_INVALID
                                                else obind (accrue s id ienv)
                                                       (fun s1 ->
                                                       match find_v s1.vaults
                                                               id with
                                                       | Some v ->
                                                         let debt =
                                                           Z.add
                                                             (Z.add
                                                               (Z.add v.v_out
                                                                 amt) v.v_int)
                                                             v.v_fee
                                                         in
                                                         let s2 =
                                                           ensure_prod s1
                                                             app0 epid
                                                         in
                                                         let minted =
                                                           prod_mint s2 app0
                                                             epid
                                                         in
                                                         if Z.geb
                                                              (Z.add minted
                                                                amt)
                                                              ep.ep_ceiling
                                                         then Err coq_E_CEIL
                                                         else obind
                                                                (verify_cr s2
                                                                  ep v.v_in
                                                                  debt status)
                                                                (fun _ ->
                                                                if Z.eqb amt
                                                                    Z0
                                                                then 
                                                                  Err
                                                                    coq_E_INVALID
                                                                else 
                                                                  obind
                                                                    (mint s2
                                                                    ep.ep_out
                                                                    amt)
                                                                    (fun s3 ->
                                                                    obind
                                                                    (if 
                                                                    (&&)
                                                                    (Z.eqb
                                                                    ep.ep_ddf
                                                                    Z0)
                                                                    (Z.gtb
                                                                    amt Z0)
                                                                    then 
                                                                    send s3
                                                                    coq_VAULT
                                                                    from
                                                                    ep.ep_out
                                                                    amt
                                                                    else 
                                                                    pay_out
                                                                    s3 from
                                                                    ep.ep_out
                                                                    amt
                                                                    ep.ep_ddf)
                                                                    (fun s4 ->
                                                                    let s5 =
                                                                    set_vaults
                                                                    s4
                                                                    (put_v
                                                                    s4.vaults
                                                                    (with_out
                                                                    v
                                                                    (Z.add
                                                                    v.v_out
                                                                    amt)))
                                                                    in
                                                                    Ok
                                                                    (upd_mint
                                                                    s5 app0
                                                                    epid amt
                                                                    true))))
                                                       | None ->
                                                         Err coq_E_NOTFOUND)
                               | None -> Err coq_E_NOTFOUND)
             | None -> Err coq_E_NOTFOUND)

(** val msg_draw :
    cfg -> state -> coq_Z -> coq_Z -> coq_Z -> coq_Z -> coq_Z -> coq_Z ->
    state outcome **)

let msg_draw c s from app0 epid id amt ienv =
  if Z.eqb id Z0
  then Err coq_E_INVALID
  else if Z.leb amt Z0
       then Err coq_E_INVALID
       else draw_h c s from app0 epid id amt ienv

(** val msg_repay :
    cfg -> state -> coq_Z -> coq_Z -> coq_Z -> coq_Z -> coq_Z -> coq_Z ->
    state outcome **)

let msg_repay c s from app0 epid id amt ienv =
  if Z.eqb id Z0
  then Err coq_E_INVALID
  else if Z.leb amt Z0
       then Err coq_E_INVALID
       else if (s.esm app0).e_status
            then Err coq_E_ESM
            else if s.brk app0
                 then Err coq_E_BREAKER
                 else (match get_ep c epid with
                       | Some ep ->
                         if negb (app_exists c app0)
                         then Err coq_E_NOTFOUND
                         else if negb (Z.eqb app0 ep.ep_app)
                              then Err coq_E_MISMATCH
                              else (match find_v s.vaults id with
                                    | Some v0 ->
                                      if negb (Z.eqb v0.v_owner from)
                                      then Err coq_E_UNAUTH
                                      else if negb (Z.eqb app0 v0.v_app)
                                           then Err coq_E_MISMATCH
                                           else if negb
                                                     (Z.eqb ep.ep_id
                                                       v0.v_pair)
                                                then Err coq_E_MISMATCH
                                                else if Z.leb amt Z0
                                                     then Err coq_E_INVALID
                                                     else obind
                                                            (accrue s id ienv)
                                                            (fun s1 ->
                                                            match find_v
                                                                    s1.vaults
                                                                    id with
                                                            | Some v ->
                                                              if Z.ltb
                                                                   (Z.sub
                                                                    (Z.add
                                                                    v.v_out
                                                                    v.v_int)
                                                                    amt) Z0
                                                              then Err
                                                                    coq_E_INVALID
                                                              else if 
                                                                    Z.leb amt
                                                                    v.v_int
                                                                   then 
                                                                    let v1 =
                                                                    with_int
                                                                    v
                                                                    (Z.sub
                                                                    v.v_int
                                                                    amt)
                                                                    in
                                                                    obind
                                                                    (if 
                                                                    Z.gtb amt
                                                                    Z0
                                                                    then 
                                                                    obind
                                                                    (send s1
                                                                    from
                                                                    coq_VAULT
                                                                    ep.ep_out
                                                                    amt)
                                                                    (fun a ->
                                                                    obind
                                                                    (send a
                                                                    coq_VAULT
                                                                    coq_COLL
                                                                    ep.ep_out
                                                                    amt)
                                                                    (fun b ->
                                                                    update_collector
                                                                    b amt))
                                                                    else Ok s1)
                                                                    (fun s2 ->
                                                                    Ok
                                                                    (set_vaults
                                                                    s2
                                                                    (put_v
                                                                    s2.vaults
                                                                    v1)))
                                                                   else 
                                                                    let sent =
                                                                    Z.sub amt
                                                                    v.v_int
                                                                    in
                                                                    let ndebt =
                                                                    Z.sub
                                                                    v.v_out
                                                                    sent
                                                                    in
                                                                    if 
                                                                    negb
                                                                    (Z.geb
                                                                    ndebt
                                                                    ep.ep_floor)
                                                                    then 
                                                                    Err
                                                                    coq_E_FLOOR
                                                                    else 
                                                                    obind
                                                                    (if 
                                                                    Z.gtb amt
                                                                    Z0
                                                                    then 
                                                                    send s1
                                                                    from
                                                                    coq_VAULT
                                                                    ep.ep_out
                                                                    amt
                                                                    else Ok s1)
                                                                    (fun s2 ->
                                                                    obind
                                                                    (if 
                                                                    Z.gtb
                                                                    sent Z0
                                                                    then 
                                                                    burn s2
                                                                    ep.ep_out
                                                                    sent
                                                                    else Ok s2)
                                                                    (fun s3 ->
                                                                    obind
                                                                    (if 
                                                                    Z.gtb
                                                                    v.v_int Z0
                                                                    then 
                                                                    obind
                                                                    (send s3
                                                                    coq_VAULT
                                                                    coq_COLL
                                                                    ep.ep_out
                                                                    v.v_int)
                                                                    (fun a ->
                                                                    update_collector
                                                                    a v.v_int)
                                                                    else Ok s3)
                                                                    (fun s4 ->
                                                                    let v1 =
                                                                    with_int
                                                                    (with_out
                                                                    v ndebt)
                                                                    Z0
                                                                    in
                                                                    let s5 =
                                                                    set_vaults
                                                                    s4
                                                                    (put_v
                                                                    s4.vaults
                                                                    v1)
                                                                    in
                                                                    Ok
                                                                    (upd_mint
                                                                    s5 app0
                                                                    epid sent
                                                                    false))))
                                                            | None ->
                                                              Err
                                                                coq_E_NOTFOUND)
                                    | None -> Err coq_E_NOTFOUND)
                       | None -> Err coq_E_NOTFOUND)

(** val msg_close :
    cfg -> state -> coq_Z -> coq_Z -> coq_Z -> coq_Z -> coq_Z -> state outcome **)

let msg_close c s from app0 epid id ienv =
  if Z.eqb id Z0
  then Err coq_E_INVALID
  else if (s.esm app0).e_status
       then Err coq_E_ESM
       else if s.brk app0
            then Err coq_E_BREAKER
            else (match get_ep c epid with
                  | Some ep ->
                    if negb (app_exists c app0)
                    then Err coq_E_NOTFOUND
                    else if negb (Z.eqb app0 ep.ep_app)
                         then Err coq_E_MISMATCH
                         else (match find_v s.vaults id with
                               | Some v0 ->
                                 if negb (Z.eqb v0.v_owner from)
                                 then Err coq_E_UNAUTH
                                 else if negb (Z.eqb app0 v0.v_app)
                                      then Err coq_E_MISMATCH
                                      else if negb (Z.eqb ep.ep_id v0.v_pair)
                                           then Err coq_E_MISMATCH
                                           else obind (accrue s id ienv)
                                                  (fun s1 ->
                                                  match find_v s1.vaults id with
                                                  | Some v ->
                                                    let total =
                                                      Z.add
                                                        (Z.add v.v_out
                                                          v.v_int) v.v_fee
                                                    in
                                                    obind
                                                      (if Z.gtb total Z0
                                                       then send s1 from
                                                              coq_VAULT
                                                              ep.ep_out total
                                                       else Ok s1) (fun s2 ->
                                                      obind
                                                        (update_collector s2
                                                          (Z.add v.v_int
                                                            v.v_fee))
                                                        (fun s3 ->
                                                        obind
                                                          (if Z.gtb v.v_int Z0
                                                           then send s3
                                                                  coq_VAULT
                                                                  coq_COLL
                                                                  ep.ep_out
                                                                  v.v_int
                                                           else Ok s3)
                                                          (fun s4 ->
                                                          obind
                                                            (if Z.gtb v.v_fee
                                                                  Z0
                                                             then send s4
                                                                    coq_VAULT
                                                                    coq_COLL
                                                                    ep.ep_out
                                                                    v.v_fee
                                                             else Ok s4)
                                                            (fun s5 ->
                                                            obind
                                                              (if Z.gtb
                                                                    v.v_out Z0
                                                               then burn s5
                                                                    ep.ep_out
                                                                    v.v_out
                                                               else Ok s5)
                                                              (fun s6 ->
                                                              obind
                                                                (if Z.gtb
                                                                    v.v_in Z0
                                                                 then 
                                                                   send s6
                                                                    coq_VAULT
                                                                    from
                                                                    ep.ep_in
                                                                    v.v_in
                                                                 else Ok s6)
                                                                (fun s7 ->
                                                                let s8 =
                                                                  upd_coll s7
                                                                    app0 epid
                                                                    v.v_in
                                                                    false
                                                                in
                                                                let s9 =
                                                                  upd_mint s8
                                                                    app0 epid
                                                                    v.v_out
                                                                    false
                                                                in
                                                                let s10 =
                                                                  prod_del_id
                                                                    s9 app0
                                                                    epid
                                                                    v.v_id
                                                                in
                                                                let s11 =
                                                                  set_umap
                                                                    s10
                                                                    (upd3
                                                                    s10.umap
                                                                    from app0
                                                                    epid None)
                                                                in
                                                                let s12 =
                                                                  set_vaults
                                                                    s11
                                                                    (del_v
                                                                    s11.vaults
                                                                    v.v_id)
                                                                in
                                                                Ok
                                                                (set_vlen s12
                                                                  (if 
                                                                    Z.eqb
                                                                    s12.vlen
                                                                    Z0
                                                                   then 
                                                                    Z.sub
                                                                    two64
                                                                    (Zpos
                                                                    Coq_xH)
                                                                   else 
                                                                    Z.sub
                                                                    s12.vlen
                                                                    (Zpos
                                                                    Coq_xH)))))))))
                                                  | None -> Err coq_E_NOTFOUND)
                               | None -> Err coq_E_NOTFOUND)
                  | None -> Err coq_E_NOTFOUND)

(** val msg_deposit_draw :
    cfg -> state -> coq_Z -> coq_Z -> coq_Z -> coq_Z -> coq_Z -> coq_Z ->
    coq_Z -> state outcome **)

let msg_deposit_draw c s from app0 epid id amt i1 i2 =
  if Z.eqb id Z0
  then Err coq_E_INVALID
  else if Z.leb amt Z0
       then Err coq_E_INVALID
       else (match find_v s.vaults id with
             | Some v ->
               (match imul_c v.v_out amt with
                | Some nume ->
                  (match iquo_c nume v.v_in with
                   | Some newamt ->
                     obind (deposit_h c s from app0 epid id amt i1)
                       (fun s1 -> draw_h c s1 from app0 epid id newamt i2)
                   | None -> Panic)
                | None -> Panic)
             | None -> Err coq_E_NOTFOUND)

(** val msg_stable_create :
    cfg -> state -> coq_Z -> coq_Z -> coq_Z -> coq_Z -> state outcome **)

let msg_stable_create c s from app0 epid amt =
  if Z.leb amt Z0
  then Err coq_E_INVALID
  else if (s.esm app0).e_status
       then Err coq_E_ESM
       else if s.brk app0
            then Err coq_E_BREAKER
            else (match get_ep c epid with
                  | Some ep ->
                    if negb (app_exists c app0)
                    then Err coq_E_NOTFOUND
                    else if negb (Z.eqb app0 ep.ep_app)
                         then Err coq_E_MISMATCH
                         else if negb ep.ep_stable
                              then Err coq_E_STATE
                              else if negb ep.ep_active
                                   then Err coq_E_STATE
                                   else (match other_token ep.ep_dec_in amt
                                                 ep.ep_dec_out with
                                         | Some tout ->
                                           if negb (Z.geb tout ep.ep_floor)
                                           then Err coq_E_FLOOR
                                           else let s1 =
                                                  ensure_prod s app0 epid
                                                in
                                                let minted =
                                                  prod_mint s1 app0 epid
                                                in
                                                if Z.geb
                                                     (prod_nids s1 app0 epid)
                                                     (Zpos Coq_xH)
                                                then Err coq_E_STATE
                                                else if Z.geb
                                                          (Z.add minted tout)
                                                          ep.ep_ceiling
                                                     then Err coq_E_CEIL
                                                     else obind
                                                            (if Z.gtb amt Z0
                                                             then obind
                                                                    (send s1
                                                                    from
                                                                    coq_VAULT
                                                                    ep.ep_in
                                                                    amt)
                                                                    (fun a ->
                                                                    if 
                                                                    Z.eqb
                                                                    tout Z0
                                                                    then 
                                                                    Err
                                                                    coq_E_INVALID
                                                                    else 
                                                                    mint a
                                                                    ep.ep_out
                                                                    tout)
                                                             else Ok s1)
                                                            (fun s2 ->
                                                            obind
                                                              (if (&&)
                                                                    (Z.eqb
                                                                    ep.ep_ddf
                                                                    Z0)
                                                                    (Z.gtb
                                                                    amt Z0)
                                                               then send s2
                                                                    coq_VAULT
                                                                    from
                                                                    ep.ep_out
                                                                    amt
                                                               else pay_out
                                                                    s2 from
                                                                    ep.ep_out
                                                                    tout
                                                                    ep.ep_ddf)
                                                              (fun s3 ->
                                                              let id =
                                                                Z.add s3.sid
                                                                  (Zpos
                                                                  Coq_xH)
                                                              in
                                                              let s4 =
                                                                set_svaults
                                                                  s3
                                                                  (put_sv
                                                                    s3.svaults
                                                                    { sv_id =
                                                                    id;
                                                                    sv_app =
                                                                    app0;
                                                                    sv_pair =
                                                                    epid;
                                                                    sv_in =
                                                                    amt;
                                                                    sv_out =
                                                                    tout })
                                                              in
                                                              let s5 =
                                                                set_sid s4 id
                                                              in
                                                              Ok
                                                              (prod_on_create
                                                                s5 app0 epid
                                                                amt tout id)))
                                         | None -> Panic)
                  | None -> Err coq_E_NOTFOUND)

(** val msg_stable_deposit :
    cfg -> state -> coq_Z -> coq_Z -> coq_Z -> coq_Z -> coq_Z -> state outcome **)

let msg_stable_deposit c s from app0 epid id amt =
  if Z.leb amt Z0
  then Err coq_E_INVALID
  else if (s.esm app0).e_status
       then Err coq_E_ESM
       else if s.brk app0
            then Err coq_E_BREAKER
            else (match get_ep c epid with
                  | Some ep ->
                    if negb (app_exists c app0)
                    then Err coq_E_NOTFOUND
                    else if negb ep.ep_active
                         then Err coq_E_STATE
                         else if negb ep.ep_stable
                              then Err coq_E_STATE
                              else if negb (Z.eqb app0 ep.ep_app)
                                   then Err coq_E_MISMATCH
                                   else (match find_sv s.svaults id with
                                         | Some sv ->
                                           if negb (Z.eqb app0 sv.sv_app)
                                           then Err coq_E_MISMATCH
                                           else if negb
                                                     (Z.eqb ep.ep_id
                                                       sv.sv_pair)
                                                then Err coq_E_MISMATCH
                                                else if negb
                                                          (Z.gtb
                                                            (Z.add sv.sv_in
                                                              amt) Z0)
                                                     then Err coq_E_INVALID
                                                     else let s1 =
                                                            ensure_prod s
                                                              app0 epid
                                                          in
                                                          let minted =
                                                            prod_mint s1 app0
                                                              epid
                                                          in
                                                          (match other_token
                                                                   ep.ep_dec_in
                                                                   amt
                                                                   ep.ep_dec_out with
                                                           | Some tout ->
                                                             if negb
                                                                  (Z.geb tout
                                                                    ep.ep_floor)
                                                             then Err
                                                                    coq_E_FLOOR
                                                             else if 
                                                                    Z.geb
                                                                    (Z.add
                                                                    minted
                                                                    tout)
                                                                    ep.ep_ceiling
                                                                  then 
                                                                    Err
                                                                    coq_E_CEIL
                                                                  else 
                                                                    obind
                                                                    (if 
                                                                    Z.gtb amt
                                                                    Z0
                                                                    then 
                                                                    obind
                                                                    (send s1
                                                                    from
                                                                    coq_VAULT
                                                                    ep.ep_in
                                                                    amt)
                                                                    (fun a ->
                                                                    if 
                                                                    Z.eqb
                                                                    tout Z0
                                                                    then 
                                                                    Err
                                                                    coq_E_INVALID
                                                                    else 
                                                                    mint a
                                                                    ep.ep_out
                                                                    tout)
                                                                    else Ok s1)
                                                                    (fun s2 ->
                                                                    obind
                                                                    (if 
                                                                    (&&)
                                                                    (Z.eqb
                                                                    ep.ep_ddf
                                                                    Z0)
                                                                    (Z.gtb
                                                                    amt Z0)
                                                                    then 
                                                                    send s2
                                                                    coq_VAULT
                                                                    from
                                                                    ep.ep_out
                                                                    tout
                                                                    else 
                                                                    pay_out
                                                                    s2 from
                                                                    ep.ep_out
                                                                    tout
                                                                    ep.ep_ddf)
                                                                    (fun s3 ->
                                                                    let s4 =
                                                                    set_svaults
                                                                    s3
                                                                    (put_sv
                                                                    s3.svaults
                                                                    { sv_id =
                                                                    sv.sv_id;
                                                                    sv_app =
                                                                    sv.sv_app;
                                                                    sv_pair =
                                                                    sv.sv_pair;
                                                                    sv_in =
                                                                    (Z.add
                                                                    sv.sv_in
                                                                    amt);
                                                                    sv_out =
                                                                    (Z.add
                                                                    sv.sv_out
                                                                    tout) })
                                                                    in
                                                                    let s5 =
                                                                    upd_coll
                                                                    s4 app0
                                                                    epid amt
                                                                    true
                                                                    in
                                                                    Ok
                                                                    (upd_mint
                                                                    s5 app0
                                                                    epid tout
                                                                    true)))
                                                           | None -> Panic)
                                         | None -> Err coq_E_NOTFOUND)
                  | None -> Err coq_E_NOTFOUND)

(** val msg_stable_withdraw :
    cfg -> state -> coq_Z -> coq_Z -> coq_Z -> coq_Z -> coq_Z -> state outcome **)

let msg_stable_withdraw c s from app0 epid id amt =
  if Z.leb amt Z0
  then Err coq_E_INVALID
  else if (s.esm app0).e_status
       then Err coq_E_ESM
       else if s.brk app0
            then Err coq_E_BREAKER
            else (match get_ep c epid with
                  | Some ep ->
                    if negb (app_exists c app0)
                    then Err coq_E_NOTFOUND
                    else if negb ep.ep_stable
                         then Err coq_E_STATE
                         else if negb (Z.eqb app0 ep.ep_app)
                              then Err coq_E_MISMATCH
                              else if negb (Z.geb amt ep.ep_floor)
                                   then Err coq_E_FLOOR
                                   else (match find_sv s.svaults id with
                                         | Some sv ->
                                           if negb (Z.eqb app0 sv.sv_app)
                                           then Err coq_E_MISMATCH
                                           else if negb
                                                     (Z.eqb ep.ep_id
                                                       sv.sv_pair)
                                                then Err coq_E_MISMATCH
                                                else (match other_token
                                                              ep.ep_dec_out
                                                              amt ep.ep_dec_in with
                                                      | Some tout0 ->
                                                        if Z.ltb
                                                             (Z.sub sv.sv_in
                                                               tout0) Z0
                                                        then Err coq_E_INVALID
                                                        else obind
                                                               (if Z.gtb amt
                                                                    Z0
                                                                then 
                                                                  send s from
                                                                    coq_VAULT
                                                                    ep.ep_out
                                                                    amt
                                                                else Ok s)
                                                               (fun s1 ->
                                                               obind
                                                                 (if 
                                                                    (&&)
                                                                    (Z.eqb
                                                                    ep.ep_ddf
                                                                    Z0)
                                                                    (Z.gtb
                                                                    amt Z0)
                                                                  then 
                                                                    obind
                                                                    (burn s1
                                                                    ep.ep_out
                                                                    amt)
                                                                    (fun a ->
                                                                    obind
                                                                    (send a
                                                                    coq_VAULT
                                                                    from
                                                                    ep.ep_in
                                                                    tout0)
                                                                    (fun b ->
                                                                    Ok ((b,
                                                                    tout0),
                                                                    amt)))
                                                                  else 
                                                                    (match 
                                                                    fee_share
                                                                    amt
                                                                    ep.ep_ddf with
                                                                    | Some share ->
                                                                    obind
                                                                    (if 
                                                                    Z.gtb
                                                                    share Z0
                                                                    then 
                                                                    obind
                                                                    (send s1
                                                                    coq_VAULT
                                                                    coq_COLL
                                                                    ep.ep_out
                                                                    share)
                                                                    (fun a ->
                                                                    update_collector
                                                                    a share)
                                                                    else Ok s1)
                                                                    (fun s2 ->
                                                                    let updated =
                                                                    Z.sub amt
                                                                    share
                                                                    in
                                                                    if 
                                                                    Z.gtb
                                                                    updated Z0
                                                                    then 
                                                                    obind
                                                                    (burn s2
                                                                    ep.ep_out
                                                                    updated)
                                                                    (fun a ->
                                                                    match 
                                                                    other_token
                                                                    ep.ep_dec_out
                                                                    updated
                                                                    ep.ep_dec_in with
                                                                    | Some nout ->
                                                                    obind
                                                                    (send a
                                                                    coq_VAULT
                                                                    from
                                                                    ep.ep_in
                                                                    nout)
                                                                    (fun b ->
                                                                    Ok ((b,
                                                                    nout),
                                                                    updated))
                                                                    | None ->
                                                                    Panic)
                                                                    else 
                                                                    Ok ((s2,
                                                                    tout0),
                                                                    updated))
                                                                    | None ->
                                                                    Panic))
                                                                 (fun r ->
                                                                 let (
                                                                   p, updated) =
                                                                   r
                                                                 in
                                                                 let (
                                                                   s3, tout) =
                                                                   p
                                                                 in
                                                                 let s4 =
                                                                   set_svaults
                                                                    s3
                                                                    (put_sv
                                                                    s3.svaults
                                                                    { sv_id =
                                                                    sv.sv_id;
                                                                    sv_app =
                                                                    sv.sv_app;
                                                                    sv_pair =
                                                                    sv.sv_pair;
                                                                    sv_in =
                                                                    (Z.sub
                                                                    sv.sv_in
                                                                    tout);
                                                                    sv_out =
                                                                    (Z.sub
                                                                    sv.sv_out
                                                                    updated) })
                                                                 in
                                                                 let s5 =
                                                                   upd_coll
                                                                    s4 app0
                                                                    epid tout
                                                                    false
                                                                 in
                                                                 Ok
                                                                 (upd_mint s5
                                                                   app0 epid
                                                                   updated
                                                                   false)))
                                                      | None -> Panic)
                                         | None -> Err coq_E_NOTFOUND)
                  | None -> Err coq_E_NOTFOUND)

(** val msg_interest_calc :
    cfg -> state -> coq_Z -> coq_Z -> coq_Z -> state outcome **)

let msg_interest_calc c s app0 id ienv =
  if negb (app_exists c app0)
  then Err coq_E_NOTFOUND
  else (match find_v s.vaults id with
        | Some _ -> accrue s id ienv
        | None -> Err coq_E_NOTFOUND)

(** val donate : state -> coq_Z -> coq_Z -> coq_Z -> state outcome **)

let donate s from d amt =
  if Z.leb amt Z0
  then Err coq_E_INVALID
  else obind (send s from coq_VAULT d amt) (fun s1 -> Ok
         (set_unsol s1 (upd1 s1.unsol d (Z.add (s1.unsol d) amt))))

type op =
| Create of coq_Z * coq_Z * coq_Z * coq_Z * coq_Z
| Deposit of coq_Z * coq_Z * coq_Z * coq_Z * coq_Z * coq_Z
| Withdraw of coq_Z * coq_Z * coq_Z * coq_Z * coq_Z * coq_Z
| Draw of coq_Z * coq_Z * coq_Z * coq_Z * coq_Z * coq_Z
| Repay of coq_Z * coq_Z * coq_Z * coq_Z * coq_Z * coq_Z
| Close of coq_Z * coq_Z * coq_Z * coq_Z * coq_Z
| DepositDraw of coq_Z * coq_Z * coq_Z * coq_Z * coq_Z * coq_Z * coq_Z
| StableCreate of coq_Z * coq_Z * coq_Z * coq_Z
| StableDeposit of coq_Z * coq_Z * coq_Z * coq_Z * coq_Z
| StableWithdraw of coq_Z * coq_Z * coq_Z * coq_Z * coq_Z
| InterestCalc of coq_Z * coq_Z * coq_Z
| Donate of coq_Z * coq_Z * coq_Z
| AdvanceTime of coq_Z
| SetPrice of coq_Z * coq_Z option
| SetEsm of coq_Z * bool * coq_Z * bool
| SetSnap of coq_Z * coq_Z * coq_Z option
| SetBreaker of coq_Z * bool

(** val run : cfg -> state -> op -> state outcome **)

let run c s = function
| Create (f, a, e, i, o') -> msg_create c s f a e i o'
| Deposit (f, a, e, i, m, ie) -> msg_deposit c s f a e i m ie
| Withdraw (f, a, e, i, m, ie) -> msg_withdraw c s f a e i m ie
| Draw (f, a, e, i, m, ie) -> msg_draw c s f a e i m ie
| Repay (f, a, e, i, m, ie) -> msg_repay c s f a e i m ie
| Close (f, a, e, i, ie) -> msg_close c s f a e i ie
| DepositDraw (f, a, e, i, m, i1, i2) -> msg_deposit_draw c s f a e i m i1 i2
| StableCreate (f, a, e, m) -> msg_stable_create c s f a e m
| StableDeposit (f, a, e, i, m) -> msg_stable_deposit c s f a e i m
| StableWithdraw (f, a, e, i, m) -> msg_stable_withdraw c s f a e i m
| InterestCalc (a, i, ie) -> msg_interest_calc c s a i ie
| Donate (f, d, m) -> donate s f d m
| AdvanceTime dt -> Ok (set_now s (Z.add s.now dt))
| SetPrice (a, p) -> Ok (set_price s (upd1 s.price a p))
| SetEsm (a, st, en, sn) ->
  Ok (set_esm s (upd1 s.esm a { e_status = st; e_end = en; e_snap = sn }))
| SetSnap (a, x, p) -> Ok (set_snap s (upd2 s.snap a x p))
| SetBreaker (a, b) -> Ok (set_brk s (upd1 s.brk a b))

(** val uow : cfg -> op -> state unit_of_work **)

let uow c o s =
  match run c s o with
  | Ok s' -> RunOk s'
  | Err e -> RunErr (s, e)
  | Panic -> RunPanic s

(** val step : cfg -> state -> op -> state **)

let step c s o =
  apply (uow c o) s

(** val result_class : cfg -> state -> op -> coq_Z **)

let result_class c s o =
  match run c s o with
  | Ok _ -> Z0
  | Err _ -> Zpos Coq_xH
  | Panic -> Zpos (Coq_xO Coq_xH)

(** val wsum : ('a1 -> coq_Z) -> 'a1 list -> coq_Z **)

let wsum w l =
  zsum (map w l)

(** val denom_in : cfg -> coq_Z -> coq_Z **)

let denom_in c pair =
  match get_ep c pair with
  | Some e -> e.ep_in
  | None -> Zneg Coq_xH

(** val denom_out : cfg -> coq_Z -> coq_Z **)

let denom_out c pair =
  match get_ep c pair with
  | Some e -> e.ep_out
  | None -> Zneg Coq_xH

(** val inprod : coq_Z -> coq_Z -> vault -> bool **)

let inprod app0 pair v =
  (&&) (Z.eqb v.v_app app0) (Z.eqb v.v_pair pair)

(** val sinprod : coq_Z -> coq_Z -> svault -> bool **)

let sinprod app0 pair v =
  (&&) (Z.eqb v.sv_app app0) (Z.eqb v.sv_pair pair)

(** val coll_sum : cfg -> state -> coq_Z -> coq_Z **)

let coll_sum c s d =
  Z.add
    (wsum (fun v -> if Z.eqb (denom_in c v.v_pair) d then v.v_in else Z0)
      s.vaults)
    (wsum (fun v -> if Z.eqb (denom_in c v.sv_pair) d then v.sv_in else Z0)
      s.svaults)

(** val debt_sum : cfg -> state -> coq_Z -> coq_Z **)

let debt_sum c s d =
  Z.add
    (wsum (fun v -> if Z.eqb (denom_out c v.v_pair) d then v.v_out else Z0)
      s.vaults)
    (wsum (fun v -> if Z.eqb (denom_out c v.sv_pair) d then v.sv_out else Z0)
      s.svaults)

(** val prod_coll_sum : state -> coq_Z -> coq_Z -> coq_Z **)

let prod_coll_sum s app0 pair =
  Z.add (wsum (fun v -> if inprod app0 pair v then v.v_in else Z0) s.vaults)
    (wsum (fun v -> if sinprod app0 pair v then v.sv_in else Z0) s.svaults)

(** val prod_mint_sum : state -> coq_Z -> coq_Z -> coq_Z **)

let prod_mint_sum s app0 pair =
  Z.add (wsum (fun v -> if inprod app0 pair v then v.v_out else Z0) s.vaults)
    (wsum (fun v -> if sinprod app0 pair v then v.sv_out else Z0) s.svaults)

(** val prod_ids : state -> coq_Z -> coq_Z -> coq_Z list **)

let prod_ids s app0 pair =
  app (map (fun v -> v.v_id) (filter (inprod app0 pair) s.vaults))
    (map (fun s0 -> s0.sv_id) (filter (sinprod app0 pair) s.svaults))

(** val ascending : coq_Z list -> bool **)

let rec ascending = function
| [] -> true
| x :: r ->
  (match r with
   | [] -> true
   | y :: _ -> (&&) (Z.ltb x y) (ascending r))

(** val list_eqb : coq_Z list -> coq_Z list -> bool **)

let rec list_eqb a b =
  match a with
  | [] -> (match b with
           | [] -> true
           | _ :: _ -> false)
  | x :: r ->
    (match b with
     | [] -> false
     | y :: t -> (&&) (Z.eqb x y) (list_eqb r t))

(** val c01_custody : cfg -> state -> coq_Z -> bool **)

let c01_custody c s d =
  Z.eqb (s.bal coq_VAULT d) (Z.add (coll_sum c s d) (s.unsol d))

(** val c01_count : state -> bool **)

let c01_count s =
  Z.eqb s.vlen (zlen s.vaults)

(** val c01_product : state -> coq_Z -> coq_Z -> bool **)

let c01_product s app0 pair =
  match s.prods app0 pair with
  | Some p ->
    (&&)
      ((&&)
        ((&&) (Z.eqb p.p_coll (prod_coll_sum s app0 pair))
          (Z.eqb p.p_mint (prod_mint_sum s app0 pair)))
        (list_eqb p.p_ids (prod_ids s app0 pair))) (ascending p.p_ids)
  | None -> (match prod_ids s app0 pair with
             | [] -> true
             | _ :: _ -> false)

(** val holds_C01 : cfg -> coq_Z list -> state -> bool **)

let holds_C01 c denoms s =
  (&&) ((&&) (forallb (c01_custody c s) denoms) (c01_count s))
    (forallb (fun e -> c01_product s e.ep_app e.ep_id) c.epairs)

(** val c02_backing : cfg -> (coq_Z -> coq_Z) -> state -> coq_Z -> bool **)

let c02_backing c ext s d =
  Z.eqb (Z.sub (s.sup d) (ext d)) (debt_sum c s d)

(** val holds_C02 : cfg -> (coq_Z -> coq_Z) -> coq_Z list -> state -> bool **)

let holds_C02 c ext denoms s =
  forallb (c02_backing c ext s) denoms

(** val ddf_fee : epair -> coq_Z -> coq_Z **)

let ddf_fee ep x =
  match fee_share x ep.ep_ddf with
  | Some f -> f
  | None -> Z0

(** val mint_law : epair -> state -> state -> coq_Z -> coq_Z -> bool **)

let mint_law ep s s' from dprin =
  let d = ep.ep_out in
  let fee = ddf_fee ep dprin in
  (&&)
    ((&&) (Z.eqb (Z.sub (s'.sup d) (s.sup d)) dprin)
      (Z.eqb (Z.sub (s'.bal from d) (s.bal from d)) (Z.sub dprin fee)))
    (Z.eqb (Z.sub (s'.bal coq_COLL d) (s.bal coq_COLL d)) fee)

(** val holds_C02_step : cfg -> state -> op -> state -> bool **)

let holds_C02_step c s o s' =
  match o with
  | Create (f, _, e, _, aout) ->
    (match get_ep c e with
     | Some ep -> mint_law ep s s' f aout
     | None -> false)
  | Deposit (_, _, _, _, _, _) ->
    forallb (fun e -> Z.eqb (s'.sup e.ep_out) (s.sup e.ep_out)) c.epairs
  | Withdraw (_, _, _, _, _, _) ->
    forallb (fun e -> Z.eqb (s'.sup e.ep_out) (s.sup e.ep_out)) c.epairs
  | Draw (f, _, e, _, m, _) ->
    (match get_ep c e with
     | Some ep -> mint_law ep s s' f m
     | None -> false)
  | Repay (f, _, e, id, m, _) ->
    (match get_ep c e with
     | Some ep ->
       (match find_v s.vaults id with
        | Some v ->
          (match find_v s'.vaults id with
           | Some v' ->
             let d = ep.ep_out in
             (&&)
               ((&&)
                 (Z.eqb (Z.sub (s.sup d) (s'.sup d)) (Z.sub v.v_out v'.v_out))
                 (Z.eqb (Z.sub (s'.bal coq_COLL d) (s.bal coq_COLL d))
                   (Z.sub m (Z.sub v.v_out v'.v_out))))
               (Z.eqb (Z.sub (s.bal f d) (s'.bal f d)) m)
           | None -> false)
        | None -> false)
     | None -> false)
  | Close (f, _, e, id, ie) ->
    (match get_ep c e with
     | Some ep ->
       (match find_v s.vaults id with
        | Some v ->
          let d = ep.ep_out in
          let i = if Z.gtb ie Z0 then ie else Z0 in
          (&&)
            ((&&) (Z.eqb (Z.sub (s.sup d) (s'.sup d)) v.v_out)
              (Z.eqb (Z.sub (s'.bal coq_COLL d) (s.bal coq_COLL d))
                (Z.add (Z.add v.v_int i) v.v_fee)))
            (Z.eqb (Z.sub (s.bal f d) (s'.bal f d))
              (Z.add (Z.add (Z.add v.v_out v.v_int) i) v.v_fee))
        | None -> false)
     | None -> false)
  | DepositDraw (f, _, e, id, _, _, _) ->
    (match get_ep c e with
     | Some ep ->
       (match find_v s.vaults id with
        | Some v ->
          (match find_v s'.vaults id with
           | Some v' -> mint_law ep s s' f (Z.sub v'.v_out v.v_out)
           | None -> false)
        | None -> false)
     | None -> false)
  | StableCreate (f, _, e, _) ->
    (match get_ep c e with
     | Some ep ->
       mint_law ep s s' f
         (Z.sub (debt_sum c s' ep.ep_out) (debt_sum c s ep.ep_out))
     | None -> false)
  | StableDeposit (f, _, e, _, _) ->
    (match get_ep c e with
     | Some ep ->
       mint_law ep s s' f
         (Z.sub (debt_sum c s' ep.ep_out) (debt_sum c s ep.ep_out))
     | None -> false)
  | StableWithdraw (_, _, e, _, m) ->
    (match get_ep c e with
     | Some ep ->
       let d = ep.ep_out in
       (&&)
         (Z.eqb (Z.sub (s.sup d) (s'.sup d))
           (Z.sub (debt_sum c s d) (debt_sum c s' d)))
         (Z.eqb (Z.sub (s'.bal coq_COLL d) (s.bal coq_COLL d))
           (Z.sub m (Z.sub (s.sup d) (s'.sup d))))
     | None -> false)
  | InterestCalc (_, _, _) ->
    forallb (fun e -> Z.eqb (s'.sup e.ep_out) (s.sup e.ep_out)) c.epairs
  | _ -> true

(** val kf_C02_1 : cfg -> op -> bool **)

let kf_C02_1 c = function
| StableCreate (_, _, e, m) ->
  (match get_ep c e with
   | Some ep ->
     (&&) (Z.eqb ep.ep_ddf Z0)
       (negb
         (match other_token ep.ep_dec_in m ep.ep_dec_out with
          | Some t -> Z.eqb t m
          | None -> true))
   | None -> false)
| _ -> false

(** val kf_C01_1 : cfg -> op list -> bool **)

let kf_C01_1 c ops =
  existsb (kf_C02_1 c) ops

(** val cr_exact_ok :
    coq_Z -> coq_Z -> coq_Z -> coq_Z -> coq_Z -> coq_Z -> coq_Z -> bool **)

let cr_exact_ok min_cr ain pin dec_in aout pout dec_out =
  Z.leb
    (Z.mul
      (Z.mul (Z.sub min_cr (Zpos Coq_xH))
        (Z.sub (Z.mul (Z.mul aout pout) coq_P18) dec_out)) dec_in)
    (Z.mul (Z.mul (Z.add (Z.mul (Z.mul ain pin) coq_P18) dec_in) coq_P18)
      dec_out)

(** val out_price : state -> epair -> coq_Z option **)

let out_price s ep =
  if ep.ep_oracle_out then s.price ep.ep_out else Some ep.ep_out_price

(** val cr_ok : state -> epair -> coq_Z -> coq_Z -> bool **)

let cr_ok s ep ain debt =
  match calc_cr s ep ain debt with
  | Ok r ->
    (&&) (Z.leb ep.ep_min_cr r)
      (match s.price ep.ep_in with
       | Some pin ->
         (match out_price s ep with
          | Some pout ->
            cr_exact_ok ep.ep_min_cr ain pin ep.ep_dec_in debt pout
              ep.ep_dec_out
          | None -> false)
       | None -> false)
  | _ -> false

(** val price_required_missing : state -> epair -> bool **)

let price_required_missing s ep =
  match s.price ep.ep_in with
  | Some _ ->
    (&&) ep.ep_oracle_out
      (match s.price ep.ep_out with
       | Some _ -> false
       | None -> true)
  | None -> true

(** val c03_floor_ok : cfg -> state -> bool **)

let c03_floor_ok c s =
  forallb (fun v ->
    match get_ep c v.v_pair with
    | Some ep -> Z.leb ep.ep_floor v.v_out
    | None -> false) s.vaults

(** val c03_ceiling_ok : cfg -> state -> bool **)

let c03_ceiling_ok c s =
  forallb (fun e ->
    match s.prods e.ep_app e.ep_id with
    | Some p -> Z.leb p.p_mint e.ep_ceiling
    | None -> true) c.epairs

(** val holds_C03 : cfg -> state -> bool **)

let holds_C03 c s =
  (&&) (c03_floor_ok c s) (c03_ceiling_ok c s)

(** val holds_C03_step : cfg -> state -> op -> bool -> state -> bool **)

let holds_C03_step c s o ok s' =
  let risk = fun _ a e id create ->
    match get_ep c e with
    | Some ep ->
      if (s.esm a).e_status
      then true
      else if price_required_missing s ep
           then negb ok
           else if ok
                then (match if create
                            then find_v s'.vaults s'.vid
                            else find_v s'.vaults id with
                      | Some v ->
                        cr_ok s' ep v.v_in
                          (if create
                           then v.v_out
                           else Z.add (Z.add v.v_out v.v_int) v.v_fee)
                      | None -> false)
                else true
    | None -> negb ok
  in
  (match o with
   | Create (f, a, e, _, _) -> risk f a e Z0 true
   | Withdraw (f, a, e, id, _, _) -> risk f a e id false
   | Draw (f, a, e, id, _, _) -> risk f a e id false
   | DepositDraw (f, a, e, id, _, _, _) -> risk f a e id false
   | _ -> true)
