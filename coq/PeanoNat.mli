open Datatypes

module Nat :
 sig
  val eqb : nat -> nat -> bool
 end
