open Ascii
open HookLang
open String

val hook_table : (string * hook) list
