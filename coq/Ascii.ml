open Bool

type ascii =
| Ascii of bool * bool * bool * bool * bool * bool * bool * bool

(** val eqb : ascii -> ascii -> bool **)

let eqb a b =
  let Ascii (a0, a1, a2, a3, a4, a5, a6, a7) = a in
  let Ascii (b0, b1, b2, b3, b4, b5, b6, b7) = b in
  if if if if if if if eqb a0 b0 then eqb a1 b1 else false
                 then eqb a2 b2
                 else false
              then eqb a3 b3
              else false
           then eqb a4 b4
           else false
        then eqb a5 b5
        else false
     then eqb a6 b6
     else false
  then eqb a7 b7
  else false
