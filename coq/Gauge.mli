open Base
open BinInt
open BinNums
open Datatypes
open DecArith
open F64
open List

val split_loop : nat -> coq_Z -> coq_Z -> coq_Z -> coq_Z list

val split : coq_Z -> coq_Z -> coq_Z list outcome

type gauge = { g_deposit : coq_Z; g_distributed : coq_Z; g_triggered : 
               coq_Z; g_total : coq_Z; g_active : bool; g_start : coq_Z }

val do_sends : coq_Z -> coq_Z list -> coq_Z * coq_Z list

val trigger :
  coq_Z -> coq_Z list outcome -> coq_Z -> gauge -> ((gauge * coq_Z) * coq_Z
  list) outcome

val epoch_allocation : gauge -> coq_Z

type rstate = { r_bal : coq_Z; r_gauges : gauge list }

type gop =
| Create of coq_Z * coq_Z * coq_Z * coq_Z * coq_Z
| Trig of nat * coq_Z * coq_Z list outcome
| Donate of coq_Z

val set_gauge : gauge list -> nat -> gauge -> gauge list

val rstep : rstate -> gop -> rstate outcome

val rapply : rstate -> gop -> rstate

val undistributed : gauge list -> coq_Z

type epoch = { e_fresh : bool; e_cur : coq_Z; e_cest : coq_Z; e_dur : coq_Z }

type tick_result =
| TFresh
| TSkipped
| TTrigger
| TNothing

val epoch_tick : coq_Z -> epoch -> epoch * tick_result

val share_dec : coq_Z -> coq_Z -> coq_Z -> coq_Z

val share_reward : coq_Z -> coq_Z -> coq_Z -> coq_Z

val farm_rewards : coq_Z -> coq_Z list -> coq_Z list

val min_supplies : coq_Z list -> coq_Z list -> coq_Z list

val farm_rewards_master : coq_Z -> coq_Z list -> coq_Z list -> coq_Z list

val kf_C19_1 : coq_Z -> coq_Z -> bool

val holds_C19_split : coq_Z -> coq_Z -> coq_Z list -> bool

val holds_C19_trigger : gauge -> gauge -> coq_Z list -> coq_Z -> coq_Z -> bool

val holds_C19_custody : coq_Z -> gauge list -> bool

val holds_C19_share : coq_Z -> coq_Z -> coq_Z -> coq_Z -> bool
