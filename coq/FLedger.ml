open BinInt
open BinNums

type ledger = coq_Z -> coq_Z -> coq_Z

(** val lupd : ledger -> coq_Z -> coq_Z -> coq_Z -> ledger **)

let lupd l a d v a' d' =
  if (&&) (Z.eqb a' a) (Z.eqb d' d) then v else l a' d'

type lres =
| LOk of ledger
| LErr
| LPanic

(** val send : ledger -> coq_Z -> coq_Z -> coq_Z -> coq_Z -> lres **)

let send l from to0 d amt =
  if Z.ltb amt Z0
  then LPanic
  else if Z.eqb amt Z0
       then LOk l
       else if Z.ltb (l from d) amt
            then LErr
            else let l1 = lupd l from d (Z.sub (l from d) amt) in
                 LOk (lupd l1 to0 d (Z.add (l1 to0 d) amt))

(** val mint_to : ledger -> coq_Z -> coq_Z -> coq_Z -> ledger **)

let mint_to l to0 d amt =
  lupd l to0 d (Z.add (l to0 d) amt)

(** val burn_from : ledger -> coq_Z -> coq_Z -> coq_Z -> lres **)

let burn_from l from d amt =
  if Z.ltb amt Z0
  then LPanic
  else if Z.eqb amt Z0
       then LOk l
       else if Z.ltb (l from d) amt
            then LErr
            else LOk (lupd l from d (Z.sub (l from d) amt))
