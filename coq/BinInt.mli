open BinNat
open BinNums
open BinPos
open Datatypes

module Z :
 sig
  val double : coq_Z -> coq_Z

  val succ_double : coq_Z -> coq_Z

  val pred_double : coq_Z -> coq_Z

  val pos_sub : positive -> positive -> coq_Z

  val add : coq_Z -> coq_Z -> coq_Z

  val opp : coq_Z -> coq_Z

  val sub : coq_Z -> coq_Z -> coq_Z

  val mul : coq_Z -> coq_Z -> coq_Z

  val pow_pos : coq_Z -> positive -> coq_Z

  val pow : coq_Z -> coq_Z -> coq_Z

  val compare : coq_Z -> coq_Z -> comparison

  val leb : coq_Z -> coq_Z -> bool

  val ltb : coq_Z -> coq_Z -> bool

  val geb : coq_Z -> coq_Z -> bool

  val gtb : coq_Z -> coq_Z -> bool

  val eqb : coq_Z -> coq_Z -> bool

  val max : coq_Z -> coq_Z -> coq_Z

  val abs : coq_Z -> coq_Z

  val to_nat : coq_Z -> nat

  val of_nat : nat -> coq_Z

  val of_N : coq_N -> coq_Z

  val pos_div_eucl : positive -> coq_Z -> coq_Z * coq_Z

  val div_eucl : coq_Z -> coq_Z -> coq_Z * coq_Z

  val div : coq_Z -> coq_Z -> coq_Z

  val modulo : coq_Z -> coq_Z -> coq_Z

  val quotrem : coq_Z -> coq_Z -> coq_Z * coq_Z

  val quot : coq_Z -> coq_Z -> coq_Z

  val rem : coq_Z -> coq_Z -> coq_Z

  val even : coq_Z -> bool

  val odd : coq_Z -> bool

  val div2 : coq_Z -> coq_Z

  val log2 : coq_Z -> coq_Z

  val shiftl : coq_Z -> coq_Z -> coq_Z

  val shiftr : coq_Z -> coq_Z -> coq_Z
 end
