(* Tie (C) for C19.  gen_rewards_SplitTotalAmountPerEpoch is REGENERATED from /repo's
   x/rewards/keeper/utils.go on every run; Gauge.split is the hand-written model the C19 epoch
   theorems are about (the allocation of an epoch is an element of this list).  The two append loops
   of the Go function are for_range loops over the slice being built (Lib/GoSem.v); the theorem is a
   pointwise equality of the whole result list - or of the panic: totalEpochs = 0 with
   totalAmount >= 0 divides by zero - for all uint64 arguments. *)
From Coq Require Import String ZifyBool.
From Comdex Require Import Lib.Base Lib.DecArith Lib.GoSem Model.Gauge Gen.PureFuns
  Proofs.PureFunsLemmas Proofs.PureFunsLemmas2 Proofs.PureFunsC19.

Theorem tie_rewards_SplitTotalAmountPerEpoch : forall total epochs, u64 total -> u64 epochs ->
  gen_rewards_SplitTotalAmountPerEpoch total epochs = Gauge.split total epochs.
Proof.
  intros total epochs Ht He. unfold gen_rewards_SplitTotalAmountPerEpoch, split, g_umod, g_udiv, for_range.
  unfold u64 in *. rewrite !Z.sub_0_r.
  destruct (total <? epochs); [reflexivity|].
  destruct (Z.eqb_spec epochs 0) as [E0|E0]; [reflexivity|]. cbn [obind].
  destruct (Z.eqb_spec (total mod epochs) 0) as [Em|Em].
  - rewrite (for_loop_app_const (total / epochs)). reflexivity.
  - pose proof (Z.mod_pos_bound total epochs ltac:(lia)) as Hm.
    rewrite (wrap_u64_id (epochs - total mod epochs)) by (unfold u64; lia).
    assert (Hpp : 0 <= total / epochs < GoSem.two63).
    { assert (2 <= epochs) by (destruct (Z.eq_dec epochs 1) as [->|]; [rewrite Z.mod_1_r in Em; lia|lia]).
      split; [apply Z.div_pos; lia|]. apply Z.div_lt_upper_bound; [lia|].
      rewrite two64_two63 in Ht. assert (0 < GoSem.two63) by (vm_compute; reflexivity). nia. }
    rewrite (wrap_u64_id (total / epochs + 1)) by (unfold u64; rewrite two64_two63; lia).
    rewrite (for_loop_split_loop _ (total / epochs) _ eq_refl). reflexivity.
Qed.
Print Assumptions tie_rewards_SplitTotalAmountPerEpoch.

Theorem tie_rewards_recognised : gen_rewards_SplitTotalAmountPerEpoch_unrecognised = [].
Proof. reflexivity. Qed.
Print Assumptions tie_rewards_recognised.

(* non-vacuity: 10 over 4 epochs, the remainder goes to the last epochs *)
Example tie_rewards_split_example : gen_rewards_SplitTotalAmountPerEpoch 10 4 = Ok [2; 2; 3; 3].
Proof. vm_compute. reflexivity. Qed.
