(* Tie (C) for C10.  gen_auctionsV2_* are REGENERATED from /repo's x/auctionsV2/keeper/maths.go on
   every run; DutchV2.initial_price / price_at_c / end_price are the hand-written price functions of
   Model/DutchV2.v.  [to_option] maps a panic of either class to None (the models' convention).

   DISAGREEMENT (reported, not papered over): GetPriceFromLinearDecreaseFunction computes
   timeToReachZeroPrice.Sub(timeElapsed) with sdk.Int.Sub and converts both that difference and
   timeToReachZeroPrice with Int64(), which panics outside the int64 range (maths.go:15-17);
   DutchV2.price_at_c has no such panic.  The two agree whenever both values are int64 (the callers
   build both Ints from int64 values), and for ALL inputs every value the code returns is the model's. *)
From Coq Require Import String.
From Comdex Require Import Lib.Base Lib.DecArith Lib.GoSem Model.DutchV2 Gen.PureFuns
  Proofs.PureFunsLemmas Proofs.PureFunsLemmas2.

Theorem tie_auctionsV2_InitialPrice : forall twa premium,
  to_option (gen_auctionsV2_InitialPrice twa premium) = DutchV2.initial_price premium twa.
Proof.
  intros. unfold gen_auctionsV2_InitialPrice, initial_price. unfold_gosem. cbv [obind to_option]. tie_auto.
Qed.
Print Assumptions tie_auctionsV2_InitialPrice.

Theorem tie_auctionsV2_LinearPrice : forall p tau t,
  int64_c tau = Some tau -> int64_c (tau - t) = Some (tau - t) ->
  to_option (gen_auctionsV2_LinearPrice p tau t) = DutchV2.price_at_c p tau t.
Proof.
  intros p tau t Ht Hd. unfold gen_auctionsV2_LinearPrice, price_at_c. unfold_gosem.
  unfold isub_c, chk_int. rewrite (int64_fits_int _ Hd). cbv [obind]. rewrite Hd.
  destruct (dmul_c p (dec_of_int (tau - t))) as [r|]; [|destruct (tau =? 0); reflexivity].
  rewrite Ht, dec_of_int_eq0. destruct (tau =? 0); [reflexivity|].
  destruct (chk_dec _); reflexivity.
Qed.
Print Assumptions tie_auctionsV2_LinearPrice.

(* for all inputs: a value returned by the code is the value of the model *)
Theorem tie_auctionsV2_LinearPrice_refines : forall p tau t r,
  gen_auctionsV2_LinearPrice p tau t = Ok r -> DutchV2.price_at_c p tau t = Some r.
Proof.
  intros p tau t r. unfold gen_auctionsV2_LinearPrice, price_at_c. unfold_gosem.
  unfold isub_c, chk_int. cbv [obind].
  destruct (fits_int (tau - t)); [|discriminate].
  destruct (int64_c (tau - t)) as [d|] eqn:Ed; [|discriminate]. apply int64_c_some in Ed. destruct Ed as [-> _].
  destruct (dmul_c p (dec_of_int (tau - t))) as [x|]; [|discriminate].
  destruct (int64_c tau) as [u|] eqn:Eu; [|discriminate]. apply int64_c_some in Eu. destruct Eu as [-> _].
  rewrite dec_of_int_eq0. destruct (tau =? 0); [discriminate|].
  destruct (chk_dec _); [|discriminate]. intro H; inversion H; reflexivity.
Qed.
Print Assumptions tie_auctionsV2_LinearPrice_refines.

(* GetCollateralTokenEndPrice = Multiply = Dec.Mul: the model's end_price is the unchecked product;
   the code adds the 315-bit check *)
Theorem tie_auctionsV2_EndPrice : forall price cusp,
  to_option (gen_auctionsV2_EndPrice price cusp) = chk_dec (DutchV2.end_price price cusp).
Proof.
  intros. unfold gen_auctionsV2_EndPrice, gen_auctionsV2_Multiply, end_price. unfold_gosem. unfold dmul_c.
  destruct (chk_dec _); reflexivity.
Qed.
Print Assumptions tie_auctionsV2_EndPrice.

(* vault.GetAmountOfOtherToken (x/vault/keeper/vault.go:679), which the Dutch auction calls for every
   conversion between the collateral and the debt token: the token amount and the nil error are those of
   DutchV2.conv_c (the five checked operations of the code, tested by the model after the fact), for
   all inputs; both assets found *)
Theorem tie_vault_GetAmountOfOtherToken_conv : forall id1 rate1 amt1 id2 rate2 dec1 dec2,
  snd3 (to_option (gen_vault_GetAmountOfOtherToken id1 rate1 amt1 id2 rate2 true true dec1 dec2))
  = pair0 (DutchV2.conv_c dec1 rate1 amt1 dec2 rate2).
Proof.
  intros. unfold gen_vault_GetAmountOfOtherToken, conv_c, snd3, pair0. cbn [negb].
  unfold_gosem. unfold dmul_c, dquo_c, dtrunc_int_c, chk_dec, chk_int. rewrite dec_of_int_eq0.
  cbv [obind to_option option_map].
  destruct (dec1 =? 0) eqn:E1; cbn [orb].
  - destruct (fits_dec _); reflexivity.
  - destruct (rate2 =? 0) eqn:E2.
    + destruct (fits_dec (dmul (dec_of_int amt1) rate1)); [|reflexivity]. destruct (fits_dec _); reflexivity.
    + cbv zeta. repeat (destruct (fits_dec _); cbn [andb]; [|reflexivity]). destruct (fits_int _); reflexivity.
Qed.
Print Assumptions tie_vault_GetAmountOfOtherToken_conv.

Theorem tie_auctionsV2_conv_recognised : gen_vault_GetAmountOfOtherToken_unrecognised = [].
Proof. reflexivity. Qed.
Print Assumptions tie_auctionsV2_conv_recognised.

Theorem tie_auctionsV2_recognised :
  gen_auctionsV2_Multiply_unrecognised = [] /\ gen_auctionsV2_InitialPrice_unrecognised = [] /\
  gen_auctionsV2_LinearPrice_unrecognised = [] /\ gen_auctionsV2_EndPrice_unrecognised = [].
Proof. repeat split; reflexivity. Qed.
Print Assumptions tie_auctionsV2_recognised.
