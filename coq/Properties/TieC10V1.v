(* Tie (C) for C10, generation 1 (x/auction).  gen_auction_* are REGENERATED from /repo's
   x/auction/keeper/math.go on every run; DutchV1.v1_initial_price / v1_end_price / v1_price_at_c are the
   hand-written price functions of Model/DutchV1.v that the generation-1 theorems of C10 are about
   (v1_activate, v1_tick_raw and v1_posted_price are built from them).  [to_option] maps a panic of
   either class to None (the models' convention).

   DISAGREEMENT (the same as in generation 2, reported, not papered over):
   getPriceFromLinearDecreaseFunction computes tau.Sub(dur) with sdk.Int.Sub (256-bit check) and
   converts both that difference and tau with Int64(), which panics outside the int64 range
   (math.go:22-24); DutchV1.v1_price_at_c has neither panic.  The two agree whenever both values are
   int64 (the callers build both Ints from int64 values: dutch.go:495-501, v1_posted_price), and for
   ALL inputs every value the code returns is the model's. *)
From Coq Require Import String.
From Comdex Require Import Lib.Base Lib.DecArith Lib.GoSem Model.DutchV1 Gen.PureFuns
  Proofs.PureFunsLemmas Proofs.PureFunsLemmas2.

(* Multiply = Dec.Mul *)
Theorem tie_auction_Multiply : forall a b,
  to_option (gen_auction_Multiply a b) = dmul_c a b.
Proof. intros. unfold gen_auction_Multiply. unfold_gosem. destruct (dmul_c a b); reflexivity. Qed.
Print Assumptions tie_auction_Multiply.

(* getOutflowTokenInitialPrice(price, buffer) = buffer.Mul(NewDec(price.Int64())), all inputs *)
Theorem tie_auction_InitialPrice : forall twa buffer,
  to_option (gen_auction_InitialPrice twa buffer) = DutchV1.v1_initial_price buffer twa.
Proof.
  intros. unfold gen_auction_InitialPrice, v1_initial_price. unfold_gosem. cbv [obind to_option]. tie_auto.
Qed.
Print Assumptions tie_auction_InitialPrice.

(* getOutflowTokenEndPrice = Multiply = Dec.Mul: the model's v1_end_price is the unchecked product;
   the code adds the 315-bit check *)
Theorem tie_auction_EndPrice : forall price cusp,
  to_option (gen_auction_EndPrice price cusp) = chk_dec (DutchV1.v1_end_price price cusp).
Proof.
  intros. unfold gen_auction_EndPrice, gen_auction_Multiply, v1_end_price. unfold_gosem. unfold dmul_c.
  destruct (chk_dec _); reflexivity.
Qed.
Print Assumptions tie_auction_EndPrice.

(* getPriceFromLinearDecreaseFunction(top, tau, dur), tau and tau - dur int64 values *)
Theorem tie_auction_LinearPrice : forall top tau dur,
  int64_c tau = Some tau -> int64_c (tau - dur) = Some (tau - dur) ->
  to_option (gen_auction_LinearPrice top tau dur) = DutchV1.v1_price_at_c top tau dur.
Proof.
  intros p tau t Ht Hd. unfold gen_auction_LinearPrice, v1_price_at_c. unfold_gosem.
  unfold isub_c, chk_int. rewrite (int64_fits_int _ Hd). cbv [obind]. rewrite Hd.
  destruct (dmul_c p (dec_of_int (tau - t))) as [r|]; [|destruct (tau =? 0); reflexivity].
  rewrite Ht, dec_of_int_eq0. destruct (tau =? 0); [reflexivity|].
  destruct (chk_dec _); reflexivity.
Qed.
Print Assumptions tie_auction_LinearPrice.

(* for all inputs: a value returned by the code is the value of the model *)
Theorem tie_auction_LinearPrice_refines : forall top tau dur r,
  gen_auction_LinearPrice top tau dur = Ok r -> DutchV1.v1_price_at_c top tau dur = Some r.
Proof.
  intros p tau t r. unfold gen_auction_LinearPrice, v1_price_at_c. unfold_gosem.
  unfold isub_c, chk_int. cbv [obind].
  destruct (fits_int (tau - t)); [|discriminate].
  destruct (int64_c (tau - t)) as [d|] eqn:Ed; [|discriminate]. apply int64_c_some in Ed. destruct Ed as [-> _].
  destruct (dmul_c p (dec_of_int (tau - t))) as [x|]; [|discriminate].
  destruct (int64_c tau) as [u|] eqn:Eu; [|discriminate]. apply int64_c_some in Eu. destruct Eu as [-> _].
  rewrite dec_of_int_eq0. destruct (tau =? 0); [discriminate|].
  destruct (chk_dec _); [|discriminate]. intro H; inversion H; reflexivity.
Qed.
Print Assumptions tie_auction_LinearPrice_refines.

(* the price the block hook posts (dutch.go:495-501): tau is produced by TruncateInt64, hence int64; for an
   elapsed time t with tau - t int64 the regenerated function applied to that tau is v1_posted_price *)
Theorem tie_auction_posted_price : forall top endp dur t num den ntau tau,
  dmul_c top (dec_of_int dur) = Some num -> dsub_c top endp = Some den -> dquo_c num den = Some ntau ->
  int64_c (dtrunc_int ntau) = Some tau -> int64_c (tau - t) = Some (tau - t) ->
  to_option (gen_auction_LinearPrice top tau t) = DutchV1.v1_posted_price top endp dur t.
Proof.
  intros top endp dur t num den ntau tau Hn Hd Hq Ht Hs. unfold v1_posted_price. rewrite Hn, Hd, Hq, Ht.
  apply tie_auction_LinearPrice; [|exact Hs].
  destruct (int64_c_some _ _ Ht) as [Heq _]. subst tau. exact Ht.
Qed.
Print Assumptions tie_auction_posted_price.

(* non-vacuity: top 1.2, tau 3600 s, 900 s elapsed: 0.9; buffer 1.2 on a price of 1000000: 1200000 *)
Example tie_auction_examples :
  gen_auction_LinearPrice (12 * 10 ^ 17) 3600 900 = Ok (9 * 10 ^ 17) /\
  v1_price_at_c (12 * 10 ^ 17) 3600 900 = Some (9 * 10 ^ 17) /\
  gen_auction_InitialPrice 1000000 (12 * 10 ^ 17) = Ok (1200000 * P18) /\
  gen_auction_EndPrice (1200000 * P18) (7 * 10 ^ 17) = Ok (840000 * P18).
Proof. vm_compute. repeat split; reflexivity. Qed.

Theorem tie_auction_recognised :
  gen_auction_Multiply_unrecognised = [] /\ gen_auction_InitialPrice_unrecognised = [] /\
  gen_auction_LinearPrice_unrecognised = [] /\ gen_auction_EndPrice_unrecognised = [].
Proof. repeat split; reflexivity. Qed.
Print Assumptions tie_auction_recognised.
