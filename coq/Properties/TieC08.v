(* Tie (C) for C08 (lend, loan-to-value rule).  gen_lend_CalculateCollateralizationRatio and
   gen_lend_VerifyCollateralizationRatio are REGENERATED from /repo's x/lend/keeper/rates.go on every
   run; Lend.calc_cr / Lend.verify_cr are the hand-written models that every C08 theorem is about
   (verify_cr is the check in the borrow / draw / cross-pool handlers of Model/Lend.v).
   Both Go functions are keeper methods.  What they read - the two results (value, error) of
   Market.CalcAssetPrice, called through the keeper's Market interface, once for the collateral and
   once for the debt - are parameters of the regenerated definitions (totalIn err totalOut err_1); the
   theorems instantiate them with the model's calc_price on the same asset and amount ([ret v e]:
   Ok v for a nil error, Err e otherwise; the second call is only made when the first returned nil).
   The asset parameters are structs of which only the field Id is read (assetIn_Id, assetOut_Id).
   The error of the rule is the model's code (ErrorInvalidCollateralizationRatio = Err 30,
   emit_purefuns_specs_x1.go).  [res_of] turns the pair (value, error) into the models' outcome;
   both panic classes of the code are the model's Panic (nothing recovers a panic here). *)
From Coq Require Import String.
From Comdex Require Import Lib.Base Lib.DecArith Lib.GoSem Model.Lend Gen.PureFuns Proofs.PureFunsLemmas.

(* lend.CalculateCollateralizationRatio: totalOut.Quo(totalIn) after the two price reads, for all inputs *)
Theorem tie_lend_CalculateCollateralizationRatio :
  forall cfg st ain aid_in aout aid_out tin ein tout eout,
  calc_price cfg st aid_in ain = ret tin ein ->
  (ein = 0 -> calc_price cfg st aid_out aout = ret tout eout) ->
  res_of (gen_lend_CalculateCollateralizationRatio ain aout aid_in tin ein aid_out tout eout)
  = Lend.calc_cr cfg st ain aid_in aout aid_out.
Proof.
  intros until eout. intros Hin Hout.
  unfold gen_lend_CalculateCollateralizationRatio, calc_cr. rewrite Hin. unfold ret.
  destruct (ein =? 0) eqn:Ei; cbn [negb obind res_of].
  - apply Z.eqb_eq in Ei. rewrite (Hout Ei). unfold ret.
    destruct (eout =? 0) eqn:Eo; cbn [negb obind res_of]; [|rewrite Eo; reflexivity].
    unfold_gosem. unfold dquo_c. cbv [obind res_of]. tie_auto.
  - rewrite Ei. reflexivity.
Qed.
Print Assumptions tie_lend_CalculateCollateralizationRatio.

(* lend.VerifyCollateralizationRatio: the error result as a number (0 = nil) *)
Definition err_of (o : outcome Z) : outcome unit :=
  match o with Ok e => if e =? 0 then Ok tt else Err e | Err _ => Panic | Panic => Panic end.

Theorem tie_lend_VerifyCollateralizationRatio :
  forall cfg st ain aid_in aout aid_out ltv tin ein tout eout,
  calc_price cfg st aid_in ain = ret tin ein ->
  (ein = 0 -> calc_price cfg st aid_out aout = ret tout eout) ->
  err_of (gen_lend_VerifyCollateralizationRatio ain aout ltv aid_in tin ein aid_out tout eout)
  = Lend.verify_cr cfg st ain aid_in aout aid_out ltv.
Proof.
  intros until eout. intros Hin Hout.
  unfold gen_lend_VerifyCollateralizationRatio, verify_cr.
  rewrite <- (tie_lend_CalculateCollateralizationRatio cfg st ain aid_in aout aid_out tin ein tout eout Hin Hout).
  destruct (gen_lend_CalculateCollateralizationRatio _ _ _ _ _ _ _ _) as [[r e] | c |]; [|reflexivity|reflexivity].
  cbn [obind res_of err_of]. destruct (e =? 0) eqn:Ee; cbn [negb obind].
  - destruct (r >? ltv); reflexivity.
  - cbn [err_of]. rewrite Ee. reflexivity.
Qed.
Print Assumptions tie_lend_VerifyCollateralizationRatio.

(* The read itself: market.CalcAssetPrice is regenerated too (gen_market_CalcAssetPrice, listed for
   C03 with the vault model's error codes 3 / 10); Lend.calc_price is that function with the lend
   model's codes 20 (asset does not exist) / 21 (no active price).  [found] / [dec]: the asset record
   and its Decimals; [ft ia twa]: the Twa record exists, IsPriceActive, its Twa. *)
Definition lend_code (o : outcome Z) : outcome Z :=
  match o with Err c => if c =? 3 then Err 20 else if c =? 10 then Err 21 else Err c | _ => o end.

Theorem tie_lend_CalcAssetPrice : forall cfg st id amt (found ft ia : bool) twa dec,
  option_map a_dec (zget (c_assets cfg) id) = (if found then Some dec else None) ->
  zget (prices st) id = (if ft && ia then Some twa else None) ->
  lend_code (res_of (gen_market_CalcAssetPrice id amt found ft ia twa dec)) = Lend.calc_price cfg st id amt.
Proof.
  intros cfg st id amt found ft ia twa dec Ha Hp. unfold gen_market_CalcAssetPrice, calc_price. rewrite Hp.
  destruct (zget (c_assets cfg) id) as [a|]; destruct found; cbn [option_map] in Ha; try discriminate; cbn [negb];
    [|reflexivity].
  injection Ha as Ha. rewrite Ha.
  destruct (ft && ia); [|reflexivity].
  unfold_gosem. unfold dmul_c, dquo_c. cbv [obind res_of lend_code]. tie_auto.
Qed.
Print Assumptions tie_lend_CalcAssetPrice.

(* non-vacuity: a state with two priced assets, a borrow of 70 against collateral of 100 at equal prices *)
Example tie_lend_cr_example :
  let cfg := mkCfg [(1, mkAsset 1 1000000); (2, mkAsset 2 1000000)] [] [] [] [] [] in
  let st := mkSt [] [] [] (mkBank [] []) 0 0 [(1, 2000000); (2, 2000000)] [] [] [] in
  calc_price cfg st 1 100000000 = ret (200000000 * P18) 0 /\
  calc_price cfg st 2 70000000 = ret (140000000 * P18) 0 /\
  res_of (gen_lend_CalculateCollateralizationRatio 100000000 70000000 1 (200000000 * P18) 0 2 (140000000 * P18) 0)
    = Ok 700000000000000000 /\
  err_of (gen_lend_VerifyCollateralizationRatio 100000000 70000000 700000000000000000 1 (200000000 * P18) 0 2 (140000000 * P18) 0) = Ok tt /\
  err_of (gen_lend_VerifyCollateralizationRatio 100000000 70000000 699999999999999999 1 (200000000 * P18) 0 2 (140000000 * P18) 0) = Err 30.
Proof. vm_compute. repeat split; reflexivity. Qed.

Theorem tie_lend_cr_recognised :
  gen_lend_CalculateCollateralizationRatio_unrecognised = [] /\ gen_lend_VerifyCollateralizationRatio_unrecognised = [] /\
  gen_market_CalcAssetPrice_unrecognised = [].
Proof. repeat split; reflexivity. Qed.
Print Assumptions tie_lend_cr_recognised.
