(* C19 — Incentive payouts never exceed their funding and follow farmed share.
   Property theorems only; each is closed by a lemma proved in Proofs/GaugeProofs.v. *)
From Comdex Require Import Lib.Base Lib.DecArith Lib.F64 Model.Gauge Proofs.GaugeProofs.

(* the per-epoch allocations sum exactly to the deposit, there is one per epoch, and each is the
   floor or the floor + 1 of deposit / epochs.  Guards exactly as coded: deposit < epochs gives
   the empty list (rejected at creation: ErrDepositSmallThanEpoch), epochs = 0 divides by zero
   (unreachable from the trigger: triggered = total = 0 deactivates the gauge first) *)
Theorem c19_split_sum : forall total epochs, 1 <= epochs -> epochs <= total ->
  exists sp, split total epochs = Ok sp /\ zsum sp = total /\ zlen sp = epochs /\
             Forall (fun x => x = total / epochs \/ x = total / epochs + 1) sp.
Proof. exact split_spec. Qed.
Print Assumptions c19_split_sum.

Theorem c19_split_guards : forall total epochs,
  (total < epochs -> split total epochs = Ok []) /\ (0 <= total -> split total 0 = Panic).
Proof. intros. split; [apply split_small|apply split_zero_epochs]. Qed.
Print Assumptions c19_split_guards.

(* each epoch pays out at most that epoch's allocation: whatever the farming module calculates
   ([calc] is arbitrary: every set of farmers, every pool configuration, every oracle price),
   what the receivers get in one trigger is at most what is booked as distributed, which is at
   most the allocation of the epoch being triggered, which fits in the undistributed remainder;
   the custody balance falls by exactly what was received *)
Theorem c19_epoch_cap : forall now calc bal g g' bal' paid, 0 <= bal ->
  trigger now calc bal g = Ok (g', bal', paid) ->
  0 <= zsum paid <= g_distributed g' - g_distributed g /\
  g_distributed g' - g_distributed g <= (if g_triggered g' =? g_triggered g then 0 else epoch_allocation g) /\
  (g_triggered g' <> g_triggered g ->
     g_triggered g' = g_triggered g + 1 /\ epoch_allocation g <= g_deposit g - g_distributed g) /\
  bal' = bal - zsum paid /\ g_deposit g' = g_deposit g /\ g_total g' = g_total g.
Proof.
  intros now calc bal g g' bal' paid Hb E.
  pose proof (trigger_spec _ _ _ _ _ _ _ Hb E) as (D1 & D2 & D3 & D4 & D5 & D6 & D7). cbv zeta in *.
  destruct D7 as [(A & B & C)|(A & B & C & D & F)].
  - rewrite A, Z.eqb_refl. repeat split; try lia.
  - destruct (Z.eqb_spec (g_triggered g') (g_triggered g)); [lia|]. repeat split; try lia.
Qed.
Print Assumptions c19_epoch_cap.

(* the cumulative amount booked as distributed (an upper bound of what was paid) never exceeds the
   deposit, for every gauge, after every finite history of gauge creations, epoch triggers at any
   times (so: skipped epochs, repeated triggers, triggers before the start time, failing farming
   calculations) and other credits; failed steps change nothing *)
Theorem c19_cumulative : forall ops g, In g (r_gauges (rrun (mkR 0 []) ops)) ->
  0 <= g_distributed g <= g_deposit g.
Proof.
  intros ops g Hin. pose proof (rrun_inv ops _ rinv_init) as (HG & _ & _).
  rewrite Forall_forall in HG. exact (HG g Hin).
Qed.
Print Assumptions c19_cumulative.

(* PARTIAL custody: the rewards module account holds at least the undistributed remainder of ALL
   gauges (hence of the active ones) after every history.  Missing: swap-fee gauges (their
   DepositAmount is itself the remainder), the external locker / vault / lend reward programs of
   rewards/keeper/iter.go (their "available" amounts share the same account), other debits of the
   module account.  The harness checks the inequality on the implementation after every step. *)
Theorem c19_custody_partial : forall ops,
  let s := rrun (mkR 0 []) ops in undistributed (r_gauges s) <= r_bal s /\ 0 <= r_bal s.
Proof. intros ops. pose proof (rrun_inv ops _ rinv_init) as (_ & HU & HB). split; assumption. Qed.
Print Assumptions c19_custody_partial.

(* epoch timing: a tick triggers at most one epoch and only strictly after its end; after a halt of
   more than two durations the missed epochs are skipped without any distribution *)
Theorem c19_epoch_timing : forall now e e' r, 0 < e_dur e -> epoch_tick now e = (e', r) ->
  e_dur e' = e_dur e /\
  match r with
  | TTrigger => e_cur e' = e_cur e + 1 /\ e_cest e' = e_cest e + e_dur e /\ e_cest e' < now
  | TSkipped => e_cur e' = e_cur e /\ e_cest e < e_cest e' <= now /\ now - e_cest e' < e_dur e
  | TFresh => e_cur e' = e_cur e /\ e_fresh e' = false
  | TNothing => e' = e
  end.
Proof. exact epoch_tick_spec. Qed.
Print Assumptions c19_epoch_timing.

(* farmer share, every input: payout <= (share + value_i * 10^-18 + 0.5 * 10^-18) * (1 + 2^-53).
   The float conversion is the exact round-to-nearest-even model of Lib/F64.v (relative error
   2^-53 proved there), not a hypothesis. *)
Theorem c19_share_general : forall coins total s, 0 <= coins -> 0 < total -> 0 <= s ->
  let p := share_reward coins total s in
  0 <= p /\ p * P36 * total * F_P53 <= (s * (coins * P36 + total) + HALF18 * total) * (F_P53 + 1).
Proof. exact share_general. Qed.
Print Assumptions c19_share_general.

(* within one part in 10^12 outside the known-finding class, for farmers worth at least one unit *)
Theorem c19_share : forall coins total s, 0 <= coins -> 0 < total -> P18 <= s ->
  kf_C19_1 coins total = false ->
  holds_C19_share coins total s (share_reward coins total s) = true.
Proof. exact share_bound. Qed.
Print Assumptions c19_share.

(* known finding C19-F1: allocation 1, two farmers worth 3 000 000 004 and 1 units: the first is
   paid 1 although its pro-rata share is below 1 by 3.3e-10 (relative) *)
Theorem c19_share_refuted : exists coins total s,
  kf_C19_1 coins total = true /\ 0 < s < total /\
  holds_C19_share coins total s (share_reward coins total s) = false.
Proof.
  exists 1, (3000000005 * 1000000000000000000), (3000000004 * 1000000000000000000).
  vm_compute. repeat split.
Qed.
Print Assumptions c19_share_refuted.

(* ---- non-vacuity ---- *)
Example c19_split_example : split 150 11 = Ok [13; 13; 13; 13; 14; 14; 14; 14; 14; 14; 14].
Proof. vm_compute. reflexivity. Qed.

Example c19_history_example :
  let s := rrun (mkR 0 []) [Create 100 3 10 5 1000; Trig 0 20 (Ok [10; 20]); Trig 0 30 (Ok [30; 30]);
                            Trig 0 40 (Err 7); Trig 0 50 (Ok [33]); Trig 0 60 (Ok [34]); Trig 0 70 (Ok [1])] in
  r_bal s = 3 /\ map g_distributed (r_gauges s) = [97] /\ map g_triggered (r_gauges s) = [3] /\
  map g_active (r_gauges s) = [false].
Proof. vm_compute. repeat split. Qed.

Example c19_share_example : farm_rewards 10000000000 [1000000000000000000000; 2000000000000000000000; 7000000000000000000000]
  = [1000000000; 2000000000; 7000000000].
Proof. vm_compute. reflexivity. Qed.
