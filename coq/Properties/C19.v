(* C19 — Incentive payouts never exceed their funding and follow farmed share.
   Property theorems only; each is closed by a lemma proved in Proofs/GaugeProofs.v. *)
From Comdex Require Import Lib.Base Lib.DecArith Lib.F64 Model.Gauge Proofs.GaugeProofs Proofs.GaugeStableProofs Proofs.GaugeMetaProofs Proofs.GaugeDenomProofs.

(* the per-epoch allocations sum exactly to the deposit, there is one per epoch, and each is the
   floor or the floor + 1 of deposit / epochs.  Guards exactly as coded: deposit < epochs gives
   the empty list (rejected at creation: ErrDepositSmallThanEpoch), epochs = 0 divides by zero
   (unreachable from the trigger: triggered = total = 0 deactivates the gauge first) *)
Theorem c19_split_sum : forall total epochs, 1 <= epochs -> epochs <= total ->
  exists sp, split total epochs = Ok sp /\ zsum sp = total /\ zlen sp = epochs /\
             Forall (fun x => x = total / epochs \/ x = total / epochs + 1) sp.
Proof. exact split_spec. Qed.
Print Assumptions c19_split_sum.

Theorem c19_split_guards : forall total epochs,
  (total < epochs -> split total epochs = Ok []) /\ (0 <= total -> split total 0 = Panic).
Proof. intros. split; [apply split_small|apply split_zero_epochs]. Qed.
Print Assumptions c19_split_guards.

(* each epoch pays out at most that epoch's allocation: whatever the farming module calculates
   ([calc] is arbitrary: every set of farmers, every pool configuration, every oracle price),
   what the receivers get in one trigger is at most what is booked as distributed, which is at
   most the allocation of the epoch being triggered, which fits in the undistributed remainder;
   the custody balance falls by exactly what was received; nothing else of the record changes *)
Theorem c19_epoch_cap : forall now calc bal g g' bal' paid,
  trigger now calc bal g = Ok (g', bal', paid) ->
  0 <= pay_total paid <= g_distributed g' - g_distributed g /\
  g_distributed g' - g_distributed g <= (if g_triggered g' =? g_triggered g then 0 else epoch_allocation g) /\
  (g_triggered g' <> g_triggered g ->
     g_triggered g' = g_triggered g + 1 /\ epoch_allocation g <= g_deposit g - g_distributed g /\
     g_triggered g <> g_total g /\ g_active g = true /\ g_start g <= now) /\
  bal' = bal - pay_total paid /\ (0 <= bal -> 0 <= bal') /\ g_deposit g' = g_deposit g /\ g_total g' = g_total g.
Proof. exact epoch_cap. Qed.
Print Assumptions c19_epoch_cap.

(* the same for a swap-fee gauge (no class excluded since fix C19-F2): the epoch's allocation is the
   deposit it has accumulated; it books at most that and pays at most what it books; custody moves
   by exactly what was paid and what the fee transfer brought in.  Either the distribution fails and
   nothing happens, or the fee transfer fails and the distribution stays booked (deposit reduced,
   epoch not counted), or both succeed *)
Theorem c19_epoch_cap_swapfee : forall calc recv bal g g' bal' paid,
  g_swap g = true -> 0 <= g_deposit g -> trigger_swap calc recv bal g = Ok (g', bal', paid) ->
  let d := g_distributed g' - g_distributed g in
  0 <= pay_total paid <= d /\ d <= g_deposit g /\ bal' = bal - pay_total paid + (g_deposit g' - (g_deposit g - d)) /\
  ((g' = g /\ paid = []) \/
   (is_ok recv = false /\ g_triggered g' = g_triggered g /\ g_deposit g' = g_deposit g - d) \/
   (exists r, recv = Ok r /\ g_triggered g' = g_triggered g + 1 /\ g_deposit g' = g_deposit g - d + r)).
Proof. exact epoch_cap_swapfee. Qed.
Print Assumptions c19_epoch_cap_swapfee.

(* the cumulative amount booked as distributed (an upper bound of what was paid) never exceeds the
   deposit, for every deposit-funded gauge, after EVERY finite history (no class excluded) of gauge
   and program creations, BeginBlockers at any times with any environment (so: skipped epochs,
   repeated triggers, triggers before the start time, failing farming calculations, other gauges
   and programs misbehaving) and other credits; failed steps change nothing *)
Theorem c19_cumulative : forall ops g, In g (r_gauges (rrun rinit ops)) -> g_swap g = false ->
  0 <= g_distributed g <= g_deposit g.
Proof. exact cumulative_all. Qed.
Print Assumptions c19_cumulative.

(* the whole life of one gauge, creation -> every epoch -> exhaustion: after ANY sequence of trigger
   attempts (any times, any farming calculations) what the receivers got in total is at most what
   is booked, which is at most the sum of the allocations of the epochs triggered so far, which is
   at most the deposit; at most n epochs are triggered; custody fell by exactly what was received *)
Theorem c19_gauge_life : forall dep n start dur denom sp evs bal0,
  1 <= n -> n <= dep -> split dep n = Ok sp -> 0 <= bal0 ->
  let '(g, bal, acc) := fold_left life_step evs (fresh_gauge dep n start dur denom, bal0, 0) in
  0 <= acc <= g_distributed g /\ g_distributed g <= alloc_sum sp (g_triggered g) /\
  alloc_sum sp (g_triggered g) <= dep /\ 0 <= g_triggered g <= n /\ bal = bal0 - acc /\ g_deposit g = dep.
Proof. exact gauge_life. Qed.
Print Assumptions c19_gauge_life.

(* an exhausted gauge pays nothing more *)
Theorem c19_exhausted : forall now calc bal g g' bal' paid, g_triggered g = g_total g ->
  trigger now calc bal g = Ok (g', bal', paid) ->
  paid = [] /\ bal' = bal /\ g_distributed g' = g_distributed g /\ g_triggered g' = g_triggered g.
Proof. exact trigger_exhausted. Qed.
Print Assumptions c19_exhausted.

(* custody, NO class excluded: after every history of gauge creations (incl. swap-fee gauges), locker
   and vault program creations, BeginBlockers at any times with any well-formed environment (failing
   fee transfers, failing farming calculations, program steps that panic and are rolled back by their
   own wrapper, any amounts and populations), and other credits, in several denoms, the rewards
   module account holds at least the remainders of ALL gauges plus the available rewards of ALL
   programs (hence of the active ones: the predicate the harness evaluates on the implementation).
   Well-formed (op_wf): a fee transfer hands over a non-negative coin; the owners' balances of a
   program are non-negative and add up to at most the recorded total *)
Theorem c19_custody_gauges_programs : forall ops d, forallb op_wf ops = true -> forallb no_lend_op ops = true ->
  let s := rrun rinit ops in
  owed d s <= r_bal s d /\ holds_C19_custody d (r_bal s d) (r_gauges s) (r_exts s) = true.
Proof. exact custody_no_lend. Qed.
Print Assumptions c19_custody_gauges_programs.

(* custody with lend programs: every history that does not meet class C19-F4 (run_clean) *)
Theorem c19_custody : forall ops d, forallb op_wf ops = true -> run_clean rinit ops = true ->
  let s := rrun rinit ops in
  owed d s <= r_bal s d /\ holds_C19_custody d (r_bal s d) (r_gauges s) (r_exts s) = true.
Proof. exact custody_clean. Qed.
Print Assumptions c19_custody.

(* a locker / vault program never books more than it has left (fix C19-F3; before it the bound needed
   4 * owners * available <= 10^18): any amounts, any number of owners, any days left, provided the
   owners' balances are non-negative and add up to at most the recorded total; what the owners
   receive is at most what is booked and custody falls by exactly what they receive *)
Theorem c19_program_safe : forall now e bal x x' bal' paid,
  ext_tick now e bal x = Ok (x', bal', paid) -> xenv_wf e = true -> 0 <= x_avail x ->
  0 <= x_avail x' <= x_avail x /\ 0 <= pay_total paid <= x_avail x - x_avail x' /\ bal' = bal - pay_total paid /\
  (0 <= bal -> 0 <= bal') /\ x_denom x' = x_denom x /\ x_kind x' = x_kind x.
Proof. exact ext_tick_wf. Qed.
Print Assumptions c19_program_safe.

(* the hook after fix b2d3331 (each program distribution in its own ApplyFuncIfNoError): whatever the
   external programs do - return an error, panic, overdraw - the BeginBlocker succeeds whenever the
   epoch / gauge step does, and the gauges and epoch records it leaves are exactly those of that
   step; only a failure of the epoch / gauge step itself drops the whole hook *)
Theorem c19_hook_isolation : forall now e s,
  match run_epochs now (r_epochs s) (r_gauges s) (be_farm e) (be_recv e) (r_bal s) with
  | Ok (es, gs, _, _) => exists s' ps, begin_block now e s = Ok (s', ps) /\ r_gauges s' = gs /\ r_epochs s' = es
  | Err c => begin_block now e s = Err c
  | Panic => begin_block now e s = Panic
  end.
Proof. exact begin_block_gauges. Qed.
Print Assumptions c19_hook_isolation.

(* known finding C19-F4: a lend reward program of 1 000 000 units of a token priced 2.0, one day, one
   borrower: DistributeExtRewardLend pays 2 000 000 (a value paid out as an amount); a gauge's
   5 000 000 in the same denom is left with 4 000 000 *)
Theorem c19_custody_lend_refuted : exists ops d, forallb op_wf ops = true /\ run_clean rinit ops = false /\
  let s := rrun rinit ops in
  r_bal s d < owed_g d (r_gauges s) /\ holds_C19_custody d (r_bal s d) (r_gauges s) (r_exts s) = false.
Proof. exact custody_lend_refuted. Qed.
Print Assumptions c19_custody_lend_refuted.

(* epoch timing: a tick triggers at most one epoch and only strictly after its end; after a halt of
   more than two durations the missed epochs are skipped without any distribution *)
Theorem c19_epoch_timing : forall now e e' r, 0 < e_dur e -> epoch_tick now e = (e', r) ->
  e_dur e' = e_dur e /\
  match r with
  | TTrigger => e_cur e' = e_cur e + 1 /\ e_cest e' = e_cest e + e_dur e /\ e_cest e' < now
  | TSkipped => e_cur e' = e_cur e /\ e_cest e < e_cest e' <= now /\ now - e_cest e' < e_dur e
  | TFresh => e_cur e' = e_cur e /\ e_fresh e' = false
  | TNothing => e' = e
  end.
Proof. exact epoch_tick_spec. Qed.
Print Assumptions c19_epoch_timing.

(* farmer share, every input: payout <= (share + value_i * 10^-18 + 0.5 * 10^-18) * (1 + 2^-53).
   The float conversion is the exact round-to-nearest-even model of Lib/F64.v (relative error
   2^-53 proved there), not a hypothesis. *)
Theorem c19_share_general : forall coins total s, 0 <= coins -> 0 < total -> 0 <= s ->
  let p := share_reward coins total s in
  0 <= p /\ p * P36 * total * F_P53 <= (s * (coins * P36 + total) + HALF18 * total) * (F_P53 + 1).
Proof. exact share_general. Qed.
Print Assumptions c19_share_general.

(* within one part in 10^12 outside the known-finding class, for farmers worth at least one unit *)
Theorem c19_share : forall coins total s, 0 <= coins -> 0 < total -> P18 <= s ->
  kf_C19_1 coins total = false ->
  holds_C19_share coins total s (share_reward coins total s) = true.
Proof. exact share_bound. Qed.
Print Assumptions c19_share.

(* the same through the farming calculation of a gauge: whenever GetFarmingRewardsData returns a
   reward (plain pool, or master pool with the min(master, child) rule) the total eligible value is
   positive, the reward belongs to a farmer of the pool, a farmer without eligible value (nothing
   farmed in the child pools of a master pool) gets nothing, and the reward is within one part in
   10^12 of coins * value / total eligible value *)
Theorem c19_share_farm : forall e coins ps a r, farm_calc e coins = Ok ps -> In (a, r) ps -> 0 <= coins ->
  Forall (fun f => 0 <= snd f) (eligible e) ->
  let total := zsum (map snd (eligible e)) in
  0 < total /\
  exists s, In (a, s) (eligible e) /\ (s = 0 -> r = 0) /\
    (P18 <= s -> kf_C19_1 coins total = false -> holds_C19_share coins total s r = true).
Proof. exact farm_share_bound. Qed.
Print Assumptions c19_share_farm.

(* known finding C19-F1: allocation 1, two farmers worth 3 000 000 004 and 1 units: the first is
   paid 1 although its pro-rata share is below 1 by 3.3e-10 (relative) *)
Theorem c19_share_refuted : exists coins total s,
  kf_C19_1 coins total = true /\ 0 < s < total /\
  holds_C19_share coins total s (share_reward coins total s) = false.
Proof.
  exists 1, (3000000005 * 1000000000000000000), (3000000004 * 1000000000000000000).
  vm_compute. repeat split.
Qed.
Print Assumptions c19_share_refuted.

(* ---- non-vacuity ---- *)
Example c19_split_example : split 150 11 = Ok [13; 13; 13; 13; 14; 14; 14; 14; 14; 14; 14].
Proof. vm_compute. reflexivity. Qed.

(* a history with two gauges (one swap-fee), a program and two denoms: gauge 2 lives its
   whole life (3 epochs of 33, 33, 34), the custody hypotheses hold and the balances cover *)
Definition c19_example_ops : list gop :=
  [CreateSwap 1 0 86400; Create 1 100 3 0 0 43200 100 true; ExtCreate 0 3 600 2 1 0 600 true;
   Begin 10 (mkBenv [] [] []);
   Begin 20 (mkBenv [FarmErr; FarmPlain [(1, 1000000000000000000); (2, 2000000000000000000)]] [Ok 40; Err 1] [mkXenv 300 [(11, 100, 0); (12, 200, 0)]]);
   Begin 43300 (mkBenv [FarmPlain [(1, 1000000000000000000)]; FarmPlain [(1, 1000000000000000000); (2, 2000000000000000000)]] [Ok 7; Err 1] [mkXenv 300 [(11, 100, 0); (12, 200, 0)]]);
   Begin 86500 (mkBenv [FarmPlain [(1, 1000000000000000000)]; FarmPlain [(1, 3000000000000000000)]] [Ok 7; Err 1] [mkXenv 300 [(11, 100, 0); (12, 200, 0)]]);
   Begin 130000 (mkBenv [FarmPlain [(1, 1000000000000000000)]; FarmErr] [Ok 0; Err 1] [mkXenv 300 [(11, 100, 0); (12, 200, 0)]]);
   Begin 180000 (mkBenv [FarmPlain [(1, 1000000000000000000)]; FarmErr] [Ok 0; Err 1] [mkXenv 300 [(11, 100, 0); (12, 200, 0)]])].
Example c19_history_example :
  let s := rrun rinit c19_example_ops in
  forallb op_wf c19_example_ops = true /\ forallb no_lend_op c19_example_ops = true /\ run_clean rinit c19_example_ops = true /\
  map g_distributed (r_gauges s) = [47; 100] /\ map g_triggered (r_gauges s) = [3; 3] /\ map g_active (r_gauges s) = [true; false] /\
  map x_avail (r_exts s) = [0] /\ map x_active (r_exts s) = [true] /\ r_bal s 1 = 0 /\ owed 1 s = 0 /\ r_bal s 3 = 0 /\ owed 3 s = 0.
Proof. vm_compute. repeat split. Qed.

Example c19_life_example :
  fold_left life_step [(5, farm_calc (FarmPlain [(1, 1000000000000000000); (2, 2000000000000000000)]));
                       (9, farm_calc FarmErr); (10, farm_calc (FarmPlain [(1, 1000000000000000000)]));
                       (20, farm_calc (FarmPlain [(1, 1000000000000000000); (2, 1000000000000000000)])); (30, farm_calc (FarmPlain [(1, 5)]))]
            (fresh_gauge 100 3 0 43200 1, 1000, 0)
  = (mkGauge 100 100 3 3 false 0 43200 false 1, 900, 100).
Proof. vm_compute. reflexivity. Qed.

Example c19_share_example : farm_rewards 10000000000 [1000000000000000000000; 2000000000000000000000; 7000000000000000000000]
  = [1000000000; 2000000000; 7000000000].
Proof. vm_compute. reflexivity. Qed.

(* master pool: farmer 2 has nothing in the child pools, so the whole allocation goes to farmer 1 *)
Example c19_master_example :
  farm_calc (FarmMaster [(1, 3000000000000000000); (2, 5000000000000000000)] [2000000000000000000; 0]) 1000 = Ok [(1, 1000)] /\
  eligible (FarmMaster [(1, 3000000000000000000); (2, 5000000000000000000)] [2000000000000000000; 0])
  = [(1, 2000000000000000000); (2, 0)].
Proof. vm_compute. split; reflexivity. Qed.

(* eligibility follows the child-pool list THE GAUGE WAS CREATED WITH ([m] = what MsgCreateGauge carried;
   [farm_env_of] computes the environment of the gauge from it and from the per-pool farmed values of the
   pool's active farmers): a master gauge with child pools pays only accounts that farm a positive value in
   the gauge's pool AND in those child pools - the listed ones, or every other enabled pool when none is
   listed - and what a farmer farms in a pool outside them counts for nothing.  The runner compares the
   stored gauge record (PoolId, IsMasterPool, ChildPoolIds) with [m] after every step and judges
   holds_C19_share with the eligibility [farm_env_of m] defines. *)
Theorem c19_master_child_list : forall m others obs coins ps a r,
  m_master m = true -> child_ids m others <> [] -> obs_wf obs -> 0 <= coins ->
  farm_calc (farm_env_of m others obs) coins = Ok ps -> In (a, r) ps -> 0 < r ->
  exists o, In o obs /\ fo_acct o = a /\ 0 < fo_value o /\ 0 < child_value (child_ids m others) (fo_others o).
Proof. exact master_paid_only_listed. Qed.
Print Assumptions c19_master_child_list.

Theorem c19_unlisted_pool_counts_nothing : forall ids vals,
  (forall pv, In pv vals -> In (fst pv) ids -> snd pv = 0) -> child_value ids vals = 0.
Proof. exact child_value_unlisted. Qed.
Print Assumptions c19_unlisted_pool_counts_nothing.

(* three pools; master gauge on pool 1 created with the child list [2]; farmer 1 farms pools 1 and 2, farmer 2
   pools 1 and 3 (unlisted), farmer 3 pool 1 only: the whole allocation goes to farmer 1.  With NO list every
   other pool is a child pool and farmer 2 is paid as well. *)
Example c19_master_child_list_example :
  let obs := [(1, 3000000000000000000, [(2, 2000000000000000000)]);
              (2, 5000000000000000000, [(3, 4000000000000000000)]);
              (3, 1000000000000000000, [])] in
  farm_calc (farm_env_of (mkMeta 1 true [2]) [2; 3] obs) 1000 = Ok [(1, 1000)] /\
  eligible (farm_env_of (mkMeta 1 true [2]) [2; 3] obs) = [(1, 2000000000000000000); (2, 0); (3, 0)] /\
  farm_calc (farm_env_of (mkMeta 1 true []) [2; 3] obs) 1200 = Ok [(1, 400); (2, 800)] /\
  child_ids (mkMeta 1 true [2; 1]) [2; 3] = [2].
Proof. vm_compute. repeat split; reflexivity. Qed.

Example c19_epoch_timing_example :
  epoch_tick 100 (mkEpoch false 3 30 40) = (mkEpoch false 4 70 40, TTrigger) /\
  epoch_tick 100 (mkEpoch false 3 10 30) = (mkEpoch false 3 100 30, TSkipped) /\
  epoch_tick 100 (mkEpoch true 0 100 30) = (mkEpoch false 0 70 30, TFresh) /\
  snd (epoch_tick 100 (mkEpoch false 3 70 30)) = TNothing.
Proof. vm_compute. repeat split. Qed.

(* a swap-fee gauge holding 500: it pays 166 + 333 to two farmers worth 1 and 2, books 499 and takes in 40 *)
Example c19_swapfee_example :
  trigger_swap (farm_calc (FarmPlain [(1, 1000000000000000000); (2, 2000000000000000000)])) (Ok 40) 9000
               (mkGauge 500 10 4 1 true 0 86400 true 1)
  = Ok (mkGauge 41 509 5 1 true 0 86400 true 1, 8541, [(1, 166); (2, 333)]).
Proof. vm_compute. reflexivity. Qed.

(* a program step: 3 owners of 100, 200, 300 out of 600, 1000 available over 2 remaining days *)
Example c19_program_example :
  let x := mkExt 0 3 1000 true 2 0 50 1 in
  let e := mkXenv 600 [(11, 100, 0); (12, 200, 0); (13, 300, 0)] in
  xenv_wf e = true /\
  ext_tick 100 e 5000 x = Ok (mkExt 0 3 501 true 2 1 86500 1, 4501, [(11, 83); (12, 166); (13, 250)]).
Proof. vm_compute. split; reflexivity. Qed.

(* regression, former finding C19-F2: a swap-fee gauge holding 500 whose fee transfer fails pays the 500
   once and books it (deposit 0, distributed 500); the later epochs pay nothing; the other gauge's
   1000 stay covered (before the fix: 500 paid at every epoch, 500 left against remainders of 1500) *)
Example c19_swapfee_regression :
  let ops := [CreateSwap 1 0 86400; Create 1 1000 5 400000 0 129600 1000 true;
              Begin 10 (mkBenv [] [] []); Begin 50000 (mkBenv [FarmErr; FarmErr] [Ok 500; Err 1] []);
              Begin 140000 (mkBenv [FarmPlain [(7, 1000000000000000000)]; FarmErr] [Err 1; Err 1] []);
              Begin 230000 (mkBenv [FarmPlain [(7, 1000000000000000000)]; FarmErr] [Err 1; Err 1] [])] in
  let s := rrun rinit ops in
  forallb op_wf ops = true /\ forallb no_lend_op ops = true /\
  map g_deposit (r_gauges s) = [0; 1000] /\ map g_distributed (r_gauges s) = [500; 0] /\ map g_triggered (r_gauges s) = [1; 0] /\
  r_bal s 1 = 1000 /\ owed 1 s = 1000.
Proof. vm_compute. repeat split. Qed.

(* regression, former finding C19-F3: six equal lockers, 5*10^18 available on the last day: each owner
   gets 833333333333333333, the program books 4999999999999999998 and keeps 2 (before the fix it
   booked 10 more than it had and a gauge's 1000 in the same denom was left with 990) *)
Example c19_program_regression :
  let pop := mkXenv 6000000 [(11,1000000,0);(12,1000000,0);(13,1000000,0);(14,1000000,0);(15,1000000,0);(16,1000000,0)] in
  let ops := [ExtCreate 0 5 5000000000000000000 1 1 0 5000000000000000000 true; Create 5 1000 3 500000 0 86400 1000 true;
              Begin 10 (mkBenv [FarmErr] [] [pop]); Begin 86401 (mkBenv [FarmErr] [] [pop])] in
  let s := rrun rinit ops in
  forallb op_wf ops = true /\ forallb no_lend_op ops = true /\
  map x_avail (r_exts s) = [2] /\ r_bal s 5 = 1002 /\ owed 5 s = 1002 /\
  ext_tick 86401 pop 5000000000000001000 (mkExt 0 5 5000000000000000000 true 1 0 86400 1)
  = Ok (mkExt 0 5 2 true 1 1 172801 1, 1002,
        [(11, 833333333333333333); (12, 833333333333333333); (13, 833333333333333333);
         (14, 833333333333333333); (15, 833333333333333333); (16, 833333333333333333)]).
Proof. vm_compute. repeat split. Qed.

(* the hook: a locker program of 2^63 (Int64() panics at its first distribution) next to a gauge: at
   86500 the locker step panics and is rolled back by its own wrapper (program record untouched), the
   epoch bookkeeping (third epoch counted) and the gauge's state (deactivated after its two epochs) stay *)
Example c19_hook_example :
  let pop := mkXenv 1000 [(11, 1000, 0)] in
  let f := FarmPlain [(1, 1000000000000000000)] in
  let ops := [ExtCreate 0 3 9223372036854775808 2 1 0 9223372036854775808 true; Create 1 100 2 0 0 43200 100 true;
              Begin 10 (mkBenv [f] [] [pop]); Begin 20 (mkBenv [f] [] [pop]); Begin 43300 (mkBenv [f] [] [pop])] in
  let s := rrun rinit ops in
  let s' := rapply s (Begin 86500 (mkBenv [f] [] [pop])) in
  begin_steps_ok 86500 (mkBenv [f] [] [pop]) s = [true; false; true; true] /\
  map g_distributed (r_gauges s') = [100] /\ map g_triggered (r_gauges s') = [2] /\
  map g_active (r_gauges s) = [true] /\ map g_active (r_gauges s') = [false] /\
  map e_cur (r_epochs s) = [2] /\ map e_cur (r_epochs s') = [3] /\
  r_exts s' = r_exts s /\ map x_count (r_exts s') = [0] /\ r_bal s' 3 = 9223372036854775808.
Proof. vm_compute. repeat split. Qed.

(* the hook, error return (the input of fix b2d3331): a locker program (1 000 000 000 locked, 5 000 000
   over 5 days), a second locker program created later on an app whose kill switch is then turned
   on, a vault program.  One day later DistributeExtRewardLocker pays the first program's owner
   1 000 000 and then returns ErrCircuitBreakerEnabled at the second: the whole locker step is rolled
   back (nothing paid to 11, records untouched), the vault step after it still runs (21 gets 300).
   With the switch off the locker step is kept *)
Example c19_hook_error_example :
  let pop := mkXenv 1000000000 [(11, 1000000000, 0)] in
  let vpop := mkXenv 500 [(21, 500, 0)] in
  let ops := [ExtCreate 0 3 5000000 5 1 0 5000000 true; ExtCreate 0 3 700 1 1 0 700 true; ExtCreate 1 3 900 3 1 0 900 true] in
  let s := rrun rinit ops in
  let on := mkBenv [] [] [pop; mkXenvH 0 [] true; vpop] in
  let off := mkBenv [] [] [pop; mkXenv 0 []; vpop] in
  begin_steps_ok 86401 on s = [true; false; true; true] /\
  (exists s', rstep s (Begin 86401 on) = Ok (s', [(3, 21, 300)]) /\
     map x_avail (r_exts s') = [5000000; 700; 600] /\ map x_count (r_exts s') = [0; 0; 1] /\ r_bal s' 3 = 5001300) /\
  begin_steps_ok 86401 off s = [true; true; true; true] /\
  (exists s', rstep s (Begin 86401 off) = Ok (s', [(3, 11, 1000000); (3, 21, 300)]) /\
     map x_avail (r_exts s') = [4000000; 700; 600] /\ map x_count (r_exts s') = [1; 1; 1] /\ r_bal s' 3 = 4001300).
Proof. vm_compute. repeat split; eexists; repeat split. Qed.

(* ---------------- stable-mint external reward programs (CombinePSMUserPositions, DistributeExtRewardStableVault) ---------------- *)

(* one stable-mint program at one BeginBlocker (fix C19-F5: the eligible amount is capped by the total
   minted): whatever the entries, the users' holdings, the total minted and the days left, the program
   never books more than it has left, the users receive EXACTLY what is booked, custody falls by exactly
   that, and the program's epoch record is advanced (at every call, due or not) *)
Theorem c19_stable_program_safe : forall now h total recs bal x x' bal' paid,
  stable_tick now h total recs bal x = Ok (x', bal', paid) -> 0 <= total -> recs_wf recs -> 0 <= sx_avail x ->
  0 <= sx_avail x' <= sx_avail x /\ pay_total paid = sx_avail x - sx_avail x' /\ bal' = bal - pay_total paid /\
  (0 <= bal -> 0 <= bal') /\ sx_denom x' = sx_denom x /\ sx_app x' = sx_app x /\ sx_count x' = sx_count x + 1 /\ sx_next x' = now + DAY.
Proof. exact stable_tick_wf. Qed.
Print Assumptions c19_stable_program_safe.

(* CombinePSMUserPositions (every program of the app making its pass) only moves amounts between the
   entries of a user: the sum of all entries of the app is unchanged and the keys stay distinct *)
Theorem c19_stable_combine_total : forall h app all recs, NoDup (map skey recs) ->
  rsum (combined_for h all app recs) = rsum recs /\ NoDup (map skey (combined_for h all app recs)).
Proof. intros. apply combined_for_sum. assumption. Qed.
Print Assumptions c19_stable_combine_total.

(* custody over histories that INCLUDE stable-mint programs: after every history of gauge / swap-fee gauge /
   locker / vault / lend / stable-mint program creations, BeginBlockers (all six steps of abci.go) at any
   times and heights with any well-formed environment, and other credits, that does not meet class C19-F4
   (lend programs), the rewards account holds at least the remainders of all gauges plus the available
   rewards of all programs, stable-mint programs included, and no program's available rewards are negative *)
Theorem c19_custody_stable : forall ops d, forallb op_wf2 ops = true -> run_clean2 rinit2 ops = true ->
  let s := rrun2 rinit2 ops in
  owed2 d s <= r_bal (r2_base s) d /\
  holds_C19_custody2 d (r_bal (r2_base s) d) (r_gauges (r2_base s)) (r_exts (r2_base s)) (r2_sx s) = true.
Proof. exact custody2_clean. Qed.
Print Assumptions c19_custody_stable.

(* regression, former finding C19-F5 (the history observed on the real keepers): a 1-day program of 1 000 000
   and a 3-day program of 50 262 694 in one denom; one entry of 199 800 000 whose owner still holds it while
   others have redeemed the total minted down to 10 390 105.  The share is capped at the whole: the first
   program pays its 1 000 000 and is empty, the second pays a third (16 754 231); before the fix the first
   paid 19 229 834 out of the second's coins and went to -18 229 834 *)
Example c19_stable_regression :
  let se := (10390105, [mkSRec 11 4 199800000 199800000]) in
  let ops := [SCreate 1 4 1000000 1 1 0 1000000 true; SCreate 1 4 50262694 3 1 0 50262694 true;
              Begin2 86401 (mkBenv [] [] []) 8 [se; se]] in
  let s := rrun2 rinit2 ops in
  forallb op_wf2 ops = true /\ run_clean2 rinit2 ops = true /\
  map sx_avail (r2_sx s) = [0; 33508463] /\ map sx_count (r2_sx s) = [1; 1] /\ r_bal (r2_base s) 4 = 33508463 /\ owed2 4 s = 33508463 /\
  (exists s', rstep2 (rrun2 rinit2 (firstn 2 ops)) (Begin2 86401 (mkBenv [] [] []) 8 [se; se]) = Ok (s', [(4, 11, 1000000); (4, 11, 16754231)])).
Proof. vm_compute. repeat split. eexists. reflexivity. Qed.

(* non-vacuity: a gauge, a locker program and a stable-mint program in one denom; three entries of user 11
   (two old enough to be combined into one) and one of user 12; the program is due (a day has passed since
   the previous BeginBlocker), pays 11 and 12 out of the shrinking remainder, and is counted; at the next
   block nothing is due but the epoch record moves on; two blocks later it is deactivated *)
Example c19_stable_example :
  let recs := [mkSRec 11 3 100 1000; mkSRec 11 5 200 1000; mkSRec 11 9 50 1000; mkSRec 12 4 300 120] in
  let ops := [Base (Create 4 100 2 0 0 43200 100 true); Base (ExtCreate 0 4 600 2 1 0 600 true); SCreate 1 4 9000 2 2 0 9000 true;
              Begin2 86401 (mkBenv [FarmErr] [] [mkXenv 0 []]) 10 [(1000, recs)];
              Begin2 86407 (mkBenv [FarmErr] [] [mkXenv 0 []]) 11 [(1000, recs)];
              Begin2 200000 (mkBenv [FarmErr] [] [mkXenv 0 []]) 12 [(1000, recs)]] in
  forallb op_wf2 ops = true /\ run_clean2 rinit2 ops = true /\
  combined_for 10 (r2_sx (rrun2 rinit2 (firstn 3 ops))) 1 recs = [mkSRec 11 3 300 1000; mkSRec 11 9 50 1000; mkSRec 12 4 300 120] /\
  (exists s', rstep2 (rrun2 rinit2 (firstn 3 ops)) (nth 3 ops (Base (Donate 0 0))) = Ok (s', [(4, 11, 1350); (4, 12, 459)]) /\
     map sx_avail (r2_sx s') = [7191] /\ map sx_count (r2_sx s') = [1]) /\
  (let s := rrun2 rinit2 ops in
   map sx_avail (r2_sx s) = [7191] /\ map sx_active (r2_sx s) = [false] /\ map sx_count (r2_sx s) = [3] /\
   r_bal (r2_base s) 4 = 7891 /\ owed2 4 s = 7891 /\
   holds_C19_custody2 4 (r_bal (r2_base s) 4) (r_gauges (r2_base s)) (r_exts (r2_base s)) (r2_sx s) = true).
Proof. vm_compute. repeat split. eexists. repeat split. Qed.

(* ---------------- the swap-fee distribution denom changes between epochs ---------------- *)
(* custody over EVERY history of ordinary gauges and swap-fee gauges in which the coin handed over by
   TransferFundsForSwapFeeDistribution may be of ANY denom at every epoch (the liquidity parameter SwapFeeDistrDenom
   changed): in every denom the custody account covers the remaining deposits of all active gauges.  The remainder a
   swap-fee gauge still held in the OLD denom is dropped from its books at the change (gauge.go 291-295: the deposit
   coin is replaced) and stays in the module account: custody only gains by it. *)
Theorem c19_custody_denom_change : forall ops d, forallb dop_wf ops = true ->
  let s := drun dinit ops in holds_C19_custody d (d_bal s d) (map dg_g (d_gauges s)) [] = true.
Proof. exact custody_denom_change. Qed.
Print Assumptions c19_custody_denom_change.

(* one swap-fee gauge, one epoch, whatever the denoms of its coins and of the coin received: the deposit stays
   non-negative and in every denom the remainder on the gauge's books moves by at most what custody moves *)
Theorem c19_swap_denom_trigger : forall calc recv b dg dg' b' ps,
  g_swap (dg_g dg) = true -> 0 <= g_deposit (dg_g dg) -> BInv b -> recvd_wf recv = true ->
  trigger_swap_d calc recv b dg = Ok (dg', b', ps) ->
  (0 <= g_deposit (dg_g dg')) /\ BInv b' /\
  forall d, (if g_denom (dg_g dg') =? d then g_rem (dg_g dg') else 0) - (if g_denom (dg_g dg) =? d then g_rem (dg_g dg) else 0) <= b' d - b d.
Proof. exact swap_denom_trigger. Qed.
Print Assumptions c19_swap_denom_trigger.

(* non-vacuity (the history of seeded/C19-8): a pool's swap-fee gauge takes in and pays fees in denom 1 for two
   epochs, the parameter is switched to denom 3 while the gauge holds 500001 of denom 1 (500000 are paid, 1 stays
   behind in custody), then four epochs in denom 3; a second gauge of 10 000 000 of denom 3 that has not started
   shares the custody account.  At the first payout in the new denom the distributed coin is REPLACED (400000 of
   denom 3) and the deposit is reduced by it: 400001 - 400000 + 300000. *)
Example c19_denom_change_example :
  let fe := [FarmPlain [(1, 600000000000000000); (2, 400000000000000000)]; FarmErr] in
  let ops := [DCreateSwap 1 0 86400; DCreate 3 10000000 10 3600000 0 86400 10000000 true;
     DTrigger 86400 86400 fe [Ok (1, 1000001); Err 1]; DTrigger 172800 86400 fe [Ok (1, 500000); Err 1];
     DTrigger 259200 86400 fe [Ok (3, 400001); Err 1]; DTrigger 345600 86400 fe [Ok (3, 300000); Err 1];
     DTrigger 432000 86400 fe [Ok (3, 0); Err 1]; DTrigger 518400 86400 fe [Ok (3, 200000); Err 1]] in
  let proj := fun s : dstate =>
     (map (fun dg => (g_deposit (dg_g dg), g_distributed (dg_g dg), g_denom (dg_g dg), dg_ddenom dg)) (d_gauges s), d_bal s 1, d_bal s 3) in
  forallb dop_wf ops = true /\
  proj (drun dinit (firstn 4 ops)) = ([(500001, 1000000, 1, 1); (10000000, 0, 3, 3)], 500001, 10000000) /\
  proj (drun dinit (firstn 5 ops)) = ([(400001, 1500000, 3, 1); (10000000, 0, 3, 3)], 1, 10400001) /\
  proj (drun dinit (firstn 6 ops)) = ([(300001, 400000, 3, 3); (10000000, 0, 3, 3)], 1, 10300001) /\
  proj (drun dinit ops) = ([(200001, 700000, 3, 3); (10000000, 0, 3, 3)], 1, 10200001) /\
  (exists s', dstep (drun dinit (firstn 5 ops)) (nth 5 ops (DDonate 0 0)) = Ok (s', [(3, 1, 240000); (3, 2, 160000)])) /\
  holds_C19_trigger_d (nth 0 (d_gauges (drun dinit (firstn 5 ops))) (mkDG (mkGauge 0 0 0 0 false 0 0 false 0) 0))
                      (nth 0 (d_gauges (drun dinit (firstn 6 ops))) (mkDG (mkGauge 0 0 0 0 false 0 0 false 0) 0)) 300000 = true.
Proof. vm_compute. repeat split. eexists. reflexivity. Qed.
