(* C19 — Incentive payouts never exceed their funding and follow farmed share.
   Property theorems only; each is closed by a lemma proved in Proofs/GaugeProofs.v. *)
From Comdex Require Import Lib.Base Lib.DecArith Lib.F64 Model.Gauge Proofs.GaugeProofs.

(* the per-epoch allocations sum exactly to the deposit, there is one per epoch, and each is the
   floor or the floor + 1 of deposit / epochs.  Guards exactly as coded: deposit < epochs gives
   the empty list (rejected at creation: ErrDepositSmallThanEpoch), epochs = 0 divides by zero
   (unreachable from the trigger: triggered = total = 0 deactivates the gauge first) *)
Theorem c19_split_sum : forall total epochs, 1 <= epochs -> epochs <= total ->
  exists sp, split total epochs = Ok sp /\ zsum sp = total /\ zlen sp = epochs /\
             Forall (fun x => x = total / epochs \/ x = total / epochs + 1) sp.
Proof. exact split_spec. Qed.
Print Assumptions c19_split_sum.

Theorem c19_split_guards : forall total epochs,
  (total < epochs -> split total epochs = Ok []) /\ (0 <= total -> split total 0 = Panic).
Proof. intros. split; [apply split_small|apply split_zero_epochs]. Qed.
Print Assumptions c19_split_guards.

(* epoch timing: a tick triggers at most one epoch and only strictly after its end; after a halt of
   more than two durations the missed epochs are skipped without any distribution *)
Theorem c19_epoch_timing : forall now e e' r, 0 < e_dur e -> epoch_tick now e = (e', r) ->
  e_dur e' = e_dur e /\
  match r with
  | TTrigger => e_cur e' = e_cur e + 1 /\ e_cest e' = e_cest e + e_dur e /\ e_cest e' < now
  | TSkipped => e_cur e' = e_cur e /\ e_cest e < e_cest e' <= now /\ now - e_cest e' < e_dur e
  | TFresh => e_cur e' = e_cur e /\ e_fresh e' = false
  | TNothing => e' = e
  end.
Proof. exact epoch_tick_spec. Qed.
Print Assumptions c19_epoch_timing.

(* farmer share, every input: payout <= (share + value_i * 10^-18 + 0.5 * 10^-18) * (1 + 2^-53).
   The float conversion is the exact round-to-nearest-even model of Lib/F64.v (relative error
   2^-53 proved there), not a hypothesis. *)
Theorem c19_share_general : forall coins total s, 0 <= coins -> 0 < total -> 0 <= s ->
  let p := share_reward coins total s in
  0 <= p /\ p * P36 * total * F_P53 <= (s * (coins * P36 + total) + HALF18 * total) * (F_P53 + 1).
Proof. exact share_general. Qed.
Print Assumptions c19_share_general.

(* within one part in 10^12 outside the known-finding class, for farmers worth at least one unit *)
Theorem c19_share : forall coins total s, 0 <= coins -> 0 < total -> P18 <= s ->
  kf_C19_1 coins total = false ->
  holds_C19_share coins total s (share_reward coins total s) = true.
Proof. exact share_bound. Qed.
Print Assumptions c19_share.

(* known finding C19-F1: allocation 1, two farmers worth 3 000 000 004 and 1 units: the first is
   paid 1 although its pro-rata share is below 1 by 3.3e-10 (relative) *)
Theorem c19_share_refuted : exists coins total s,
  kf_C19_1 coins total = true /\ 0 < s < total /\
  holds_C19_share coins total s (share_reward coins total s) = false.
Proof.
  exists 1, (3000000005 * 1000000000000000000), (3000000004 * 1000000000000000000).
  vm_compute. repeat split.
Qed.
Print Assumptions c19_share_refuted.

(* ---- non-vacuity ---- *)
Example c19_split_example : split 150 11 = Ok [13; 13; 13; 13; 14; 14; 14; 14; 14; 14; 14].
Proof. vm_compute. reflexivity. Qed.

Example c19_share_example : farm_rewards 10000000000 [1000000000000000000000; 2000000000000000000000; 7000000000000000000000]
  = [1000000000; 2000000000; 7000000000].
Proof. vm_compute. reflexivity. Qed.
