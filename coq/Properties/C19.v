(* C19 — Incentive payouts never exceed their funding and follow farmed share.
   Property theorems only; each is closed by a lemma proved in Proofs/GaugeProofs.v. *)
From Comdex Require Import Lib.Base Lib.DecArith Lib.F64 Model.Gauge Proofs.GaugeProofs.

(* the per-epoch allocations sum exactly to the deposit, there is one per epoch, and each is the
   floor or the floor + 1 of deposit / epochs.  Guards exactly as coded: deposit < epochs gives
   the empty list (rejected at creation: ErrDepositSmallThanEpoch), epochs = 0 divides by zero
   (unreachable from the trigger: triggered = total = 0 deactivates the gauge first) *)
Theorem c19_split_sum : forall total epochs, 1 <= epochs -> epochs <= total ->
  exists sp, split total epochs = Ok sp /\ zsum sp = total /\ zlen sp = epochs /\
             Forall (fun x => x = total / epochs \/ x = total / epochs + 1) sp.
Proof. exact split_spec. Qed.
Print Assumptions c19_split_sum.

Theorem c19_split_guards : forall total epochs,
  (total < epochs -> split total epochs = Ok []) /\ (0 <= total -> split total 0 = Panic).
Proof. intros. split; [apply split_small|apply split_zero_epochs]. Qed.
Print Assumptions c19_split_guards.

(* each epoch pays out at most that epoch's allocation: whatever the farming module calculates
   ([calc] is arbitrary: every set of farmers, every pool configuration, every oracle price),
   what the receivers get in one trigger is at most what is booked as distributed, which is at
   most the allocation of the epoch being triggered, which fits in the undistributed remainder;
   the custody balance falls by exactly what was received; nothing else of the record changes *)
Theorem c19_epoch_cap : forall now calc bal g g' bal' paid,
  trigger now calc bal g = Ok (g', bal', paid) ->
  0 <= pay_total paid <= g_distributed g' - g_distributed g /\
  g_distributed g' - g_distributed g <= (if g_triggered g' =? g_triggered g then 0 else epoch_allocation g) /\
  (g_triggered g' <> g_triggered g ->
     g_triggered g' = g_triggered g + 1 /\ epoch_allocation g <= g_deposit g - g_distributed g /\
     g_triggered g <> g_total g /\ g_active g = true /\ g_start g <= now) /\
  bal' = bal - pay_total paid /\ (0 <= bal -> 0 <= bal') /\ g_deposit g' = g_deposit g /\ g_total g' = g_total g.
Proof. exact epoch_cap. Qed.
Print Assumptions c19_epoch_cap.

(* the same for a swap-fee gauge: the epoch's allocation is the deposit it has accumulated; it
   books at most that; outside class C19-F2 what is paid is booked *)
Theorem c19_epoch_cap_swapfee : forall calc recv bal g g' bal' paid,
  g_swap g = true -> 0 <= g_deposit g -> trigger_swap calc recv bal g = Ok (g', bal', paid) ->
  kf_C19_2 calc recv g = false ->
  0 <= pay_total paid <= g_distributed g' - g_distributed g /\
  g_distributed g' - g_distributed g <= g_deposit g /\
  ((g' = g /\ bal' = bal) \/
   exists r, recv = Ok r /\ g_triggered g' = g_triggered g + 1 /\
             g_deposit g' = g_deposit g - (g_distributed g' - g_distributed g) + r /\ bal' = bal - pay_total paid + r).
Proof. exact epoch_cap_swapfee. Qed.
Print Assumptions c19_epoch_cap_swapfee.

(* the cumulative amount booked as distributed (an upper bound of what was paid) never exceeds the
   deposit, for every deposit-funded gauge, after EVERY finite history (no class excluded) of gauge
   and program creations, BeginBlockers at any times with any environment (so: skipped epochs,
   repeated triggers, triggers before the start time, failing farming calculations, other gauges
   and programs misbehaving) and other credits; failed steps change nothing *)
Theorem c19_cumulative : forall ops g, In g (r_gauges (rrun rinit ops)) -> g_swap g = false ->
  0 <= g_distributed g <= g_deposit g.
Proof. exact cumulative_all. Qed.
Print Assumptions c19_cumulative.

(* the whole life of one gauge, creation -> every epoch -> exhaustion: after ANY sequence of trigger
   attempts (any times, any farming calculations) what the receivers got in total is at most what
   is booked, which is at most the sum of the allocations of the epochs triggered so far, which is
   at most the deposit; at most n epochs are triggered; custody fell by exactly what was received *)
Theorem c19_gauge_life : forall dep n start dur denom sp evs bal0,
  1 <= n -> n <= dep -> split dep n = Ok sp -> 0 <= bal0 ->
  let '(g, bal, acc) := fold_left life_step evs (fresh_gauge dep n start dur denom, bal0, 0) in
  0 <= acc <= g_distributed g /\ g_distributed g <= alloc_sum sp (g_triggered g) /\
  alloc_sum sp (g_triggered g) <= dep /\ 0 <= g_triggered g <= n /\ bal = bal0 - acc /\ g_deposit g = dep.
Proof. exact gauge_life. Qed.
Print Assumptions c19_gauge_life.

(* an exhausted gauge pays nothing more *)
Theorem c19_exhausted : forall now calc bal g g' bal' paid, g_triggered g = g_total g ->
  trigger now calc bal g = Ok (g', bal', paid) ->
  paid = [] /\ bal' = bal /\ g_distributed g' = g_distributed g /\ g_triggered g' = g_triggered g.
Proof. exact trigger_exhausted. Qed.
Print Assumptions c19_exhausted.

(* custody: after every history (several gauges incl. swap-fee gauges, several external locker /
   vault / lend programs, several denoms, any block times, any environment) that meets none of the
   classes C19-F2, C19-F3, C19-F4, the rewards module account holds, in every denom, at least the remainders of
   ALL gauges plus the available rewards of ALL programs (hence of the active ones: the predicate
   the harness evaluates on the implementation holds on the model) *)
Theorem c19_custody : forall ops d, forallb op_wf ops = true -> run_clean rinit ops = true ->
  let s := rrun rinit ops in
  owed d s <= r_bal s d /\ holds_C19_custody d (r_bal s d) (r_gauges s) (r_exts s) = true.
Proof. exact custody_clean. Qed.
Print Assumptions c19_custody.

(* class C19-F3 delimited by inputs: a program step cannot overdraw when the owners' balances are
   non-negative and add up to at most the recorded total (DepositedAmount / TokenMintedAmount) and
   4 * owners * available <= 10^18 (so: below about 2.5 * 10^17 / owners base units) *)
Theorem c19_program_safe : forall now e x, ext_safe e x = true -> kf_C19_3 now e x = false.
Proof. exact ext_safe_no_overdraw. Qed.
Print Assumptions c19_program_safe.

(* known finding C19-F2: a swap-fee gauge holding 500 whose fee transfer fails pays the 500 at every
   epoch; after two epochs the account holds 500 against remainders of 1500 *)
Theorem c19_custody_swapfee_refuted : exists ops d, forallb op_wf ops = true /\ run_clean rinit ops = false /\
  let s := rrun rinit ops in
  r_bal s d < owed d s /\ holds_C19_custody d (r_bal s d) (r_gauges s) (r_exts s) = false.
Proof. exact custody_swapfee_refuted. Qed.
Print Assumptions c19_custody_swapfee_refuted.

(* known finding C19-F3: six equal lockers, 5*10^18 available on the last day: the program books
   10 more than it has; a gauge's 1000 in the same denom is left with 990 *)
Theorem c19_custody_program_refuted : exists ops d, forallb op_wf ops = true /\ run_clean rinit ops = false /\
  let s := rrun rinit ops in
  r_bal s d < owed_g d (r_gauges s) /\ holds_C19_custody d (r_bal s d) (r_gauges s) (r_exts s) = false.
Proof. exact custody_program_refuted. Qed.
Print Assumptions c19_custody_program_refuted.

(* known finding C19-F4: a lend reward program of 1 000 000 units of a token priced 2.0, one day, one
   borrower: DistributeExtRewardLend pays 2 000 000 (a value paid out as an amount); a gauge's
   5 000 000 in the same denom is left with 4 000 000 *)
Theorem c19_custody_lend_refuted : exists ops d, forallb op_wf ops = true /\ run_clean rinit ops = false /\
  let s := rrun rinit ops in
  r_bal s d < owed_g d (r_gauges s) /\ holds_C19_custody d (r_bal s d) (r_gauges s) (r_exts s) = false.
Proof. exact custody_lend_refuted. Qed.
Print Assumptions c19_custody_lend_refuted.

(* epoch timing: a tick triggers at most one epoch and only strictly after its end; after a halt of
   more than two durations the missed epochs are skipped without any distribution *)
Theorem c19_epoch_timing : forall now e e' r, 0 < e_dur e -> epoch_tick now e = (e', r) ->
  e_dur e' = e_dur e /\
  match r with
  | TTrigger => e_cur e' = e_cur e + 1 /\ e_cest e' = e_cest e + e_dur e /\ e_cest e' < now
  | TSkipped => e_cur e' = e_cur e /\ e_cest e < e_cest e' <= now /\ now - e_cest e' < e_dur e
  | TFresh => e_cur e' = e_cur e /\ e_fresh e' = false
  | TNothing => e' = e
  end.
Proof. exact epoch_tick_spec. Qed.
Print Assumptions c19_epoch_timing.

(* farmer share, every input: payout <= (share + value_i * 10^-18 + 0.5 * 10^-18) * (1 + 2^-53).
   The float conversion is the exact round-to-nearest-even model of Lib/F64.v (relative error
   2^-53 proved there), not a hypothesis. *)
Theorem c19_share_general : forall coins total s, 0 <= coins -> 0 < total -> 0 <= s ->
  let p := share_reward coins total s in
  0 <= p /\ p * P36 * total * F_P53 <= (s * (coins * P36 + total) + HALF18 * total) * (F_P53 + 1).
Proof. exact share_general. Qed.
Print Assumptions c19_share_general.

(* within one part in 10^12 outside the known-finding class, for farmers worth at least one unit *)
Theorem c19_share : forall coins total s, 0 <= coins -> 0 < total -> P18 <= s ->
  kf_C19_1 coins total = false ->
  holds_C19_share coins total s (share_reward coins total s) = true.
Proof. exact share_bound. Qed.
Print Assumptions c19_share.

(* the same through the farming calculation of a gauge: every reward GetFarmingRewardsData returns
   (plain pool, or master pool with the min(master, child) rule) belongs to a farmer with an
   eligible value and is within one part in 10^12 of coins * value / total eligible value *)
Theorem c19_share_farm : forall e coins ps a r, farm_calc e coins = Ok ps -> In (a, r) ps -> 0 <= coins ->
  Forall (fun f => 0 <= snd f) (eligible e) ->
  let total := zsum (map snd (eligible e)) in
  exists s, In (a, s) (eligible e) /\
    (P18 <= s -> kf_C19_1 coins total = false -> holds_C19_share coins total s r = true).
Proof. exact farm_share_bound. Qed.
Print Assumptions c19_share_farm.

(* known finding C19-F1: allocation 1, two farmers worth 3 000 000 004 and 1 units: the first is
   paid 1 although its pro-rata share is below 1 by 3.3e-10 (relative) *)
Theorem c19_share_refuted : exists coins total s,
  kf_C19_1 coins total = true /\ 0 < s < total /\
  holds_C19_share coins total s (share_reward coins total s) = false.
Proof.
  exists 1, (3000000005 * 1000000000000000000), (3000000004 * 1000000000000000000).
  vm_compute. repeat split.
Qed.
Print Assumptions c19_share_refuted.

(* ---- non-vacuity ---- *)
Example c19_split_example : split 150 11 = Ok [13; 13; 13; 13; 14; 14; 14; 14; 14; 14; 14].
Proof. vm_compute. reflexivity. Qed.

(* a clean history with two gauges (one swap-fee), a program and two denoms: gauge 2 lives its
   whole life (3 epochs of 33, 33, 34), the custody hypotheses hold and the balances cover *)
Definition c19_example_ops : list gop :=
  [CreateSwap 1 0 86400; Create 1 100 3 0 0 43200 100 true; ExtCreate 0 3 600 2 1 0 600 true;
   Begin 10 (mkBenv [] [] []);
   Begin 20 (mkBenv [FarmErr; FarmPlain [(1, 1000000000000000000); (2, 2000000000000000000)]] [Ok 40; Err 1] [mkXenv 300 [(11, 100, 0); (12, 200, 0)]]);
   Begin 43300 (mkBenv [FarmPlain [(1, 1000000000000000000)]; FarmPlain [(1, 1000000000000000000); (2, 2000000000000000000)]] [Ok 7; Err 1] [mkXenv 300 [(11, 100, 0); (12, 200, 0)]]);
   Begin 86500 (mkBenv [FarmPlain [(1, 1000000000000000000)]; FarmPlain [(1, 3000000000000000000)]] [Ok 7; Err 1] [mkXenv 300 [(11, 100, 0); (12, 200, 0)]]);
   Begin 130000 (mkBenv [FarmPlain [(1, 1000000000000000000)]; FarmErr] [Ok 0; Err 1] [mkXenv 300 [(11, 100, 0); (12, 200, 0)]]);
   Begin 180000 (mkBenv [FarmPlain [(1, 1000000000000000000)]; FarmErr] [Ok 0; Err 1] [mkXenv 300 [(11, 100, 0); (12, 200, 0)]])].
Example c19_history_example :
  let s := rrun rinit c19_example_ops in
  forallb op_wf c19_example_ops = true /\ run_clean rinit c19_example_ops = true /\
  map g_distributed (r_gauges s) = [47; 100] /\ map g_triggered (r_gauges s) = [3; 3] /\ map g_active (r_gauges s) = [true; false] /\
  map x_avail (r_exts s) = [1] /\ map x_active (r_exts s) = [true] /\ r_bal s 1 = 0 /\ owed 1 s = 0 /\ r_bal s 3 = 1 /\ owed 3 s = 1.
Proof. vm_compute. repeat split. Qed.

Example c19_life_example :
  fold_left life_step [(5, farm_calc (FarmPlain [(1, 1000000000000000000); (2, 2000000000000000000)]));
                       (9, farm_calc FarmErr); (10, farm_calc (FarmPlain [(1, 1000000000000000000)]));
                       (20, farm_calc (FarmPlain [(1, 1000000000000000000); (2, 1000000000000000000)])); (30, farm_calc (FarmPlain [(1, 5)]))]
            (fresh_gauge 100 3 0 43200 1, 1000, 0)
  = (mkGauge 100 100 3 3 false 0 43200 false 1, 900, 100).
Proof. vm_compute. reflexivity. Qed.

Example c19_share_example : farm_rewards 10000000000 [1000000000000000000000; 2000000000000000000000; 7000000000000000000000]
  = [1000000000; 2000000000; 7000000000].
Proof. vm_compute. reflexivity. Qed.

(* master pool: farmer 2 has nothing in the child pools, so the whole allocation goes to farmer 1 *)
Example c19_master_example :
  farm_calc (FarmMaster [(1, 3000000000000000000); (2, 5000000000000000000)] [2000000000000000000; 0]) 1000 = Ok [(1, 1000)] /\
  eligible (FarmMaster [(1, 3000000000000000000); (2, 5000000000000000000)] [2000000000000000000; 0])
  = [(1, 2000000000000000000); (2, 0)].
Proof. vm_compute. split; reflexivity. Qed.

Example c19_epoch_timing_example :
  epoch_tick 100 (mkEpoch false 3 30 40) = (mkEpoch false 4 70 40, TTrigger) /\
  epoch_tick 100 (mkEpoch false 3 10 30) = (mkEpoch false 3 100 30, TSkipped) /\
  epoch_tick 100 (mkEpoch true 0 100 30) = (mkEpoch false 0 70 30, TFresh) /\
  snd (epoch_tick 100 (mkEpoch false 3 70 30)) = TNothing.
Proof. vm_compute. repeat split. Qed.

(* a swap-fee gauge holding 500: it pays 166 + 333 to two farmers worth 1 and 2, books 499 and takes in 40 *)
Example c19_swapfee_example :
  trigger_swap (farm_calc (FarmPlain [(1, 1000000000000000000); (2, 2000000000000000000)])) (Ok 40) 9000
               (mkGauge 500 10 4 1 true 0 86400 true 1)
  = Ok (mkGauge 41 509 5 1 true 0 86400 true 1, 8541, [(1, 166); (2, 333)]).
Proof. vm_compute. reflexivity. Qed.

(* a safe program step: 3 owners of 100, 200, 300 out of 600, 1000 available over 2 remaining days *)
Example c19_program_example :
  let x := mkExt 0 3 1000 true 2 0 50 1 in
  let e := mkXenv 600 [(11, 100, 0); (12, 200, 0); (13, 300, 0)] in
  ext_safe e x = true /\
  ext_tick 100 e 5000 x = Ok (mkExt 0 3 501 true 2 1 86500 1, 4501, [(11, 83); (12, 166); (13, 250)]).
Proof. vm_compute. split; reflexivity. Qed.
