(* C05 — Batch matching conserves coins and never fills an order beyond its limits.
   Property theorems only; each is closed by [exact]/short glue of lemmas in Proofs/AMMProofs.v.
   [run_match os lp] = NewOrderBook(os...).Match(lp), [run_single_price os p] =
   NewOrderBook(os...).MatchAtSinglePrice(p) (the two entry points of keeper/swap.go:672).
   [dom_ok]: positive prices and amounts, orders not over-filled on entry (any partial fill state).
   All theorems quantify over every list of orders (any length, prices, amounts, batch ids, keys). *)
From Comdex Require Import Lib.Base Lib.DecArith Model.AMM Proofs.AMMProofs Proofs.AMMMarginal.
From Comdex Require Model.Liquidity Model.LiquidityMatch Proofs.LiquidityMatchProofs.

(* per fill, all prices and amounts: a buy pays ceil(p*a), a sell receives floor(p*a), each within
   one quote unit of the exact value; the FillOrder guard keeps open >= 0 and paid <= offer *)
Theorem fill_laws : forall o a p o', wf_order o -> 0 < p -> 0 <= a -> fill_order o a p = Some o' ->
  a <= matchable_amount o p /\ o_open o' = o_open o - a /\ 0 <= o_open o' /\ o_paid o' <= o_offer o' /\
  match o_dir o with
  | Buy => o_paid o' - o_paid o = quote_ceil p a /\ o_recv o' - o_recv o = a /\
           p * a <= quote_ceil p a * P18 < p * a + P18
  | Sell => o_paid o' - o_paid o = a /\ o_recv o' - o_recv o = quote_floor p a /\
            quote_floor p a * P18 <= p * a < quote_floor p a * P18 + P18
  end.
Proof. exact fill_laws_lemma. Qed.
Print Assumptions fill_laws.

(* Match is realised by its ghost fill list: the final orders are the fold of FillOrder over the
   fills, and every emitted fill has a positive amount (and a sell fill a positive quote value) *)
Theorem c05_fill_list : forall os lp r, dom_ok os lp = true -> run_match os lp = Some r ->
  Forall good_fill (r_fills r) /\ apply_fills os (r_fills r) = Some (r_orders r).
Proof.
  intros os lp r Hd H. destruct (dom_ok_wf _ _ Hd) as (Hp & HF & Hpr).
  exact (match_book_realised _ _ _ _ Hp HF (new_book_pos _ Hpr) H).
Qed.
Print Assumptions c05_fill_list.

(* no order is filled beyond its amount — unconditional (also inside the known-finding class) *)
Theorem c05_no_overfill : forall os lp r, dom_ok os lp = true -> run_match os lp = Some r ->
  Forall (fun o => 0 <= o_open o <= o_amt o) (r_orders r).
Proof.
  intros os lp r Hd H. destruct (dom_ok_wf _ _ Hd) as (Hp & HF & Hpr).
  destruct (match_book_realised _ _ _ _ Hp HF (new_book_pos _ Hpr) H) as [G A].
  eapply Forall_impl; [|exact (apply_fills_wf _ _ _ HF G A)]. intros o Ho; apply Ho.
Qed.
Print Assumptions c05_no_overfill.

(* no order pays more than its offer coin — unconditional *)
Theorem c05_offer_bound : forall os lp r, dom_ok os lp = true -> run_match os lp = Some r ->
  Forall (fun o => 0 <= o_paid o <= o_offer o /\ 0 <= o_recv o) (r_orders r).
Proof.
  intros os lp r Hd H. destruct (dom_ok_wf _ _ Hd) as (Hp & HF & Hpr).
  destruct (match_book_realised _ _ _ _ Hp HF (new_book_pos _ Hpr) H) as [G A].
  eapply Forall_impl; [|exact (apply_fills_wf _ _ _ HF G A)]. intros o Ho. split; apply Ho.
Qed.
Print Assumptions c05_offer_bound.

(* the same two bounds for MatchAtSinglePrice at any price (the no-last-price path) *)
Theorem c05_bounds_single : forall os p r, dom_ok os p = true -> Forall pos_order os ->
  run_single_price os p = Some r ->
  Forall wf_order (r_orders r) /\ Forall pos_order (r_orders r).
Proof. intros os p r Hd HP H. exact (proj2 (run_single_sound os p r Hd HP H)). Qed.
Print Assumptions c05_bounds_single.

(* the drop loop of FindMatchableAmountAtSinglePrice at the MARGINAL sell tick (the last eligible sell tick, filled only
   in part), one iteration in which the buy side keeps its last tick ([bt - ta < min bt st]); [ta :: brest, bt] = the
   buy ticks' amounts (last tick first) and their total, [sa :: s2 :: srest, st] likewise for the sells.  With
   k = min(buy total, sell total) - (sell total - sa) > 0 the residue left for the marginal tick: the tick is dropped
   (the loop goes on without it) when k is worth less than one quote coin, p * k < 1, and the loop ends with
   min(buy total, sell total) when p * k >= 1 - for every price and all amounts.  At p < 1 with a non-integer inverse:
   k = floor(1/p) is dropped, k = ceil(1/p) is matched (Example below; harness c05MarginalRun / c05MarginalCorpus) *)
Theorem c05_marginal_sell_tick : forall f p ta brest bt sa s2 srest st,
  0 < p -> bt - ta < Z.min bt st -> 0 < Z.min bt st - (st - sa) ->
  (p * (Z.min bt st - (st - sa)) < P18 ->
   fma_loop (S f) p (ta :: brest, bt) (sa :: s2 :: srest, st) = fma_loop f p (ta :: brest, bt) (s2 :: srest, st - sa)) /\
  (P18 <= p * (Z.min bt st - (st - sa)) ->
   fma_loop (S f) p (ta :: brest, bt) (sa :: s2 :: srest, st) = Some (Some (Z.min bt st))).
Proof. exact marginal_sell_tick. Qed.
Print Assumptions c05_marginal_sell_tick.

(* sells 100 @ one tick below and 50 @ p, one buy of 100 + k @ p: the matchable amount at p is 100 for
   k = floor(1/p) (the marginal tick is dropped) and 100 + k for k = ceil(1/p), at p = 0.102, 0.3, 0.9; with the
   residue 9 at 0.102 MatchAtSinglePrice fills 100 on both sides and conserves the base coin *)
Example c05_marginal_sell_tick_example :
  mg_amount 102000000000000000 101900000000000000 9 = Some (Some 100) /\
  mg_amount 102000000000000000 101900000000000000 10 = Some (Some 110) /\
  mg_amount 300000000000000000 290000000000000000 3 = Some (Some 100) /\
  mg_amount 300000000000000000 290000000000000000 4 = Some (Some 104) /\
  mg_amount 900000000000000000 890000000000000000 1 = Some (Some 100) /\
  mg_amount 900000000000000000 890000000000000000 2 = Some (Some 102) /\
  option_map (fun r => (map (fun o => (o_open o, o_paid o, o_recv o)) (r_orders r),
                        holds_C05_base (mg_book 102000000000000000 101900000000000000 9) (r_orders r)))
             (run_single_price (mg_book 102000000000000000 101900000000000000 9) 102000000000000000)
  = Some ([(0, 100, 10); (50, 0, 0); (9, 11, 100)], true).
Proof. repeat split; vm_compute; reflexivity. Qed.

(* an order that is matched receives a strictly positive amount — unconditional *)
Theorem c05_positive : forall os lp r, dom_ok os lp = true ->
  Forall (fun o => o_open o < o_amt o -> 0 < o_recv o) os -> run_match os lp = Some r ->
  Forall (fun o => o_open o < o_amt o -> 0 < o_recv o) (r_orders r).
Proof. intros os lp r Hd HP H. exact (proj2 (proj2 (run_match_sound os lp r Hd HP H))). Qed.
Print Assumptions c05_positive.

(* quote coin: what buyers pay minus what sellers receive is exactly the sum of the roundings of
   the fills (= the returned quoteCoinDiff); when the fills' exact quote values balance (which is
   the case when every matching step conserved base coin at its price) the dust is non-negative
   and smaller than the number of fills *)
Theorem c05_quote_dust : forall os lp r, dom_ok os lp = true -> run_match os lp = Some r ->
  quote_paid os (r_orders r) - quote_recv os (r_orders r) = fills_qdiff (r_fills r) /\
  (fills_value (r_fills r) = 0 ->
   0 <= fills_qdiff (r_fills r) /\ fills_qdiff (r_fills r) < Z.max 1 (zlen (r_fills r))).
Proof.
  intros os lp r Hd H. destruct (dom_ok_wf _ _ Hd) as (Hp & HF & Hpr).
  destruct (match_book_realised _ _ _ _ Hp HF (new_book_pos _ Hpr) H) as [G A].
  split; [exact (proj2 (proj2 (apply_fills_ledger _ _ _ A)))|]. intros HV. exact (quote_dust _ G HV).
Qed.
Print Assumptions c05_quote_dust.

(* limit price, PARTIAL: proved per fill — a buy filled at p <= L overpays less than one quote
   unit against its limit, a sell filled at p >= L is underpaid by less than one.  NOT proved: that
   Match only fills a buy at p <= its limit and a sell at p >= its limit (the tick selection of
   buildSide / the two-pointer loop); that clause is judged on every traced run by
   holds_C05_limit on the implementation's outputs. *)
Theorem c05_limit_price_partial : forall p L a, 0 <= a ->
  (0 <= p <= L -> quote_ceil p a * P18 < L * a + P18) /\
  (0 <= L <= p -> L * a - P18 < quote_floor p a * P18).
Proof. intros p L a Ha. split; [apply fill_limit_buy|apply fill_limit_sell]; assumption. Qed.
Print Assumptions c05_limit_price_partial.

(* base coin, PARTIAL: the base coin buyers receive minus the base coin sellers pay equals the
   buy-fill total minus the sell-fill total of the ghost fill list, so base coin is conserved iff
   the fill list is balanced.  NOT proved: kf_C05_1 os lp = false -> the fill list is balanced
   (exact distribution by DistributeOrderAmountToTick/ToOrders when the retry does not under-
   distribute, and equality of the two sides' amounts in FindMatchableAmountAtSinglePrice); on
   every traced run holds_C05_base judges the implementation and any failure outside kf_C05_1 is a
   violation. *)
Theorem c05_base_partial : forall os lp r, dom_ok os lp = true -> run_match os lp = Some r ->
  base_bought os (r_orders r) = fills_bought (r_fills r) /\
  base_sold os (r_orders r) = fills_sold (r_fills r) /\
  (holds_C05_base os (r_orders r) = true <-> fills_bought (r_fills r) = fills_sold (r_fills r)).
Proof.
  intros os lp r Hd H. destruct (dom_ok_wf _ _ Hd) as (Hp & HF & Hpr).
  destruct (match_book_realised _ _ _ _ Hp HF (new_book_pos _ Hpr) H) as [G A].
  destruct (apply_fills_ledger _ _ _ A) as (B1 & B2 & _).
  split; [exact B1|]. split; [exact B2|]. unfold holds_C05_base. rewrite B1, B2. apply Z.eqb_eq.
Qed.
Print Assumptions c05_base_partial.

(* refuted on the unchanged tree (known finding C05-F1): sells 100 + 100 and one buy of 199 at
   price 0.01 — the buyer receives 199 base coin, the sellers pay 100.  The witness is case 0 of
   the harness and is replayed on the real package on every run. *)
Theorem c05_base_refuted :
  exists os lp r, dom_ok os lp = true /\ run_match os lp = Some r /\ kf_C05_1 os lp = true /\
                  base_bought os (r_orders r) = 199 /\ base_sold os (r_orders r) = 100.
Proof. exact base_refuted. Qed.
Print Assumptions c05_base_refuted.

(* ---------- non-vacuity: the hypotheses are met by concrete non-trivial books ---------- *)
Definition ex_price : Z := 1000000000000000000.  (* 1.0 *)
Definition ex_book : list order :=
  [fresh 0 Buy 1100000000000000000 10 11 1 1; fresh 1 Sell 900000000000000000 7 7 1 2;
   fresh 2 Sell ex_price 7 7 2 3].
Example ex_dom : dom_ok ex_book ex_price = true. Proof. reflexivity. Qed.
Example ex_runs : exists r, run_match ex_book ex_price = Some r /\ r_matched r = true /\
  length (r_fills r) = 3%nat /\ fills_value (r_fills r) = 0 /\ kf_C05_1 ex_book ex_price = false /\
  holds_C05_base ex_book (r_orders r) = true.
Proof. eexists. split; [vm_compute; reflexivity|]. repeat split; vm_compute; reflexivity. Qed.
Example ex_pos : Forall (fun o => o_open o < o_amt o -> 0 < o_recv o) ex_book.
Proof. repeat constructor; cbn; lia. Qed.
Example ex_fill : exists o', fill_order (fresh 0 Buy ex_price 10 10 1 1) 4 ex_price = Some o' /\ o_recv o' = 4.
Proof. eexists. split; vm_compute; reflexivity. Qed.
Example ex_witness_dom : dom_ok witness_F1 price_001 = true. Proof. reflexivity. Qed.

(* ---------- through the keeper: an order carried over from earlier batches ----------
   ExecuteMatching hands every stored order to the engine as the amm order NewUserOrder builds from its record
   ([LiquidityMatch.amm_order]: amount = min(open amount, what the REMAINING offer coin buys), offer coin bound =
   the REMAINING offer coin).  Whatever else is on the book (other stored orders, pool orders, any last price),
   the engine's fill of each stored order - read off its result by [fill_of] - satisfies [holds_C05_life] against
   the stored record: matched amount <= open amount, payment <= remaining offer coin, a sell pays what it sells.
   [holds_C05_life] is the extracted predicate the runner evaluates on the implementation's fills (the engine's,
   observed through the real NewUserOrder / keeper.Match before each EndBlocker, and the applied ones). *)
Theorem c05_keeper_fill_bound : forall (os : list Liquidity.order) pool lp r,
  dom_ok (LiquidityMatch.amm_orders O os ++ pool) lp = true ->
  run_match (LiquidityMatch.amm_orders O os ++ pool) lp = Some r ->
  forall i o, nth_error os i = Some o ->
  exists a', nth_error (r_orders r) i = Some a' /\
    let '(m, p, rc) := LiquidityMatch.fill_of o a' in Liquidity.holds_C05_life o m p rc = true.
Proof. exact LiquidityMatchProofs.keeper_fill_bound. Qed.
Print Assumptions c05_keeper_fill_bound.

(* non-vacuity: a stored buy of 1000 at 1.234 (offer 1234) of which 500 were filled for 617 in an earlier batch
   (617 left, 500 open), the last price meanwhile at 1.27, and three sells of 100 / 150 / 250 on the ticks 1.232 /
   1.233 / 1.234 in the current batch: the buy is filled three times at its own price, each fill rounded up
   (124 + 186 + 307); the third fill is cut to 248 so that the payment is exactly the 617 that were left *)
Definition kb : Liquidity.order := Liquidity.mkOrder 1 1 1 50 true 1 2 1 1234 617 500 1234000000000000000 1000 500 1 100 3.
Definition ks (id price amt : Z) : Liquidity.order := Liquidity.mkOrder 1 1 id 51 false 1 1 2 amt amt 0 price amt amt 3 100 1.
Definition kos : list Liquidity.order := [kb; ks 2 1232000000000000000 100; ks 3 1233000000000000000 150; ks 4 1234000000000000000 250].
Definition klp : Z := 1270000000000000000.
Example c05_keeper_fill_bound_ex :
  dom_ok (LiquidityMatch.amm_orders O kos ++ []) klp = true /\
  option_map (fun r => map (fun o => (o_open o, o_paid o, o_recv o)) (r_orders r)) (run_match (LiquidityMatch.amm_orders O kos ++ []) klp)
  = Some [(2, 617, 498); (0, 100, 123); (0, 150, 185); (2, 248, 306)].
Proof. split; vm_compute; reflexivity. Qed.

(* the REMAINING offer coin is what makes the bound hold: the same book with the carried-over buy handed over
   with its ORIGINAL offer coin (1234) as the bound pays 124 + 186 + 309 = 619 for it - more than the 617 it has
   left; at keeper level RemainingOfferCoin.Sub then panics and the whole batch of the app is rolled back *)
Theorem c05_keeper_needs_remaining :
  let book := LiquidityMatch.amm_order_original O kb :: LiquidityMatch.amm_orders 1 (tl kos) in
  dom_ok book klp = true /\
  exists r a', run_match book klp = Some r /\ nth_error (r_orders r) 0 = Some a' /\
    o_paid a' = 619 /\ Liquidity.o_rem kb = 617 /\
    (let '(m, p, rc) := LiquidityMatch.fill_of kb a' in Liquidity.holds_C05_life kb m p rc) = false.
Proof. split; [vm_compute; reflexivity|]. eexists. eexists. split; [vm_compute; reflexivity|]. repeat split; vm_compute; reflexivity. Qed.
Print Assumptions c05_keeper_needs_remaining.
