(* C05 — Batch matching conserves coins and never fills an order beyond its limits.
   Property theorems only; each is closed by [exact] of a lemma proved in Proofs/AMMProofs.v. *)
From Comdex Require Import Lib.Base Lib.DecArith Model.AMM Proofs.AMMProofs.

(* refuted on the unchanged tree (known finding C05-F1): sells 100 + 100 and one buy of 199 at
   price 0.01 — the buyer receives 199 base coin, the sellers pay 100.  The witness is case 0 of
   the harness and is replayed on the real package on every run. *)
Theorem c05_base_refuted :
  exists os lp r, dom_ok os lp = true /\ run_match os lp = Some r /\ kf_C05_1 os lp = true /\
                  base_bought os (r_orders r) = 199 /\ base_sold os (r_orders r) = 100.
Proof. exact base_refuted. Qed.
Print Assumptions c05_base_refuted.
