(* Tie (C) for C17.  gen_market_* are REGENERATED from /repo's x/market/keeper/oracle.go on every run
   (tools/goextract -> Gen/PureFuns.v); Market.calc_twa / update / get_latest / price_in_force are the
   hand-written models every C17 theorem is about.

   CalculateTwa: the counted loop over the window with math/bits.Add64 into (hi, lo) and the final
   bits.Div64 are translated construct by construct (for_range, g_index, add64_sum/add64_carry,
   g_div64: Lib/GoSem.v); the theorem proves the result equal to the model's integer mean for every
   window and every batch size below 2^63.
   UpdatePriceList: the Twa record of the asset is a store cell (GetTwa / SetTwa): its content
   before the call is an input (the record's fields, then found), SetTwa replaces what the second
   GetTwa returns, the content on return is the result (found, AssetID, ScriptID, Twa, CurrentIndex,
   IsPriceActive, PriceValue, DiscardedHeightDiff); ctx.BlockHeight() is an input.  [cell_of] reads
   that result as the model's [option twa].  The theorems instantiate the inputs from the model
   state: a stored record has AssetID = its key (SetTwa stores under twa.AssetID, oracle.go:15), a
   missing record reads as the zero value (GetTwa, oracle.go:29-31).
   Hypotheses: the values are values of their Go types (uint64 samples and rate, int64 heights),
   CurrentIndex + 1 does not wrap, the window is shorter than 2^63 (a Go slice), and twaBatch < 2^63 -
   see the *_large theorems at the end for what happens above. *)
From Coq Require Import String ZifyBool.
From Comdex Require Import Lib.Base Lib.DecArith Lib.GoSem Model.Market Gen.PureFuns
  Proofs.PureFunsLemmas Proofs.PureFunsLemmas2 Proofs.PureFunsC17.

(* the regenerated loop is the 128-bit accumulation of Proofs/PureFunsLemmas2.v (acc128_body), up to
   the names of the bound variables *)
Lemma gen_calc_shape n old vs :
  gen_market_CalculateTwa n old vs =
  obind (for_range 0 (wrap_i64 n) (acc128_body vs) (0, 0, 0)) (fun '(hi, lo, _) =>
    obind (g_div64 hi lo n) (fun '(q, _) => Ok q)).
Proof. reflexivity. Qed.

(* CalculateTwa(ctx, twa, n) with twa.PriceValue = vs: Ok (mean of the first n samples), Panic when
   n = 0 (bits.Div64 by zero) or the window is shorter than n (index out of range) *)
Theorem tie_market_CalculateTwa : forall n old vs, 0 <= n < two63 -> u64s vs ->
  gen_market_CalculateTwa n old vs = pan_of (calc_twa vs n).
Proof.
  intros n old vs Hn Hvs. rewrite gen_calc_shape, wrap_i64_id by (unfold i64; lia).
  rewrite acc128_mean by assumption. unfold calc_twa.
  destruct (n <=? 0); [reflexivity|]. destruct (zlen vs <? n); reflexivity.
Qed.
Print Assumptions tie_market_CalculateTwa.

Ltac calc_rw :=
  repeat match goal with
  | |- context [gen_market_CalculateTwa ?n ?o ?vs] =>
      rewrite (tie_market_CalculateTwa n o vs) by
        (first [ assumption | lia | eauto using u64s_app, u64s_one, set_nth_u64s ])
  end.

(* UpdatePriceList on an existing record *)
Theorem tie_market_UpdatePriceList_found : forall id script rate n gap h tw sid,
  0 <= n < two63 -> u64 rate -> u64s (vals tw) -> zlen (vals tw) < two63 -> 0 <= idx tw < two64 - 1 ->
  i64 (disc tw) -> 0 <= h < two63 ->
  cell_of (gen_market_UpdatePriceList id script rate n gap id sid (avg tw) (idx tw) (active tw) (vals tw) (disc tw) true h)
  = update n gap h rate (Some tw).
Proof.
  intros id script rate n gap h [vs ix av act dc] sid Hn Hr Hvs Hlen Hix Hdc Hh. cbn [vals idx avg active disc] in *.
  unfold gen_market_UpdatePriceList, update, update_tail. cbn [vals idx avg active disc].
  rewrite !Z.eqb_refl. rewrite ?(wrap_i64_id n) by (unfold i64; lia).
  pose proof (zlen_nonneg' vs) as Hl0.
  rewrite ?(wrap_u64_id (zlen vs)) by (unfold u64, two64, two63 in *; lia).
  change (wrap_u64 (zlen (@nil Z))) with 0.
  rewrite !(wrap_u64_id (ix + 1)) by (unfold u64; lia).
  change (wrap_u64 (0 + 1)) with 1.
  rewrite !(g_set_index_nth vs ix rate) by lia.
  cbn [negb andb].
  unfold i64 in Hdc. unfold u64 in Hr.
  destruct (Z.leb_spec rate 0); destruct (Z.gtb_spec rate 0); try lia;
  destruct (Z.ltb_spec dc 0); destruct (Z.gtb_spec dc 0); try lia; cbn [negb andb cell_of].
  all: try reflexivity.
  all: try (rewrite (wrap_i64_id (h - dc)) by (unfold i64; lia); destruct (h - dc <? gap)).
  all: change (zlen (@nil Z)) with 0; change (0 + 1) with 1; cbn [app];
       change (g_set_index [] 0 rate) with (@Panic (list Z)); cbn [set_nth Z.to_nat obind].
  all: destruct act; cbn [negb andb cell_of].
  all: repeat match goal with
       | |- context [set_nth ?l ?i ?v] => destruct (set_nth l i v) eqn:?; cbn [pan_of obind cell_of]
       | |- context [if ?c then _ else _] => destruct c eqn:?; cbn [pan_of obind cell_of]
       end.
  all: try reflexivity.
  all: calc_rw.
  all: unfold wrap_idx.
  all: repeat match goal with
       | |- context [calc_twa ?l ?n] => destruct (calc_twa l n) eqn:?; cbn [pan_of obind cell_of]
       | H : ?c = _ |- context [if ?c then _ else _] => rewrite H
       end.
  all: try reflexivity.
Qed.
Print Assumptions tie_market_UpdatePriceList_found.


(* UpdatePriceList when the asset has no record yet: GetTwa returns the zero record and found = false *)
Theorem tie_market_UpdatePriceList_notfound : forall id script rate n gap h,
  0 <= n < two63 -> u64 rate ->
  cell_of (gen_market_UpdatePriceList id script rate n gap 0 0 0 0 false [] 0 false h)
  = update n gap h rate None.
Proof.
  intros id script rate n gap h Hn Hr.
  unfold gen_market_UpdatePriceList, update, update_tail. cbn [negb andb app].
  destruct (rate >? 0); cbn [negb andb cell_of]; [|reflexivity].
  destruct (1 >=? n) eqn:E; cbn [cell_of]; [|reflexivity].
  rewrite tie_market_CalculateTwa by (auto using u64s_one).
  destruct (calc_twa [rate] n); reflexivity.
Qed.
Print Assumptions tie_market_UpdatePriceList_notfound.

(* the key of the written record is the key that was read: no run of the theorems above reaches
   the sealed [out_of_cell] branch; the AssetID / ScriptID of the stored record are kept *)
Theorem tie_market_UpdatePriceList_key : forall id script rate n gap h tw sid f aid sc a i act vs d,
  gen_market_UpdatePriceList id script rate n gap id sid (avg tw) (idx tw) (active tw) (vals tw) (disc tw) true h
    = Ok (f, aid, sc, a, i, act, vs, d) -> f = true /\ aid = id /\ sc = sid.
Proof.
  intros id script rate n gap h [vs0 ix av act0 dc] sid f aid sc a i act vs d. cbn [vals idx avg active disc].
  unfold gen_market_UpdatePriceList. rewrite !Z.eqb_refl. cbn [negb andb].
  repeat match goal with
  | |- context [if ?c then _ else _] => destruct c; cbn [negb andb obind]
  | |- obind ?m _ = _ -> _ => destruct m; cbn [obind]
  | |- Ok _ = Ok _ -> _ => let H := fresh in intro H; inversion H; subst; auto
  | |- _ = _ -> _ => discriminate
  end.
Qed.
Print Assumptions tie_market_UpdatePriceList_key.

(* GetLatestPrice: PriceValue[CurrentIndex] of an active record, ErrorPriceNotActive (code 1)
   otherwise; an index outside the window panics *)
Theorem tie_market_GetLatestPrice : forall id t, 0 <= idx (twa_or0 t) ->
  res_of (gen_market_GetLatestPrice id (twa_found t) (active (twa_or0 t)) (vals (twa_or0 t)) (idx (twa_or0 t)))
  = get_latest t.
Proof.
  intros id [tw|] Hi; cbn [twa_found twa_or0] in *; [|reflexivity].
  unfold gen_market_GetLatestPrice, get_latest. cbn [andb].
  destruct (active tw); [|reflexivity]. rewrite g_index_nth by assumption.
  destruct (nth_z (vals tw) (Z.to_nat (idx tw))); reflexivity.
Qed.
Print Assumptions tie_market_GetLatestPrice.

(* CalcAssetPrice (also tied to the vault model in TieC03.v): the value is computed from the
   published average exactly when the model's price_in_force holds, ErrorPriceNotActive (code 10 in
   the vault models' numbering) otherwise *)
Theorem tie_market_CalcAssetPrice_activity : forall id amt t dec,
  gen_market_CalcAssetPrice id amt true (twa_found t) (active (twa_or0 t)) (avg (twa_or0 t)) dec
  = match price_in_force t with
    | Ok a => obind (g_dmul (dec_of_int amt) (dec_of_int a)) (fun nu =>
              obind (g_dquo nu (dec_of_int dec)) (fun q => Ok (q, 0)))
    | _ => Ok (0, 10)
    end.
Proof.
  intros id amt [tw|] dec; cbn [twa_found twa_or0 price_in_force]; [|reflexivity].
  unfold gen_market_CalcAssetPrice. cbn [negb andb]. destruct (active tw); reflexivity.
Qed.
Print Assumptions tie_market_CalcAssetPrice_activity.

Theorem tie_market_recognised :
  gen_market_CalculateTwa_unrecognised = [] /\ gen_market_UpdatePriceList_unrecognised = [] /\
  gen_market_GetLatestPrice_unrecognised = [] /\ gen_market_CalcAssetPrice_unrecognised = [].
Proof. repeat split; reflexivity. Qed.
Print Assumptions tie_market_recognised.

(* ---------------- twaBatch >= 2^63 ----------------
   Before fix commit (see known_findings.json, C17-F3) UpdatePriceList compared
   len(twa.PriceValue) >= int(twaBatch): for twaBatch >= 2^63 the conversion is negative, the test
   was always true, and the SECOND sample of an asset was written to PriceValue[1] of a one-element
   window - index out of range, in the unwrapped market BeginBlocker.  Found by this tie (the
   regenerated definition and Model/Market.v, which compares with the batch size itself, differed
   on exactly that input).  The code now compares uint64(len(..)) >= twaBatch; the witness below is
   the old failing input and now agrees with the model.  CalculateTwa still converts with
   int(twaBatch) (it is only reached with a full window, i.e. never for such a batch size). *)
Theorem tie_market_CalculateTwa_large : forall n old vs, two63 <= n < two64 ->
  gen_market_CalculateTwa n old vs = Ok 0.
Proof. intros. rewrite gen_calc_shape. apply acc128_large; assumption. Qed.
Print Assumptions tie_market_CalculateTwa_large.

Theorem tie_market_UpdatePriceList_large_fixed :
  let tw := mkTwa [5] 1 0 false (-1) in
  (cell_of (gen_market_UpdatePriceList 1 0 7 two63 10 1 0 (avg tw) (idx tw) (active tw) (vals tw) (disc tw) true 40)
   = update two63 10 40 7 (Some tw)) /\
  (update two63 10 40 7 (Some tw) = Ok (Some (mkTwa [5; 7] 2 0 false (-1)))).
Proof. split; vm_compute; reflexivity. Qed.
Print Assumptions tie_market_UpdatePriceList_large_fixed.

(* non-vacuity: the hypotheses are met by a run that completes a window of large samples (the sum
   needs the 128-bit accumulator) *)
Example tie_market_nonvacuous :
  cell_of (gen_market_UpdatePriceList 1 0 18446744073709551615 2 10 1 0 0 1 false [18446744073709551615] (-1) true 40)
  = Ok (Some (mkTwa [18446744073709551615; 18446744073709551615] 0 18446744073709551615 true (-1))).
Proof. vm_compute. reflexivity. Qed.
