(* C08 - Lending books balance and borrowing is bounded by loan-to-value.
   Property theorems only; each is closed by lemmas of Proofs/LendProofs*.v over the executable
   model Model/Lend.v of x/lend/keeper (all eleven messages, same-pool and cross-pool pairs).

   [ops] is ANY finite history of messages (any user, position id, pair id, denom, amount, any
   interest / reward inputs [biter] / [ipb] produced by the rate arithmetic, which is property
   C18's subject) interleaved with ANY oracle moves (OSetPrice).  A message that fails or panics
   leaves the state unchanged (baseapp).  [Good] is the inductive invariant (books identity +
   "every open position hangs on a lend position of its pair's asset in, with positive collateral").

   Finding C08-F1 (BorrowAsset accepted a lend position of another asset than the pair's asset in
   and priced the pledged cTokens with that other asset) is REPAIRED (fixes/C08-F1); the model
   follows the repaired code, the witness stays below as a regression example and in the
   scripted workload harness/c08_witness_test.go.

   The hand-over of a position to a liquidation auction (liquidationsV2 UpdateLockedBorrows, op
   OHandOver; the liquidation DECISION is C09's subject and an environment input here) is part of
   the histories: positions under liquidation are excluded from every sum exactly as the property
   says.  Finding C08-F2: the hand-over deletes the lend record when its AmountIn is exhausted even
   if it still has AvailableToBorrow or other open positions; the books identity is REFUTED inside
   that class ([kf_C08_2], [c08_books_refuted_handover]) and proved outside it ([clean] histories;
   every history without hand-overs is clean: [c08_clean_without_handover]).

   The life of a handed-over position afterwards is part of the histories too: market bids on its generation-2
   auction (OAucBid: no effect on the lend state) and the closing bid (OAucClose: liquidationsV2
   MsgCloseDutchAuctionForBorrow as coded; the auction's target debt, the owner and the returned collateral are
   environment inputs, arbitrary in the theorems), and so are MsgRepayWithdraw, MsgFundModuleAccounts and
   MsgFundReserveAccounts.  On this tree a closed position is never returned to the lend books: the close deletes
   the borrow record (the borrower receives unsold collateral as plain coins from the auction module); the code
   that would re-open a position (lend CreteNewBorrow) is called by the generation-1 modules only.
   Finding C08-F3: the close forwards / books more than the auction recovered - the reserve share of the accrued
   interest and cTokens / TotalInterestAccumulated for the rest of it although the target debt carries no
   interest, and the E-MODE penalty although the ordinary one was collected.  The book identities are not
   affected (they are over records only, [c08_close_books]); the close rule "the pools receive what the close
   books" is REFUTED inside the class ([kf_C08_3], [c08_close_rule_refuted_interest], [..._emode]) and proved
   outside it ([c08_close_rule]).  Finding C10-F7 seen from the lend books: [c08_close_stuck].
   The ESM kill switch of an app (esm MsgKillSwitch, op OKill) and the depreciation of a pool (governance proposal,
   op ODepreciate) are part of the state and of the histories; every handler's early return on them is modelled in
   place ([c08_kill_switch_freezes], [c08_depreciated_pool_closed]).
   The generation-1 hand-over message (x/liquidation MsgLiquidateBorrow, still routed; op OHandOverV1, its sell-off
   amounts are environment inputs) is part of the histories: finding C08-F4, it flags the position and leaves the
   principal in the totals borrowed ([kf_C08_4], [c08_books_refuted_v1_handover]); [clean] histories exclude the
   hand-overs of classes 2 and 4.
   Not modelled: the life of a generation-1 auction (x/auction lend bids, x/liquidation UnLiquidateLockedBorrows,
   lend CreteNewBorrow), the block hook DeletePoolAndTransferInterest (it deletes pool records). *)
From Comdex Require Import Lib.Base Lib.DecArith Lib.DecFacts Model.Lend Model.LendEx.
From Comdex Require Import Proofs.LendProofs Proofs.LendProofsInv Proofs.LendProofsSide Proofs.LendProofsSteps Proofs.LendProofsSteps2
     Proofs.LendProofsLiq Proofs.LendProofsClose Proofs.LendProofsCloseRule Proofs.LendProofsHist Proofs.LendProofsLtv Proofs.LendProofsRules
     Proofs.LendProofsMain Proofs.LendProofsAvail Proofs.LendProofsEsm.

(* ---------------------------------------------------------------------------------------------- *)
(* (a) published total lent = sum over the lend positions of the pool-asset of (available to
   borrow + collateral pledged to their open borrows that are not handed to an auction), after
   every finite history from any state that satisfies the invariant *)
Theorem Inv08_lend : forall cfg st0 ops k s,
  Good cfg st0 -> clean cfg st0 ops ->
  let st := run cfg st0 ops in
  pget (sstats st) k = Some s ->
  s_lend s = lend_sum (lends st) (borrows st) (nlends st) (nborrows st) k.
Proof.
  intros cfg st0 ops k s HG Hc st Hs.
  destruct (run_good cfg ops st0 HG Hc) as ((_ & _ & _ & _ & HSI) & _). exact (proj1 (HSI k s Hs)).
Qed.
Print Assumptions Inv08_lend.

(* (b) published totals borrowed (variable, stable) = sums of principal over the open positions of
   the pool-asset that are not under liquidation; the published id lists are exactly the ids of
   the positions of the pool-asset *)
Theorem Inv08_borrow : forall cfg st0 ops k s,
  Good cfg st0 -> clean cfg st0 ops ->
  let st := run cfg st0 ops in
  pget (sstats st) k = Some s ->
  s_bor s = bor_sum cfg (borrows st) (nborrows st) false k /\
  s_sbor s = bor_sum cfg (borrows st) (nborrows st) true k /\
  s_lids s = filter (l_in_key (lends st) k) (zseq (nlends st)) /\
  s_bids s = filter (b_in_key cfg (borrows st) k) (zseq (nborrows st)).
Proof.
  intros cfg st0 ops k s HG Hc st Hs.
  destruct (run_good cfg ops st0 HG Hc) as ((_ & _ & _ & _ & HSI) & _). exact (proj2 (HSI k s Hs)).
Qed.
Print Assumptions Inv08_borrow.

(* both, as the executable predicates the runner evaluates on the implementation's books, for
   every history that starts without positions and with zero totals *)
Theorem c08_history : forall cfg st0 ops,
  empty_books st0 -> clean cfg st0 ops ->
  holds_C08_lend (run cfg st0 ops) = true /\ holds_C08_borrow cfg (run cfg st0 ops) = true.
Proof.
  intros cfg st0 ops H0 Hc. pose proof (Good_Inv _ _ (run_good cfg ops st0 (init_good cfg st0 H0) Hc)) as HI.
  split; [exact (inv_holds_lend cfg _ HI)|exact (inv_holds_borrow cfg _ HI)].
Qed.
Print Assumptions c08_history.

(* a history is clean when it contains no hand-over at all, of either generation (the lend messages, funding messages,
   kill-switch and depreciation changes and oracle moves) *)
Theorem c08_clean_without_handover : forall cfg st0 ops,
  forallb (fun o => negb (is_handover o)) ops = true -> clean cfg st0 ops.
Proof. intros cfg st0 ops H. exact (clean_no_handover cfg ops st0 H). Qed.
Print Assumptions c08_clean_without_handover.

(* finding C08-F2: inside class 2 the identity of total lent is false.  Witness (replayed on the real
   keepers by harness/c08_liq_test.go with the same numbers): a position that earned 313 940 coins of
   rewards pledges its whole AmountIn and is handed over; the record is deleted, TotalLend keeps the
   313 940 coins that no lend position holds any more *)
Theorem c08_books_refuted_handover :
  exists cfg st0 ops o, empty_books st0 /\ clean cfg st0 ops /\ kf_C08_2 (run cfg st0 ops) o = true /\
    holds_C08_lend (run cfg st0 (ops ++ [o])) = false /\
    option_map s_lend (pget (sstats (run cfg st0 (ops ++ [o]))) (1, 2)) = Some 2000313940 /\
    lend_sum (lends (run cfg st0 (ops ++ [o]))) (borrows (run cfg st0 (ops ++ [o]))) 4 2 (1, 2) = 2000000000.
Proof.
  exists ex_cfg, ex_st0, ex_liq_prefix, ex_handover.
  split; [apply empty_booksb_ok; vm_compute; reflexivity|].
  split; [apply cleanb_ok; vm_compute; reflexivity|]. vm_compute. repeat split.
Qed.
Print Assumptions c08_books_refuted_handover.

(* finding C08-F4: the generation-1 hand-over message x/liquidation MsgLiquidateBorrow is still routed.  It flags the
   position but, unlike the (unwired) block-hook variant of the same module and unlike generation 2, leaves its principal
   in the published totals borrowed: inside class 4 the identity of totals borrowed is false.  Witness (replayed on the
   real keepers by harness/c08_close_test.go, case 3, same numbers): total borrowed 900 000 with the only position of the
   pool-asset under liquidation.  (The unsold rest of the collateral, 650 793 651, stays pledged on the flagged position;
   the model's sum of total lent does not count flagged positions, so [holds_C08_lend] is false after the message too -
   by the property's own wording, "not handed over to a liquidation auction", that part is still counted.) *)
Theorem c08_books_refuted_v1_handover :
  exists cfg st0 ops o, empty_books st0 /\ clean cfg st0 ops /\ kf_C08_4 (run cfg st0 ops) o = true /\
    is_ok (step cfg (run cfg st0 ops) o) = true /\
    let st' := run cfg st0 (ops ++ [o]) in
    holds_C08_borrow cfg st' = false /\
    option_map b_liq (zget (borrows st') 1) = Some true /\
    option_map s_bor (pget (sstats st') (1, 3)) = Some 900000 /\
    bor_sum cfg (borrows st') 1 false (1, 3) = 0 /\
    option_map (fun b => (b_in b, b_out b)) (zget (borrows st') 1) = Some (650793651, 900000) /\
    option_map s_lend (pget (sstats st') (1, 2)) = Some 1650793651.
Proof.
  exists ex_cfg, ex_st0, ex_v1_prefix, ex_v1_handover.
  split; [apply empty_booksb_ok; vm_compute; reflexivity|].
  split; [apply cleanb_ok; vm_compute; reflexivity|]. vm_compute. repeat split.
Qed.
Print Assumptions c08_books_refuted_v1_handover.

Example c08_history_nonvacuous :
  empty_booksb ex_st0 = true /\ cleanb ex_cfg ex_st0 ex_history = true /\
  (* a clean history WITH a hand-over: the position is flagged, the books identities hold *)
  cleanb ex_cfg ex_st0 ex_liq_clean_history = true /\
  map (fun jb => b_liq (snd jb)) (borrows (run ex_cfg ex_st0 ex_liq_clean_history)) = [true] /\
  holds_C08_lend (run ex_cfg ex_st0 ex_liq_clean_history) = true /\
  let st := run ex_cfg ex_st0 ex_history in
  map fst (lends st) = [1; 2; 3] /\ map fst (borrows st) = [1] /\
  option_map s_lend (pget (sstats st) (1, 2)) = Some 1000000000 /\
  option_map s_bor (pget (sstats st) (1, 3)) = Some 900002 /\
  pledged (borrows st) (nborrows st) 3 = 1000000000 /\
  option_map l_avail (zget (lends st) 3) = Some 0.
Proof. vm_compute. repeat split. Qed.

(* the "amount still available to borrow" of every lend position is never negative: in every
   reachable state (so a position cannot pledge, or pay out, more than it holds) *)
Theorem c08_available_nonneg : forall cfg st0 ops,
  empty_books st0 -> clean cfg st0 ops ->
  let st := run cfg st0 ops in
  (forall i l, zget (lends st) i = Some l -> 0 <= l_avail l) /\ holds_C08_avail st = true.
Proof.
  intros cfg st0 ops H0 Hc st.
  assert (HA : Avail (lends st)).
  { apply run_avail; [apply init_good; exact H0|exact Hc|]. destruct H0 as (EL & _). rewrite EL. intros i l E. discriminate E. }
  split; [exact HA|]. unfold holds_C08_avail. apply forallb_forall. intros i _.
  destruct (zget (lends st) i) as [l|] eqn:E; [|reflexivity]. apply Z.leb_le. exact (HA i l E).
Qed.
Print Assumptions c08_available_nonneg.

Example c08_available_nonvacuous :
  (* the position of asset 2 has pledged everything: 1 more cannot be pledged (error 10) *)
  let st := run ex_cfg ex_st0 (ex_warm ++ [ex_borrow]) in
  option_map l_avail (zget (lends st) 3) = Some 0 /\ step ex_cfg st (ODepositBorrow 1 1 6 1 bi0) = Err 10.
Proof. vm_compute. repeat split. Qed.

(* ---------------------------------------------------------------------------------------------- *)
(* the collateral of every open position is cTokens of the asset of the lend position it hangs on
   (finding C08-F1, repaired): in every reachable state *)
Theorem c08_collateral_asset : forall cfg st0 ops j b,
  Good cfg st0 -> clean cfg st0 ops ->
  let st := run cfg st0 ops in
  zget (borrows st) j = Some b -> b_liq b = false ->
  mismatched_lend cfg st j = false /\ 0 < b_in b /\
  exists l pr, zget (lends st) (b_lend b) = Some l /\ zget (c_pairs cfg) (b_pair b) = Some pr /\ l_asset l = pr_in pr.
Proof.
  intros cfg st0 ops j b HG Hc st Hb Hq. destruct (run_good cfg ops st0 HG Hc) as (_ & HS).
  split; [exact (side_no_mismatch cfg _ j HS)|exact (HS j b Hb Hq)].
Qed.
Print Assumptions c08_collateral_asset.

(* regression witness of C08-F1: the borrow against the asset-1 position with the asset-2 pair is
   rejected (on the unrepaired code it succeeded with ratio 1.0 at Ltv 0.5) *)
Example c08_f1_witness_rejected :
  step ex_cfg (run ex_cfg ex_st0 ex_warm) ex_f1_borrow = Err 28.
Proof. vm_compute. reflexivity. Qed.

(* ---------------------------------------------------------------------------------------------- *)
(* (c) loan-to-value: a Borrow / Draw / BorrowAlternate that succeeds leaves the position with
      value(principal + floor(interest), asset out) * 10^18 <= (ltv + 1) * value(collateral, asset in)
   at the oracle prices in force, ltv = Ltv or ELtv (e-mode pair) of the pair's asset in; values are
   market.CalcAssetPrice's Decs and "+ 1" (one unit of 10^-18 on the ratio) is the rounding of the Quo
   that forms the ratio.  A NEW cross-pool position satisfies in addition the same bound against the
   bridged transit coins with the transit asset's Ltv ([holds_C08_ltv_new]). *)
Theorem c08_ltv_rule : forall cfg st o st',
  cfg_wf cfg -> Good cfg st -> PricesOk (prices st) ->
  step cfg st o = Ok st' -> ltv_rule cfg st o st'.
Proof. intros cfg st o st' Hwf HG HP H. exact (step_ltv cfg st o st' Hwf HG HP H). Qed.
Print Assumptions c08_ltv_rule.

(* the same after every finite history with unsigned oracle prices *)
Theorem c08_ltv_history : forall cfg st0 ops o st',
  cfg_wf cfg -> empty_books st0 -> clean cfg st0 ops -> PricesOk (prices st0) -> Forall op_sane ops ->
  step cfg (run cfg st0 ops) o = Ok st' -> ltv_rule cfg (run cfg st0 ops) o st'.
Proof.
  intros cfg st0 ops o st' Hwf H0 Hc HP Hs H. destruct (reach_good cfg st0 ops H0 Hc HP Hs) as (HG & HP').
  exact (step_ltv cfg _ o st' Hwf HG HP' H).
Qed.
Print Assumptions c08_ltv_history.

(* what the predicate says, spelled out *)
Theorem c08_ltv_meaning : forall cfg st j,
  holds_C08_ltv cfg st j = true ->
  exists b pr rin vin vout,
    zget (borrows st) j = Some b /\ zget (c_pairs cfg) (b_pair b) = Some pr /\ zget (c_rates cfg) (pr_in pr) = Some rin /\
    calc_price cfg st (pr_in pr) (b_in b) = Ok vin /\
    calc_price cfg st (pr_out pr) (b_out b + dtrunc_int (b_int b)) = Ok vout /\
    vout * P18 <= ((if pr_emode pr then r_eltv rin else r_ltv rin) + 1) * vin.
Proof.
  intros cfg st j H. unfold holds_C08_ltv, ltv_of, debt_of in H.
  destruct (zget (borrows st) j) as [b|] eqn:E1; [|discriminate].
  destruct (zget (c_pairs cfg) (b_pair b)) as [pr|] eqn:E2; [|discriminate].
  destruct (zget (c_rates cfg) (pr_in pr)) as [rin|] eqn:E3; [|discriminate].
  destruct (calc_price cfg st (pr_in pr) (b_in b)) as [vin| |] eqn:E4; try discriminate.
  destruct (calc_price cfg st (pr_out pr) (b_out b + dtrunc_int (b_int b))) as [vout| |] eqn:E5; try discriminate.
  exists b, pr, rin, vin, vout. apply Z.leb_le in H. auto 10.
Qed.
Print Assumptions c08_ltv_meaning.

Example c08_ltv_nonvacuous :
  cfg_wfb ex_cfg = true /\ prices_okb (prices ex_st0) = true /\ forallb op_saneb ex_history = true /\
  (* at the limit: accepted; one coin more: refused by the LTV check (error 30) *)
  is_ok (step ex_cfg (run ex_cfg ex_st0 ex_warm) ex_borrow) = true /\
  step ex_cfg (run ex_cfg ex_st0 ex_warm) ex_over_borrow = Err 30 /\
  step ex_cfg (run ex_cfg ex_st0 (ex_warm ++ [ex_borrow])) ex_draw_over = Err 30 /\
  is_ok (step ex_cfg (run ex_cfg ex_st0 (ex_warm ++ [ex_borrow; OSetPrice 3 (Some 40000000000); ex_repay])) ex_draw) = true /\
  (* cross-pool: at the limit of the bridged coins accepted, one coin more refused *)
  step ex_cfg (run ex_cfg ex_st0 (ex_warm ++ ex_supply2)) ex_cross_over = Err 30 /\
  is_ok (step ex_cfg (run ex_cfg ex_st0 (ex_warm ++ ex_supply2)) ex_cross_borrow) = true /\
  holds_C08_ltv_new ex_cfg (run ex_cfg ex_st0 ex_cross_history) 1 = true.
Proof. vm_compute. repeat split. Qed.

(* ---------------------------------------------------------------------------------------------- *)
(* (c') the pool holds the lent-out coins: the loan is not larger than the balance of the asset-out
   pool's module account in the state in which BorrowAsset / DrawAsset release it (for a top-up of an
   existing position: the state after its DepositBorrow half) *)
Theorem c08_pool_holds : forall cfg st o st',
  cfg_wf cfg -> Good cfg st -> step cfg st o = Ok st' -> pool_rule cfg st o.
Proof. intros cfg st o st' Hwf HG H. exact (step_pool cfg st o st' Hwf HG H). Qed.
Print Assumptions c08_pool_holds.

Example c08_pool_nonvacuous :
  (* asset 1 made cheap so that the LTV check passes: the pool of asset 1 holds 1 000 000 000 coins;
     exactly that much is released, one coin more is refused with "pool insufficient" (error 13) *)
  let st := run ex_cfg ex_st0 (ex_warm ++ [OSetPrice 1 (Some 1000)]) in
  step ex_cfg st (OBorrow 1 3 3 false 6 1000000000 1 1000000001 bi0 bi0) = Err 13 /\
  is_ok (step ex_cfg st (OBorrow 1 3 3 false 6 1000000000 1 1000000000 bi0 bi0)) = true /\
  holds_C08_pool ex_cfg st 3 1000000000 = true /\ holds_C08_pool ex_cfg st 3 1000000001 = false.
Proof. vm_compute. repeat split. Qed.

(* ---------------------------------------------------------------------------------------------- *)
(* (d) Withdraw / CloseLend never release pledged collateral: the collateral of every open position
   is unchanged, a withdrawal is paid out of AvailableToBorrow only (which stays >= 0), and a lend
   position is deleted only when nothing is pledged against it *)
Theorem c08_pledged_safe : forall cfg st o st',
  Good cfg st -> step cfg st o = Ok st' -> pledged_rule cfg st o st'.
Proof. intros cfg st o st' HG H. exact (step_pledged cfg st o st' HG H). Qed.
Print Assumptions c08_pledged_safe.

Example c08_pledged_nonvacuous :
  let st := run ex_cfg ex_st0 (ex_warm ++ [ex_borrow]) in
  step ex_cfg st ex_withdraw_pledged = Err 10 /\ step ex_cfg st ex_close_pledged = Err 19 /\
  is_ok (step ex_cfg st ex_withdraw_free) = true /\
  (* RepayWithdraw: the position is closed and exactly its collateral (the whole lend position here) is withdrawn *)
  let st' := apply_op ex_cfg st (ORepayWithdraw 1 1 bi0 0) in
  is_ok (step ex_cfg st (ORepayWithdraw 1 1 bi0 0)) = true /\ map fst (borrows st') = [] /\ map fst (lends st') = [1; 2] /\
  holds_C08_lend st' = true.
Proof. vm_compute. repeat split. Qed.

(* ---------------------------------------------------------------------------------------------- *)
(* (e) the life of a handed-over position: the close of its generation-2 auction.  For EVERY environment input
   (target debt, owner, returned collateral) a successful close keeps the invariant of the books (so Inv08_lend /
   Inv08_borrow hold through closes, see [run_good]) and removes the position: its record, and its id in the user
   mapping of the lend position it hung on (AvailableToBorrow and AmountIn of that lend position are untouched -
   nothing is returned to it). *)
Theorem c08_close_books : forall cfg st bid target owner back st',
  Good cfg st -> step cfg st (OAucClose bid target owner back) = Ok st' ->
  Good cfg st' /\ zget (borrows st') bid = None /\
  exists b, zget (borrows st) bid = Some b /\ b_liq b = true /\
    forall l', zget (lends st') (b_lend b) = Some l' ->
      exists l, zget (lends st) (b_lend b) = Some l /\ l_bids l' = remove_sorted bid (l_bids l) /\
                l_avail l' = l_avail l /\ l_in l' = l_in l.
Proof.
  intros cfg st bid target owner back st' HG H. cbn [step] in H.
  split; [exact (proj1 (auc_close_good cfg _ _ _ _ _ _ HG H))|].
  destruct (auc_close_gone cfg _ _ _ _ _ _ H) as (Hgone & Hl). split; [exact Hgone|].
  unfold auc_close in H. destruct (zget (borrows st) bid) as [b|] eqn:Eb; [|discriminate].
  exists b. split; [reflexivity|]. split; [destruct (b_liq b); [reflexivity|discriminate]|exact Hl].
Qed.
Print Assumptions c08_close_books.

(* market bids that do not close the auction, MsgFundModuleAccounts and MsgFundReserveAccounts move coins only *)
Theorem c08_coins_only : forall cfg st o st',
  coins_only o = true -> step cfg st o = Ok st' ->
  lends st' = lends st /\ borrows st' = borrows st /\ sstats st' = sstats st /\ lctr st' = lctr st /\ bctr st' = bctr st /\
  prices st' = prices st.
Proof. intros cfg st o st' Ho H. exact (coins_only_books cfg st o st' Ho H). Qed.
Print Assumptions c08_coins_only.

(* the flows of the asset out at a close, exactly: the pools receive the target debt, forward the penalty (recomputed:
   e-mode penalty for an e-mode pair) and the reserve share of the interest, TotalInterestAccumulated grows by the
   rest of the interest; [extra >= 0]: coins of the same denom that reach a pool account on the way (the returned
   collateral when the owner is a pool account, minted cTokens when the cToken denom is the asset itself) *)
Theorem c08_close_flow : forall cfg st bid target owner back st' b pr,
  pools_wf cfg -> step cfg st (OAucClose bid target owner back) = Ok st' ->
  zget (borrows st) bid = Some b -> zget (c_pairs cfg) (b_pair b) = Some pr ->
  exists pen extra,
    close_penalty cfg pr b = Ok pen /\ 0 <= extra /\ 0 <= pen /\
    ptotal cfg (bnk st') (pr_out pr) - ptotal cfg (bnk st) (pr_out pr)
      = target - pen - (if dtrunc_int (b_res b) >? 0 then dtrunc_int (b_res b) else 0) + extra /\
    tia_of st' (pr_out_pool pr, pr_out pr) - tia_of st (pr_out_pool pr, pr_out pr)
      = (if dtrunc_int (b_int b - b_res b) >? 0 then dtrunc_int (b_int b - b_res b) else 0).
Proof. intros cfg st bid target owner back st' b pr Hwf H Eb Ep. exact (auc_close_flow cfg Hwf _ _ _ _ _ _ b pr H Eb Ep). Qed.
Print Assumptions c08_close_flow.

(* the close rule, outside known-finding class 3: the pools' holdings of the asset out grow by at least the
   principal that returns plus what the close adds to TotalInterestAccumulated, when the target debt is the one the
   hand-over computes (principal + principal x ordinary penalty) *)
Theorem c08_close_rule : forall cfg st bid target owner back st' b,
  pools_wf cfg -> step cfg st (OAucClose bid target owner back) = Ok st' ->
  zget (borrows st) bid = Some b -> 0 <= b_out b ->
  kf_C08_3 cfg st (OAucClose bid target owner back) = false ->
  holds_C08_target cfg st bid target = true ->
  holds_C08_close cfg st st' bid = true.
Proof. intros cfg st bid target owner back st' b Hwf H Eb Ho Hk Ht. exact (close_rule cfg Hwf _ _ _ _ _ _ b H Eb Ho Hk Ht). Qed.
Print Assumptions c08_close_rule.

Example c08_close_rule_nonvacuous :
  let st := run ex_cfg ex_st0 ex_close_plain_prefix in
  pools_wfb ex_cfg = true /\ cleanb ex_cfg ex_st0 ex_close_plain_prefix = true /\
  is_ok (step ex_cfg st ex_close_plain) = true /\ kf_C08_3 ex_cfg st ex_close_plain = false /\
  holds_C08_target ex_cfg st 1 945000 = true /\ option_map b_out (zget (borrows st) 1) = Some 900000 /\
  holds_C08_close ex_cfg st (apply_op ex_cfg st ex_close_plain) 1 = true /\
  ptotal ex_cfg (bnk st) 3 = 999100000 /\ ptotal ex_cfg (bnk (apply_op ex_cfg st ex_close_plain)) 3 = 1000000000 /\
  map fst (borrows (apply_op ex_cfg st ex_close_plain)) = [] /\
  holds_C08_lend (apply_op ex_cfg st ex_close_plain) = true /\ holds_C08_borrow ex_cfg (apply_op ex_cfg st ex_close_plain) = true.
Proof. vm_compute. repeat split. Qed.

(* finding C08-F3 (a): inside class 3 the rule is false.  Witness (replayed on the real keepers by
   harness/c08_close_test.go, case 0, same numbers): 152.83 coins of interest accrued (reserve share 152.71), the
   auction pays 945 000 = 900 000 + 5 %, the close forwards 45 000 + 152: the pool of asset 3 holds 999 999 848 coins
   against a published total lent of 1 000 000 000 with nothing lent out, and the only lender's CloseLend is refused
   ("lending pool insufficient", error 13) *)
Theorem c08_close_rule_refuted_interest :
  exists cfg st0 ops o, empty_books st0 /\ clean cfg st0 ops /\ pools_wf cfg /\
    kf_C08_3 cfg (run cfg st0 ops) o = true /\ is_ok (step cfg (run cfg st0 ops) o) = true /\
    holds_C08_target cfg (run cfg st0 ops) 1 945000 = true /\
    let st' := apply_op cfg (run cfg st0 ops) o in
    holds_C08_close cfg (run cfg st0 ops) st' 1 = false /\
    holds_C08_lend st' = true /\ holds_C08_borrow cfg st' = true /\
    ptotal cfg (bnk st') 3 = 999999848 /\
    option_map (fun s => (s_lend s, s_bor s, s_sbor s)) (pget (sstats st') (1, 3)) = Some (1000000000, 0, 0) /\
    step cfg st' (OCloseLend 2 1 0) = Err 13.
Proof.
  exists ex_cfg, ex_st0, ex_close_interest_prefix, ex_close_interest.
  split; [apply empty_booksb_ok; vm_compute; reflexivity|].
  split; [apply cleanb_ok; vm_compute; reflexivity|]. split; [apply pools_wfb_ok; vm_compute; reflexivity|].
  vm_compute. repeat split.
Qed.
Print Assumptions c08_close_rule_refuted_interest.

(* finding C08-F3 (b): an e-mode pair whose e-mode penalty (0.08) is above the ordinary one (0.05), closed without any
   interest: the auction collected 1 050 000 = 1 000 000 + 5 %, the close forwards 80 000: the pool ends 30 000 short *)
Theorem c08_close_rule_refuted_emode :
  exists cfg st0 ops o, empty_books st0 /\ clean cfg st0 ops /\ pools_wf cfg /\
    kf_C08_3 cfg (run cfg st0 ops) o = true /\ is_ok (step cfg (run cfg st0 ops) o) = true /\
    holds_C08_target cfg (run cfg st0 ops) 1 1050000 = true /\
    option_map (fun b => (dtrunc_int (b_int b), dtrunc_int (b_res b))) (zget (borrows (run cfg st0 ops)) 1) = Some (0, 0) /\
    let st' := apply_op cfg (run cfg st0 ops) o in
    holds_C08_close cfg (run cfg st0 ops) st' 1 = false /\
    ptotal cfg (bnk st') 3 = 999970000 /\
    option_map (fun s => (s_lend s, s_bor s, s_sbor s)) (pget (sstats st') (1, 3)) = Some (1000000000, 0, 0).
Proof.
  exists ex_cfg, ex_st0, ex_close_emode_prefix, ex_close_emode.
  split; [apply empty_booksb_ok; vm_compute; reflexivity|].
  split; [apply cleanb_ok; vm_compute; reflexivity|]. split; [apply pools_wfb_ok; vm_compute; reflexivity|].
  vm_compute. repeat split.
Qed.
Print Assumptions c08_close_rule_refuted_emode.

(* finding C10-F7 seen from the lend books: a cross-pool position whose lend record the hand-over deleted can never
   be closed - whatever the auction supplies, the closing bid does not succeed (the bank keeper panics on the module
   account ""), so the position stays flagged and outside the published totals for ever *)
Theorem c08_close_stuck : forall cfg st bid b target owner back,
  zget (borrows st) bid = Some b -> b_liq b = true -> 0 < b_brd b -> zget (lends st) (b_lend b) = None ->
  apply_op cfg st (OAucClose bid target owner back) = st.
Proof.
  intros cfg st bid b target owner back Eb Eq Hb El. unfold apply_op. cbn [step].
  destruct (auc_close cfg st bid target owner back) as [st'| |] eqn:E; try reflexivity.
  exfalso. exact (auc_close_stuck cfg st bid b target owner back Eb Eq Hb El st' E).
Qed.
Print Assumptions c08_close_stuck.

Example c08_close_stuck_nonvacuous :
  let st := run ex_cfg ex_st0 ex_close_stuck_prefix in
  cleanb ex_cfg ex_st0 ex_close_stuck_prefix = true /\
  option_map (fun b => (b_liq b, b_brd b, b_lend b)) (zget (borrows st) 1) = Some (true, 1000000, 3) /\
  zget (lends st) 3 = None /\ step ex_cfg st ex_close_stuck = Panic.
Proof. vm_compute. repeat split. Qed.

(* ---------------------------------------------------------------------------------------------- *)
(* (f) the ESM kill switch and pool depreciation, as the handlers read them.  With the kill switch on for every
   app, no lend message (all eleven, RepayWithdraw) and no hand-over changes anything: the books are frozen; what
   still moves the state: bids on / closes of running auctions, the funding messages, oracle moves, the switch *)
Theorem c08_kill_switch_freezes : forall cfg st o,
  (forall a, is_killed st a = true) -> lend_msg o = true -> apply_op cfg st o = st.
Proof. intros cfg st o HK Ho. exact (kill_switch_freezes cfg st HK o Ho). Qed.
Print Assumptions c08_kill_switch_freezes.

(* a depreciated pool takes no new funds and no new debt: Lend, Deposit, Borrow, DepositBorrow, Draw and
   BorrowAlternate on it leave the state unchanged (Withdraw, CloseLend, Repay, CloseBorrow are not stopped) *)
Theorem c08_depreciated_pool_closed : forall cfg st p o,
  is_depr st p = true -> inflow_on st p o = true -> apply_op cfg st o = st.
Proof. intros cfg st p o HD Ho. exact (depreciated_pool_closed cfg st p HD o Ho). Qed.
Print Assumptions c08_depreciated_pool_closed.

Example c08_esm_nonvacuous :
  let st := run ex_cfg ex_st0 (ex_warm ++ [ex_borrow]) in
  (* the switch of the lend app goes on: the draw that was admissible is refused (error 32); off again: accepted *)
  let stk := run ex_cfg st [OKill true 1 true] in
  killed stk = [1] /\ is_ok (step ex_cfg st (ORepay 1 1 3 400000 bi0)) = true /\
  step ex_cfg stk (ORepay 1 1 3 400000 bi0) = Err 32 /\ step ex_cfg stk ex_withdraw_free = Err 32 /\
  step ex_cfg stk (OKill false 1 false) = Err 60 /\
  is_ok (step ex_cfg (run ex_cfg stk [OKill true 1 false]) (ORepay 1 1 3 400000 bi0)) = true /\
  (* pool 1 depreciated: no new deposit (error 31), withdrawing still works *)
  let std := run ex_cfg st [ODepreciate 1] in
  depr std = [1] /\ inflow_on std 1 (ODeposit 1 2 1 5 0) = true /\ step ex_cfg std (ODeposit 1 2 1 5 0) = Err 31 /\
  is_ok (step ex_cfg st (ODeposit 1 2 1 5 0)) = true /\ is_ok (step ex_cfg std ex_withdraw_free) = true /\
  step ex_cfg st (ODepreciate 3) = Err 2.
Proof. vm_compute. repeat split. Qed.
