(* C08 - Lending books balance and borrowing is bounded by loan-to-value.
   Property theorems only; each is closed by lemmas of Proofs/LendProofs*.v over the executable
   model Model/Lend.v of x/lend/keeper (all eleven messages, same-pool and cross-pool pairs).

   [ops] is ANY finite history of messages (any user, position id, pair id, denom, amount, any
   interest / reward inputs [biter] / [ipb] produced by the rate arithmetic, which is property
   C18's subject) interleaved with ANY oracle moves (OSetPrice).  A message that fails or panics
   leaves the state unchanged (baseapp).  [Good] is the inductive invariant (books identity +
   "every open position hangs on a lend position of its pair's asset in, with positive collateral").

   Finding C08-F1 (BorrowAsset accepted a lend position of another asset than the pair's asset in
   and priced the pledged cTokens with that other asset) is REPAIRED (fixes/C08-F1); the model
   follows the repaired code, the witness stays below as a regression example and in the
   scripted workload harness/c08_witness_test.go.

   The hand-over of a position to a liquidation auction (liquidationsV2 UpdateLockedBorrows, op
   OHandOver; the liquidation DECISION is C09's subject and an environment input here) is part of
   the histories: positions under liquidation are excluded from every sum exactly as the property
   says.  Finding C08-F2: the hand-over deletes the lend record when its AmountIn is exhausted even
   if it still has AvailableToBorrow or other open positions; the books identity is REFUTED inside
   that class ([kf_C08_2], [c08_books_refuted_handover]) and proved outside it ([clean] histories;
   every history without hand-overs is clean: [c08_clean_without_handover]).
   Not modelled: what happens to a handed-over position afterwards (auction close, CreteNewBorrow). *)
From Comdex Require Import Lib.Base Lib.DecArith Lib.DecFacts Model.Lend Model.LendEx.
From Comdex Require Import Proofs.LendProofs Proofs.LendProofsInv Proofs.LendProofsSide Proofs.LendProofsSteps Proofs.LendProofsSteps2
     Proofs.LendProofsLiq Proofs.LendProofsHist Proofs.LendProofsLtv Proofs.LendProofsRules Proofs.LendProofsMain Proofs.LendProofsAvail.

(* ---------------------------------------------------------------------------------------------- *)
(* (a) published total lent = sum over the lend positions of the pool-asset of (available to
   borrow + collateral pledged to their open borrows that are not handed to an auction), after
   every finite history from any state that satisfies the invariant *)
Theorem Inv08_lend : forall cfg st0 ops k s,
  Good cfg st0 -> clean cfg st0 ops ->
  let st := run cfg st0 ops in
  pget (sstats st) k = Some s ->
  s_lend s = lend_sum (lends st) (borrows st) (nlends st) (nborrows st) k.
Proof.
  intros cfg st0 ops k s HG Hc st Hs.
  destruct (run_good cfg ops st0 HG Hc) as ((_ & _ & _ & _ & HSI) & _). exact (proj1 (HSI k s Hs)).
Qed.
Print Assumptions Inv08_lend.

(* (b) published totals borrowed (variable, stable) = sums of principal over the open positions of
   the pool-asset that are not under liquidation; the published id lists are exactly the ids of
   the positions of the pool-asset *)
Theorem Inv08_borrow : forall cfg st0 ops k s,
  Good cfg st0 -> clean cfg st0 ops ->
  let st := run cfg st0 ops in
  pget (sstats st) k = Some s ->
  s_bor s = bor_sum cfg (borrows st) (nborrows st) false k /\
  s_sbor s = bor_sum cfg (borrows st) (nborrows st) true k /\
  s_lids s = filter (l_in_key (lends st) k) (zseq (nlends st)) /\
  s_bids s = filter (b_in_key cfg (borrows st) k) (zseq (nborrows st)).
Proof.
  intros cfg st0 ops k s HG Hc st Hs.
  destruct (run_good cfg ops st0 HG Hc) as ((_ & _ & _ & _ & HSI) & _). exact (proj2 (HSI k s Hs)).
Qed.
Print Assumptions Inv08_borrow.

(* both, as the executable predicates the runner evaluates on the implementation's books, for
   every history that starts without positions and with zero totals *)
Theorem c08_history : forall cfg st0 ops,
  empty_books st0 -> clean cfg st0 ops ->
  holds_C08_lend (run cfg st0 ops) = true /\ holds_C08_borrow cfg (run cfg st0 ops) = true.
Proof.
  intros cfg st0 ops H0 Hc. pose proof (Good_Inv _ _ (run_good cfg ops st0 (init_good cfg st0 H0) Hc)) as HI.
  split; [exact (inv_holds_lend cfg _ HI)|exact (inv_holds_borrow cfg _ HI)].
Qed.
Print Assumptions c08_history.

(* a history is clean when it contains no hand-over at all (the eleven lend messages and oracle moves) *)
Theorem c08_clean_without_handover : forall cfg st0 ops,
  forallb (fun o => negb (is_handover o)) ops = true -> clean cfg st0 ops.
Proof. intros cfg st0 ops H. exact (clean_no_handover cfg ops st0 H). Qed.
Print Assumptions c08_clean_without_handover.

(* finding C08-F2: inside class 2 the identity of total lent is false.  Witness (replayed on the real
   keepers by harness/c08_liq_test.go with the same numbers): a position that earned 313 940 coins of
   rewards pledges its whole AmountIn and is handed over; the record is deleted, TotalLend keeps the
   313 940 coins that no lend position holds any more *)
Theorem c08_books_refuted_handover :
  exists cfg st0 ops o, empty_books st0 /\ clean cfg st0 ops /\ kf_C08_2 (run cfg st0 ops) o = true /\
    holds_C08_lend (run cfg st0 (ops ++ [o])) = false /\
    option_map s_lend (pget (sstats (run cfg st0 (ops ++ [o]))) (1, 2)) = Some 2000313940 /\
    lend_sum (lends (run cfg st0 (ops ++ [o]))) (borrows (run cfg st0 (ops ++ [o]))) 4 2 (1, 2) = 2000000000.
Proof.
  exists ex_cfg, ex_st0, ex_liq_prefix, ex_handover.
  split; [apply empty_booksb_ok; vm_compute; reflexivity|].
  split; [apply cleanb_ok; vm_compute; reflexivity|]. vm_compute. repeat split.
Qed.
Print Assumptions c08_books_refuted_handover.

Example c08_history_nonvacuous :
  empty_booksb ex_st0 = true /\ cleanb ex_cfg ex_st0 ex_history = true /\
  (* a clean history WITH a hand-over: the position is flagged, the books identities hold *)
  cleanb ex_cfg ex_st0 ex_liq_clean_history = true /\
  map (fun jb => b_liq (snd jb)) (borrows (run ex_cfg ex_st0 ex_liq_clean_history)) = [true] /\
  holds_C08_lend (run ex_cfg ex_st0 ex_liq_clean_history) = true /\
  let st := run ex_cfg ex_st0 ex_history in
  map fst (lends st) = [1; 2; 3] /\ map fst (borrows st) = [1] /\
  option_map s_lend (pget (sstats st) (1, 2)) = Some 1000000000 /\
  option_map s_bor (pget (sstats st) (1, 3)) = Some 900002 /\
  pledged (borrows st) (nborrows st) 3 = 1000000000 /\
  option_map l_avail (zget (lends st) 3) = Some 0.
Proof. vm_compute. repeat split. Qed.

(* the "amount still available to borrow" of every lend position is never negative: in every
   reachable state (so a position cannot pledge, or pay out, more than it holds) *)
Theorem c08_available_nonneg : forall cfg st0 ops,
  empty_books st0 -> clean cfg st0 ops ->
  let st := run cfg st0 ops in
  (forall i l, zget (lends st) i = Some l -> 0 <= l_avail l) /\ holds_C08_avail st = true.
Proof.
  intros cfg st0 ops H0 Hc st.
  assert (HA : Avail (lends st)).
  { apply run_avail; [apply init_good; exact H0|exact Hc|]. destruct H0 as (EL & _). rewrite EL. intros i l E. discriminate E. }
  split; [exact HA|]. unfold holds_C08_avail. apply forallb_forall. intros i _.
  destruct (zget (lends st) i) as [l|] eqn:E; [|reflexivity]. apply Z.leb_le. exact (HA i l E).
Qed.
Print Assumptions c08_available_nonneg.

Example c08_available_nonvacuous :
  (* the position of asset 2 has pledged everything: 1 more cannot be pledged (error 10) *)
  let st := run ex_cfg ex_st0 (ex_warm ++ [ex_borrow]) in
  option_map l_avail (zget (lends st) 3) = Some 0 /\ step ex_cfg st (ODepositBorrow 1 1 6 1 bi0) = Err 10.
Proof. vm_compute. repeat split. Qed.

(* ---------------------------------------------------------------------------------------------- *)
(* the collateral of every open position is cTokens of the asset of the lend position it hangs on
   (finding C08-F1, repaired): in every reachable state *)
Theorem c08_collateral_asset : forall cfg st0 ops j b,
  Good cfg st0 -> clean cfg st0 ops ->
  let st := run cfg st0 ops in
  zget (borrows st) j = Some b -> b_liq b = false ->
  mismatched_lend cfg st j = false /\ 0 < b_in b /\
  exists l pr, zget (lends st) (b_lend b) = Some l /\ zget (c_pairs cfg) (b_pair b) = Some pr /\ l_asset l = pr_in pr.
Proof.
  intros cfg st0 ops j b HG Hc st Hb Hq. destruct (run_good cfg ops st0 HG Hc) as (_ & HS).
  split; [exact (side_no_mismatch cfg _ j HS)|exact (HS j b Hb Hq)].
Qed.
Print Assumptions c08_collateral_asset.

(* regression witness of C08-F1: the borrow against the asset-1 position with the asset-2 pair is
   rejected (on the unrepaired code it succeeded with ratio 1.0 at Ltv 0.5) *)
Example c08_f1_witness_rejected :
  step ex_cfg (run ex_cfg ex_st0 ex_warm) ex_f1_borrow = Err 28.
Proof. vm_compute. reflexivity. Qed.

(* ---------------------------------------------------------------------------------------------- *)
(* (c) loan-to-value: a Borrow / Draw / BorrowAlternate that succeeds leaves the position with
      value(principal + floor(interest), asset out) * 10^18 <= (ltv + 1) * value(collateral, asset in)
   at the oracle prices in force, ltv = Ltv or ELtv (e-mode pair) of the pair's asset in; values are
   market.CalcAssetPrice's Decs and "+ 1" (one unit of 10^-18 on the ratio) is the rounding of the Quo
   that forms the ratio.  A NEW cross-pool position satisfies in addition the same bound against the
   bridged transit coins with the transit asset's Ltv ([holds_C08_ltv_new]). *)
Theorem c08_ltv_rule : forall cfg st o st',
  cfg_wf cfg -> Good cfg st -> PricesOk (prices st) ->
  step cfg st o = Ok st' -> ltv_rule cfg st o st'.
Proof. intros cfg st o st' Hwf HG HP H. exact (step_ltv cfg st o st' Hwf HG HP H). Qed.
Print Assumptions c08_ltv_rule.

(* the same after every finite history with unsigned oracle prices *)
Theorem c08_ltv_history : forall cfg st0 ops o st',
  cfg_wf cfg -> empty_books st0 -> clean cfg st0 ops -> PricesOk (prices st0) -> Forall op_sane ops ->
  step cfg (run cfg st0 ops) o = Ok st' -> ltv_rule cfg (run cfg st0 ops) o st'.
Proof.
  intros cfg st0 ops o st' Hwf H0 Hc HP Hs H. destruct (reach_good cfg st0 ops H0 Hc HP Hs) as (HG & HP').
  exact (step_ltv cfg _ o st' Hwf HG HP' H).
Qed.
Print Assumptions c08_ltv_history.

(* what the predicate says, spelled out *)
Theorem c08_ltv_meaning : forall cfg st j,
  holds_C08_ltv cfg st j = true ->
  exists b pr rin vin vout,
    zget (borrows st) j = Some b /\ zget (c_pairs cfg) (b_pair b) = Some pr /\ zget (c_rates cfg) (pr_in pr) = Some rin /\
    calc_price cfg st (pr_in pr) (b_in b) = Ok vin /\
    calc_price cfg st (pr_out pr) (b_out b + dtrunc_int (b_int b)) = Ok vout /\
    vout * P18 <= ((if pr_emode pr then r_eltv rin else r_ltv rin) + 1) * vin.
Proof.
  intros cfg st j H. unfold holds_C08_ltv, ltv_of, debt_of in H.
  destruct (zget (borrows st) j) as [b|] eqn:E1; [|discriminate].
  destruct (zget (c_pairs cfg) (b_pair b)) as [pr|] eqn:E2; [|discriminate].
  destruct (zget (c_rates cfg) (pr_in pr)) as [rin|] eqn:E3; [|discriminate].
  destruct (calc_price cfg st (pr_in pr) (b_in b)) as [vin| |] eqn:E4; try discriminate.
  destruct (calc_price cfg st (pr_out pr) (b_out b + dtrunc_int (b_int b))) as [vout| |] eqn:E5; try discriminate.
  exists b, pr, rin, vin, vout. apply Z.leb_le in H. auto 10.
Qed.
Print Assumptions c08_ltv_meaning.

Example c08_ltv_nonvacuous :
  cfg_wfb ex_cfg = true /\ prices_okb (prices ex_st0) = true /\ forallb op_saneb ex_history = true /\
  (* at the limit: accepted; one coin more: refused by the LTV check (error 30) *)
  is_ok (step ex_cfg (run ex_cfg ex_st0 ex_warm) ex_borrow) = true /\
  step ex_cfg (run ex_cfg ex_st0 ex_warm) ex_over_borrow = Err 30 /\
  step ex_cfg (run ex_cfg ex_st0 (ex_warm ++ [ex_borrow])) ex_draw_over = Err 30 /\
  is_ok (step ex_cfg (run ex_cfg ex_st0 (ex_warm ++ [ex_borrow; OSetPrice 3 (Some 40000000000); ex_repay])) ex_draw) = true /\
  (* cross-pool: at the limit of the bridged coins accepted, one coin more refused *)
  step ex_cfg (run ex_cfg ex_st0 (ex_warm ++ ex_supply2)) ex_cross_over = Err 30 /\
  is_ok (step ex_cfg (run ex_cfg ex_st0 (ex_warm ++ ex_supply2)) ex_cross_borrow) = true /\
  holds_C08_ltv_new ex_cfg (run ex_cfg ex_st0 ex_cross_history) 1 = true.
Proof. vm_compute. repeat split. Qed.

(* ---------------------------------------------------------------------------------------------- *)
(* (c') the pool holds the lent-out coins: the loan is not larger than the balance of the asset-out
   pool's module account in the state in which BorrowAsset / DrawAsset release it (for a top-up of an
   existing position: the state after its DepositBorrow half) *)
Theorem c08_pool_holds : forall cfg st o st',
  cfg_wf cfg -> Good cfg st -> step cfg st o = Ok st' -> pool_rule cfg st o.
Proof. intros cfg st o st' Hwf HG H. exact (step_pool cfg st o st' Hwf HG H). Qed.
Print Assumptions c08_pool_holds.

Example c08_pool_nonvacuous :
  (* asset 1 made cheap so that the LTV check passes: the pool of asset 1 holds 1 000 000 000 coins;
     exactly that much is released, one coin more is refused with "pool insufficient" (error 13) *)
  let st := run ex_cfg ex_st0 (ex_warm ++ [OSetPrice 1 (Some 1000)]) in
  step ex_cfg st (OBorrow 1 3 3 false 6 1000000000 1 1000000001 bi0 bi0) = Err 13 /\
  is_ok (step ex_cfg st (OBorrow 1 3 3 false 6 1000000000 1 1000000000 bi0 bi0)) = true /\
  holds_C08_pool ex_cfg st 3 1000000000 = true /\ holds_C08_pool ex_cfg st 3 1000000001 = false.
Proof. vm_compute. repeat split. Qed.

(* ---------------------------------------------------------------------------------------------- *)
(* (d) Withdraw / CloseLend never release pledged collateral: the collateral of every open position
   is unchanged, a withdrawal is paid out of AvailableToBorrow only (which stays >= 0), and a lend
   position is deleted only when nothing is pledged against it *)
Theorem c08_pledged_safe : forall cfg st o st',
  Good cfg st -> step cfg st o = Ok st' -> pledged_rule st o st'.
Proof. intros cfg st o st' HG H. exact (step_pledged cfg st o st' HG H). Qed.
Print Assumptions c08_pledged_safe.

Example c08_pledged_nonvacuous :
  let st := run ex_cfg ex_st0 (ex_warm ++ [ex_borrow]) in
  step ex_cfg st ex_withdraw_pledged = Err 10 /\ step ex_cfg st ex_close_pledged = Err 19 /\
  is_ok (step ex_cfg st ex_withdraw_free) = true.
Proof. vm_compute. repeat split. Qed.
